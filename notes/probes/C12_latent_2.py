"""Latent defect: iterate(n=0) / iterate_final(n=0) (and kernel.scan(n=0) with xs=None)
raise IndexError instead of returning what the documented loops return.

Property clause: "accumulate, reduce, iterate and iterate_final return exactly what their
documented reference loops return", quantified over all lengths.

Documented loops (docstrings in scan.py):

    def iterate(f, n, init):            def iterate_final(f, n, init):
        input = init; seen = [init]         ret = init
        for _ in range(n): ...              for _ in range(n): ret = f(ret)
        return seen                         return ret

so for n == 0 iterate must return [init] (stacked: shape (1,)) and iterate_final must
return init.  Zero-length scans are otherwise supported (ScanTrace.build has an explicit
`scan_length == 0` branch, tests/…/test_zero_length_scan, and accumulate/reduce over an
empty xs DO return [init] / init).

Where the code goes wrong (Scan._static_scan_length):

    return length or jtu.tree_leaves(xs)[0].shape[0]

`length or ...` treats the legitimate length 0 as "not given" and falls through to the
leaves of xs; iterate/iterate_final pass xs=None, so tree_leaves(xs) == [] and [0] raises
IndexError.  Should be `length if length is not None else ...`.
"""
import sys

import jax
import jax.numpy as jnp
import numpy as np

import genjax


@genjax.gen
def step(x):
    z = genjax.normal(x, 1.0) @ "z"
    return x + z


key = jax.random.key(0)
init = 1.5
bad = []

# sanity: n = 1 works, and the zero-length accumulate / reduce analogues work
assert genjax.iterate(n=1)(step).simulate(key, (init,)).get_retval().shape == (2,)


@genjax.gen
def step2(c, x):
    z = genjax.normal(c, 1.0) @ "z"
    return c + z + x


empty = jnp.zeros((0,))
assert np.allclose(genjax.accumulate()(step2).simulate(key, (init, empty)).get_retval(), [init])
assert np.allclose(genjax.reduce()(step2).simulate(key, (init, empty)).get_retval(), init)

for name, gf, expected in [
    ("iterate(n=0)", genjax.iterate(n=0)(step), np.array([init])),
    ("iterate_final(n=0)", genjax.iterate_final(n=0)(step), np.array(init)),
]:
    for op in ("simulate", "importance"):
        try:
            if op == "simulate":
                tr = gf.simulate(key, (init,))
            else:
                tr, _ = gf.importance(key, genjax.ChoiceMap.empty(), (init,))
            got = np.asarray(tr.get_retval())
            if got.shape != expected.shape or not np.allclose(got, expected):
                bad.append(f"{name}.{op}: returned {got}, documented loop returns {expected}")
            if not np.allclose(tr.get_score(), 0.0):
                bad.append(f"{name}.{op}: score {tr.get_score()} != 0")
        except Exception as e:  # noqa: BLE001
            bad.append(
                f"{name}.{op}: raised {type(e).__name__}: {e}; documented loop returns {expected}"
            )

if bad:
    print("VIOLATION: zero-iteration iterate / iterate_final")
    for b in bad:
        print(" -", b)
    sys.exit(1)
print("ok")
