# latent_2: Regenerate (any selection, even the empty one) raises TypeError on a
# `dimap`/`contramap`/`map`-wrapped callee whose pre- or post-function returns a constant.
#
# Program:
#     obs = normal.contramap(lambda m: (m, 1.0))        # fix the scale
#     @gen
#     def model():  x ~ normal(0,1) @ "x";  y ~ obs(x) @ "y"
#
# simulate / assess / importance all work.  Right behaviour (property text): Regenerate
# with the empty selection and unchanged arguments returns the same trace with weight 0;
# Regenerate({"x"}) changes only x and returns new score - old score; Regenerate({"y"})
# redraws y from normal(x, 1).
#
# What happens: Dimap.edit_change_target (combinators/dimap.py) pushes the argdiffs
# through `incremental(self.argument_mapping)`.  An output of the mapping that is a
# constant (the literal 1.0, or any closed-over jnp constant) is a jaxpr Literal and
# comes back from the incremental interpreter as a bare value, not a `Diff`.  The mixed
# tuple `(Diff(x, NoChange), 1.0)` is handed to `self.inner.edit(...)`, whose `Argdiffs`
# beartype validator (Diff.static_check_tree_diff) rejects it -> TypeError.  The same
# happens on the way out when the post-function returns a constant
# (`normal.map(lambda v: (v, 1.0))`).  static.py has `_tag_constant_leaves` for exactly
# this situation; dimap.py has no counterpart.  The same model with
# `lambda m: (m, m * 0 + 1.0)` works.
import sys

import jax
import jax.numpy as jnp

from genjax import SelectionBuilder as S
from genjax import gen, normal
from genjax._src.core.generative.requests import Regenerate

obs = normal.contramap(lambda m: (m, 1.0))


@gen
def model():
    x = normal(0.0, 1.0) @ "x"
    y = obs(x) @ "y"
    return y


@gen
def model_post():
    x = normal(0.0, 1.0) @ "x"
    y = normal.map(lambda v: (v, 1.0))(x, 1.0) @ "y"
    return y[0]


bad = []
for name, m in [("contramap(lambda m: (m, 1.0))", model), ("map(lambda v: (v, 1.0))", model_post)]:
    tr = m.simulate(jax.random.key(0), ())
    score, _ = m.assess(tr.get_choices(), ())  # fine
    for sel_name, sel in [("empty", S.none), ('{"x"}', S["x"]), ('{"y"}', S["y"]), ("all", S.all)]:
        try:
            new, w, _, _ = tr.edit(jax.random.key(1), Regenerate(sel))
        except Exception as e:  # noqa
            bad.append(f"{name}: Regenerate({sel_name}) raised {type(e).__name__}")
            continue
        if sel_name == "empty" and (float(w) != 0.0 or float(new.get_choices()["x"]) != float(tr.get_choices()["x"])):
            bad.append(f"{name}: empty selection changed the trace / weight {float(w)}")

# the top-level wrapped distribution fails the same way
tr = obs.simulate(jax.random.key(0), (0.3,))
try:
    tr.edit(jax.random.key(1), Regenerate(S.none))
except Exception as e:  # noqa
    bad.append(f"top-level contramap trace: Regenerate(empty) raised {type(e).__name__}")

if bad:
    print("VIOLATION (latent_2):")
    for b in bad:
        print("  -", b)
    sys.exit(1)
print("ok")
