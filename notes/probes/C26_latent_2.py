"""latent_2: ChangeTarget(Importance(old), new) samples the new target's extra
latent choices with the SAME PRNG key that `Importance` used to sample the old
target's latents -> particles not properly weighted, evidence biased.

Property clauses violated: "Importance and SMC return properly weighted particles
and unbiased evidence" / "ChangeTarget reweights by the ratio of new to old target
densities" (the reweighted collection must be properly weighted for the new
target, so exp(lml) must be unbiased for the new normalizing constant).  This is
hit through the public entry points `alg.log_marginal_likelihood_estimate(key, new_target)`,
`alg.estimate_normalizing_constant(key, new_target)` and `alg.random_weighted(key, new_target)`.

Where the code goes wrong (src/genjax/_src/inference/smc.py):

    ChangeTarget.run_smc(key):
        collection = self.prev.run_smc(key)                 # uses `key` ...
        sub_keys   = jrandom.split(key, num_particles)      # ... and splits the same `key` again
        ... self.target.importance(sub_keys[i], latents)

    Importance.run_smc(key):
        key, sub_key = jrandom.split(key)
        tr, w = self.target.importance(key, ...)            # key == split(key0)[0]

With one particle, split(key0, 1)[0] == split(key0, 2)[0] (jax's default
partitionable threefry), so the old target's `importance` and the new target's
`importance` run with the identical key.  The static interpreter gives its n-th
traced call fold_in(key, n); hence a choice that the NEW target has to sample
at the n-th call site is an exact replay of the choice the OLD target sampled
at its n-th call site.  (ImportanceK as `prev` does not collide, see output.)

Below (a typical SMC step that extends the latent space): old model has x ~
flip(0.5); new model has z ~ flip(0.5) first, then x ~ flip(0.5), and observes
y ~ flip(0.9 if x == z else 0.1) = True.  The carried-over x and the fresh z are
always equal; exp(lml) is exactly 0.9 on every run whereas Z_new = 0.5.
Correct behaviour: fresh, independent randomness for the reweighting step
(mean of exp(lml) ~ 0.5, x == z in about half of the runs).
"""

import sys

import jax
import jax.numpy as jnp

import genjax
from genjax import ChoiceMapBuilder as C
from genjax.inference import Target
from genjax.inference.smc import ChangeTarget, Importance, ImportanceK


@genjax.gen
def old_model():
    x = genjax.flip(0.5) @ "x"
    return x


@genjax.gen
def new_model():
    z = genjax.flip(0.5) @ "z"
    x = genjax.flip(0.5) @ "x"
    y = genjax.flip(jnp.where(x == z, 0.9, 0.1)) @ "y"
    return y


old_target = Target(old_model, (), C.n())
new_target = Target(new_model, (), C["y"].set(True))
Z = 0.5

keys = jax.random.split(jax.random.key(1), 4000)
bad = []
for name, prev in [
    ("Importance", Importance(old_target)),
    ("ImportanceK(K=2)", ImportanceK(old_target, None, 2)),
]:
    cols = jax.jit(jax.vmap(ChangeTarget(prev, new_target).run_smc))(keys)
    ch = cols.get_particles().get_choices()
    eq = float((ch["x"] == ch["z"]).mean())
    lml = jax.jit(jax.vmap(lambda k: prev.log_marginal_likelihood_estimate(k, new_target)))(keys)
    z_hat = jnp.exp(lml)
    m, se = float(z_hat.mean()), float(z_hat.std() / jnp.sqrt(len(keys)))
    print(f"prev = {name:17s}: E[exp(lml)] ~ {m:.4f} (se {se:.4f}), P(x==z) ~ {eq:.3f}   [Z_new = {Z}]")
    if abs(m - Z) > 6 * se + 1e-4:
        bad.append(
            f"ChangeTarget({name}(old), new): E[exp(lml)] ~ {m:.4f} but Z_new = {Z}; "
            f"x == z in {100 * eq:.0f}% of particles (fresh choice z replays the key that sampled x)"
        )

if bad:
    print("VIOLATION: ChangeTarget output is not properly weighted for the new target")
    for b in bad:
        print("  -", b)
    sys.exit(1)
print("ok")
