"""Latent defect: Scan.edit_index corrupts (or cannot build) the stacked outputs
when the kernel's per-step output `y` is not a scalar.

Property clause: "the final carry and stacked outputs match the loop. This holds after any
... index edit" (edit positions first, middle, last).

Right behaviour: after IndexRequest(idx, Update({z: v})) on a scan whose kernel returns
y = [z, 2z, 3z] + x, row idx of the stacked outputs must be the kernel's new output
and every other row must be the old row, i.e. ys == np.stack([f(carry_i, x_i)[1] for i]).

Where the code goes wrong (src/genjax/_src/generative_functions/combinators/scan.py,
Scan.edit_index):

    idx_array = jnp.arange(trace.scan_length)
    new_scanned_out = tree_map(lambda v1, v2: jnp.where(idx_array == idx, v1, v2),
                               slice_scanned_out, old_scanned_out)

`idx_array == idx` has shape (n,), v1 has shape y.shape and v2 has shape (n, *y.shape);
the (n,) condition is broadcast against the TRAILING axis of v2, not the leading (time)
axis.  When y has shape (k,) with k == n this silently overwrites COLUMN idx of every row
with the new values (and leaves row idx otherwise old); when k != n it raises
"Incompatible shapes for broadcasting".  Scalar y (the only thing the shipped tests use)
hides this.  The mask should be reshaped to (n, 1, ..., 1) per leaf.
"""
import sys

import jax
import jax.numpy as jnp
import numpy as np

import genjax
from genjax import ChoiceMapBuilder as C
from genjax import Diff, IndexRequest, Update


@genjax.gen
def kernel(c, x):
    z = genjax.normal(c, 1.0) @ "z"
    return c, jnp.stack([z, 2 * z, 3 * z]) + x  # carry unchanged, vector output


def reference(tr, init, xs, n):
    chm, carry, ys, score = tr.get_choices(), init, [], 0.0
    for i in range(n):
        s, (carry, y) = kernel.assess(chm(i), (carry, xs[i]))
        ys.append(y)
        score += s
    return score, carry, jnp.stack(ys)


bad = []
key = jax.random.key(1)
for n in (3, 4):  # n == len(y) -> silently wrong; n != len(y) -> exception
    xs = jnp.arange(n, dtype=float)
    args = (0.5, xs)
    tr = kernel.scan(n=n).simulate(key, args)
    _, _, ys0 = reference(tr, 0.5, xs, n)
    assert np.allclose(tr.get_retval()[1], ys0)  # simulate is fine
    for idx in sorted({0, n // 2, n - 1}):
        req = IndexRequest(jnp.array(idx), Update(C["z"].set(7.0)))
        try:
            new_tr, w, _, _ = req.edit(key, tr, Diff.no_change(args))
        except Exception as e:  # noqa: BLE001
            bad.append(f"n={n} idx={idx}: index edit raised {type(e).__name__}: {str(e)[:120]}")
            continue
        assert np.allclose(new_tr.get_choices()[idx, "z"], 7.0)
        score, carry, ys = reference(new_tr, 0.5, xs, n)
        got = new_tr.get_retval()[1]
        if not np.allclose(got, ys):
            bad.append(
                f"n={n} idx={idx}: stacked outputs after the index edit differ from the loop\n"
                f"   got\n{np.asarray(got)}\n   loop gives\n{np.asarray(ys)}"
            )

if bad:
    print("VIOLATION: Scan index edit with a vector-valued per-step output")
    for b in bad:
        print(" -", b)
    sys.exit(1)
print("ok")
