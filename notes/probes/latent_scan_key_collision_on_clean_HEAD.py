import jax, jax.numpy as jnp, genjax
from genjax import gen, flip

@gen
def inner():
    return flip(0.5) @ "x"

@gen
def step(c, _):
    b = flip(0.5) @ "b"
    a = inner() @ "a"
    return c, (b, a)

model = step.scan(n=4)
keys = jax.random.split(jax.random.key(0), 2000)
trs = jax.vmap(lambda k: model.simulate(k, (0.0, None)))(keys)
_, (b, a) = trs.get_retval()
print(b.shape)
for i in range(3):
    print(i, "P(a_i == b_{i+1}) =", jnp.mean(a[:, i] == b[:, i+1]))

# NOTE (side finding, not one of the seeded bugs): on the UNMODIFIED code this prints
#   1 P(a_i == b_{i+1}) = 1.0
# Scan.simulate chains its keys (K_{i+1} = fold_in(K_i, i+1)) and hands K_i to the kernel; a
# static kernel gives its (i+1)-th traced call the key fold_in(K_i, i+1) == K_{i+1}.  If that
# call is a nested static function, its first choice uses fold_in(K_{i+1}, 1), which is also
# the key of the first choice of the kernel at step i+1.  So C04 ("iterations drawing
# independent randomness") is already violated on clean HEAD for this nesting.
