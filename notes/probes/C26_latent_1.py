"""latent_1: ImportanceK with a proposal reuses each particle's PRNG key for the
proposal AND for the target's internal proposal -> biased evidence / improperly
weighted particles (deterministically so for the configuration below).

Property clause violated: "ImportanceK (with ... a proposal) return particles ...
with log-weights equal to log p(particle, observations) minus the log proposal
density.  exp of the log marginal likelihood estimate is therefore an unbiased
estimate of the target's normalizing constant."  That conclusion only follows if
the choices NOT proposed by q are drawn independently (given the proposed ones)
from the model's internal proposal.

Where the code goes wrong (src/genjax/_src/inference/smc.py, ImportanceK.run_smc):

    sub_keys = jrandom.split(sub_key, K)
    log_weights, choices = vmap(self.q.random_weighted, in_axes=(0, None))(sub_keys, self.target)
    trs, target_scores   = vmap(self.target.importance)(sub_keys, choices)     # <- same sub_keys

(`Importance.run_smc` correctly uses two different keys.)  With q a `Marginal`
of a static generative function, q's i-th choice is sampled with
    fold_in(fold_in(k, 1), i)            [split(k)[1] == fold_in(k, 1) under jax's
                                          default partitionable threefry]
and the target's static interpreter gives its first traced call fold_in(k, 1),
so if that first call is itself a generative function (or a vmap), ITS i-th
choice is sampled with fold_in(fold_in(k, 1), i) as well -- the very same key.

Below: z (inside the sub-call, not proposed) and x (proposed by q) are both
flip(0.5), so z == x in every particle of every run.  y ~ flip(0.9 if x == z
else 0.1) is observed True.  True evidence Z = 0.5; ImportanceK returns exactly
0.9 on every run, for every K.  Correct behaviour: mean of exp(lml) ~ 0.5 and
x == z in about half of the particles (as `Importance` with the same q gives).
"""

import sys

import jax
import jax.numpy as jnp

import genjax
from genjax import ChoiceMapBuilder as C
from genjax.inference import Target
from genjax.inference.smc import Importance, ImportanceK


@genjax.gen
def inner():
    z = genjax.flip(0.5) @ "z"
    return z


@genjax.gen
def model():
    z = inner() @ "inner"  # first traced call is a sub generative function
    x = genjax.flip(0.5) @ "x"
    y = genjax.flip(jnp.where(x == z, 0.9, 0.1)) @ "y"
    return y


@genjax.gen
def proposal(target):
    _ = genjax.flip(0.5) @ "x"  # proposes x only; z is left to the model


q = proposal.marginal()
target = Target(model, (), C["y"].set(True))
Z = 0.5  # sum_{x,z} 1/4 * (0.9 if x==z else 0.1)

keys = jax.random.split(jax.random.key(1), 4000)
bad = []


def stats(alg):
    cols = jax.jit(jax.vmap(alg.run_smc))(keys)
    lml = jax.vmap(lambda c: c.get_log_marginal_likelihood_estimate())(cols)
    z_hat = jnp.exp(lml)
    ch = cols.get_particles().get_choices()
    assert bool(jnp.all(ch["y"]))
    return (
        float(z_hat.mean()),
        float(z_hat.std() / jnp.sqrt(len(keys))),
        float((ch["x"] == ch["inner", "z"]).mean()),
    )


m, se, eq = stats(Importance(target, q))
print(f"Importance        : E[exp(lml)] ~ {m:.4f} (se {se:.4f}), P(x==z) ~ {eq:.3f}   [Z = {Z}]")
if abs(m - Z) > 6 * se + 1e-4:
    bad.append(f"Importance biased: {m:.4f} vs {Z}")

for K in (1, 2, 5):
    m, se, eq = stats(ImportanceK(target, q, K))
    print(f"ImportanceK(K={K})  : E[exp(lml)] ~ {m:.4f} (se {se:.4f}), P(x==z) ~ {eq:.3f}   [Z = {Z}]")
    if abs(m - Z) > 6 * se + 1e-4:
        bad.append(
            f"ImportanceK(K={K}) with a Marginal proposal: E[exp(lml)] ~ {m:.4f}, but Z = {Z}; "
            f"x == z in {100 * eq:.0f}% of particles (model's own choice z is sampled with the "
            f"same PRNG key as the proposal's x)"
        )

if bad:
    print("VIOLATION: evidence estimate is not unbiased / particles not properly weighted")
    for b in bad:
        print("  -", b)
    sys.exit(1)
print("ok")
