# latent_1: Regenerate uses the OLD callee stored in the sub-trace, so a callee that
# carries a (regenerated) parent value as dynamic data is redrawn / re-scored under the
# parent's OLD value.
#
# Program (all public API):
#
#     @gen
#     def sub(m):            a ~ normal(m, 0.001)         @ "a"
#     @gen
#     def model():           x ~ normal(0, 10)            @ "x"
#                            y = sub.partial_apply(x)()   @ "y"
#
# `sub.partial_apply(x)` is a StaticGenerativeFunction whose `source` is a
# `Closure(dyn_args=(x,), fn)`; x is dynamic data of the callee (that is exactly what
# Closure/partial_apply are for), so x is a parent of ("y","a").
#
# Right behaviour (property text): "Selected choices are redrawn from their prior given
# the current values of their parents" and the weight is new score - old score, where
# the new score is the log density of the returned trace.  After Regenerate(all),
# ("y","a") must lie within a few 0.001 of the NEW x.  After Regenerate({"x"}) the
# unselected ("y","a") must be re-scored under the new x (huge negative weight here).
#
# What happens: static.py, RegenerateRequestHandler.handle_trace(addr, gen_fn, args)
# ignores the `gen_fn` it is handed by the call site (which contains the new x) and
# runs `Regenerate(subselection).edit(sub_key, subtrace, argdiffs)`, which dispatches
# to `subtrace.get_gen_fn()`: the callee object recorded in the OLD trace, holding the
# OLD x.  (UpdateHandler / StaticEditRequestHandler have the same shape.)  So
#   * select all:  new ("y","a") ~ normal(OLD x, 0.001), not normal(new x, 0.001);
#   * select "x":  "y" is not re-scored at all; the returned trace's score is not the
#     density of its own choices and weight != log p(new) - log p(old).
import sys

import jax
import jax.numpy as jnp

from genjax import SelectionBuilder as S
from genjax import gen, normal
from genjax._src.core.generative.requests import Regenerate


@gen
def sub(m):
    a = normal(m, 0.001) @ "a"
    return a


@gen
def model():
    x = normal(0.0, 10.0) @ "x"
    y = sub.partial_apply(x)() @ "y"
    return y


bad = []
tr = model.simulate(jax.random.key(0), ())
old_x = float(tr.get_choices()["x"])
assert abs(float(tr.get_choices()["y", "a"]) - old_x) < 0.01  # simulate is fine

# (1) everything selected: y.a must be drawn around the NEW x
for seed in range(5):
    new, w, _, _ = tr.edit(jax.random.key(100 + seed), Regenerate(S.all))
    nx, na = float(new.get_choices()["x"]), float(new.get_choices()["y", "a"])
    if abs(na - nx) > 0.01:
        bad.append(
            f"seed {seed}: Regenerate(all): new x={nx:.4f} but new y.a={na:.4f} "
            f"(sd 0.001 around its parent); it sits at the OLD x={old_x:.4f} "
            f"(|y.a-old x|={abs(na - old_x):.4f})"
        )

# (2) only x selected: unselected y.a must be re-scored under the new x
new, w, _, _ = tr.edit(jax.random.key(7), Regenerate(S["x"]))
true_new_score, _ = model.assess(new.get_choices(), ())
true_old_score, _ = model.assess(tr.get_choices(), ())
want = float(true_new_score - true_old_score)
if abs(float(new.get_score()) - float(true_new_score)) > 1e-2:
    bad.append(
        f"Regenerate(x): returned trace score {float(new.get_score()):.3f} != log density "
        f"of its own choices {float(true_new_score):.3f}"
    )
if abs(float(w) - want) > 1e-2 * max(1.0, abs(want)):
    bad.append(
        f"Regenerate(x): weight {float(w):.3f} != new score - old score = {want:.3f}"
    )

# (3) two steps: move x, then regenerate y on the returned trace
new2, _, _, _ = new.edit(jax.random.key(8), Regenerate(S["y"]))
nx, na = float(new2.get_choices()["x"]), float(new2.get_choices()["y", "a"])
if abs(na - nx) > 0.01:
    bad.append(
        f"Regenerate(x) then Regenerate(y): y.a={na:.4f} drawn around the stale x="
        f"{old_x:.4f}, current x={nx:.4f}"
    )

if bad:
    print("VIOLATION (latent_1):")
    for b in bad:
        print("  -", b)
    sys.exit(1)
print("ok")
