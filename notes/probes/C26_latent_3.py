"""latent_3: when the target's constraint covers only PART of an address
(some indices of a vmap / scan address, or a constraint whose mask flag is
False at run time), `Target.filter_to_unconstrained` throws away choices that
are in fact unconstrained.  Consequences, all through public entry points:

  * `alg.log_marginal_likelihood_estimate(key, target)` and
    `alg.estimate_normalizing_constant(key, target)` (which wrap the algorithm in
    ChangeTarget(alg, target), even for the algorithm's own target) are biased:
    the dropped choices are re-sampled by the new target while the weight is
    still divided by the old particle's full score.  E[exp(lml)] = 4 * Z below
    (0.8 for an event of probability 0.2 -- and 2.0 for Z = 1 in the masked case).
  * `alg.random_weighted(key, target)` returns a choice map that lacks the
    unconstrained choices y[1], y[2] while its density estimate still contains
    their density: for the EMPTY returned sample it reports log-density != 0.

Property clauses violated: "exp of the log marginal likelihood estimate is ... an
unbiased estimate of the target's normalizing constant"; "random_weighted ...
density estimates are consistent with the exact posterior"; "ChangeTarget
reweights by the ratio of new to old target densities" (with identical targets
the ratio is 1, so weights must not change -- they do).

Where the code goes wrong (src/genjax/_src/inference/sp.py):

    def filter_to_unconstrained(self, choice_map):
        selection = ~self.constraint.get_selection()
        return choice_map.filter(selection)

`get_selection()` is address-level (transparent to index levels, blind to mask
flags): a constraint on ("y", 0) yields the selection S["y"], whose complement
removes y[0], y[1] AND y[2].  Correct behaviour: keep exactly the choices that
`target.importance` had to sample (here y[1], y[2]); with identical targets
ChangeTarget must leave particles and weights unchanged, so
log_marginal_likelihood_estimate(key, target) must agree in expectation with
log_marginal_likelihood_estimate(key) (= exactly log 0.2 here).
"""

import sys

import jax
import jax.numpy as jnp

import genjax
from genjax import ChoiceMapBuilder as C
from genjax.inference import Target
from genjax.inference.smc import Importance, ImportanceK

keys = jax.random.split(jax.random.key(7), 4000)
bad = []


def evidence(alg, target):
    plain = jnp.exp(jax.jit(jax.vmap(alg.log_marginal_likelihood_estimate))(keys))
    via_ct = jnp.exp(
        jax.jit(jax.vmap(lambda k: alg.log_marginal_likelihood_estimate(k, target)))(keys)
    )
    return plain, via_ct


def report(name, Z, plain, via_ct):
    m0 = float(plain.mean())
    m1, se1 = float(via_ct.mean()), float(via_ct.std() / jnp.sqrt(len(keys)))
    print(f"{name}: Z = {Z:.3f}; E[exp(lml(key))] ~ {m0:.4f}; E[exp(lml(key, target))] ~ {m1:.4f} (se {se1:.4f})")
    if abs(m1 - Z) > 6 * se1 + 1e-4:
        bad.append(f"{name}: E[exp(log_marginal_likelihood_estimate(key, target))] ~ {m1:.4f} but Z = {Z:.3f}")


ps = jnp.array([0.2, 0.5, 0.7])

# --- 1. vmap, only element 0 observed ---------------------------------------
@genjax.gen
def vmodel():
    ys = genjax.flip.vmap()(ps) @ "y"
    return ys


t = Target(vmodel, (), C["y", 0].set(True))  # Z = p(y[0]=True) = 0.2
for name, alg in [("vmap/Importance ", Importance(t)), ("vmap/ImportanceK3", ImportanceK(t, None, 3))]:
    report(name, 0.2, *evidence(alg, t))

alg = ImportanceK(t, None, 4)
ws, chm = jax.jit(jax.vmap(lambda k: alg.random_weighted(k, t)))(keys)
print("random_weighted returns:", jax.tree_util.tree_map(lambda v: v.shape, chm),
      " distinct log-density estimates:", jnp.unique(jnp.round(ws, 3)))
if len(jax.tree_util.tree_leaves(chm)) == 0 and not bool(jnp.allclose(ws, 0.0)):
    bad.append(
        "random_weighted drops the unconstrained choices y[1], y[2]: it returns an EMPTY choice map "
        f"with log-density estimates {jnp.unique(jnp.round(ws, 3))} (an empty sample has density 1)"
    )


# --- 2. scan, only step 0 observed ------------------------------------------
@genjax.gen
def step(c, p):
    y = genjax.flip(p) @ "y"
    return c, y


smodel = step.scan(n=3)
t2 = Target(smodel, (0.0, ps), C[0, "y"].set(True))
report("scan/ImportanceK3", 0.2, *evidence(ImportanceK(t2, None, 3), t2))


# --- 3. constraint masked off at run time -----------------------------------
@genjax.gen
def model():
    x = genjax.flip(0.3) @ "x"
    y = genjax.flip(jnp.where(x, 0.9, 0.2)) @ "y"


t3 = Target(model, (), C["y"].set(True).mask(jnp.array(False)))  # nothing observed: Z = 1
report("masked-off constraint/ImportanceK3", 1.0, *evidence(ImportanceK(t3, None, 3), t3))

if bad:
    print("VIOLATION:")
    for b in bad:
        print("  -", b)
    sys.exit(1)
print("ok")
