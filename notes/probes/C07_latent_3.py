# latent_3: Regenerate raises NotImplementedError when an UNSELECTED `Marginal` (or any
# other non-ExactDensity Distribution: Importance, ImportanceK, ...) has to be re-scored.
#
# Program:
#     @gen
#     def sub(m):   a ~ normal(m,1) @ "a";  b ~ normal(a,1) @ "b"
#     marg = marginal(S["a"])(sub)           # a Distribution over choice maps
#     @gen
#     def model():  x ~ normal(0,1) @ "x";  m ~ marg(x) @ "m"
#
# Regenerate({"m"}), Regenerate(all) and Regenerate(empty) on `model` work, and
# Update with an empty constraint and a changed x works too.  Right behaviour for
# Regenerate({"x"}): x is redrawn, "m" keeps its value and is re-scored under the new x,
# weight = new score - old score.  Inside a scan it is worse: Scan.edit_regenerate marks
# every argument as changed, so even the EMPTY selection with unchanged arguments (which
# must return the same trace with weight 0) raises.
#
# What happens: Distribution.edit_regenerate, branch "not selected, arguments changed"
# (distributions/distribution.py), calls `self.assess(chm, primals)`.  `assess` is only
# implemented by ExactDensity; Distribution.assess raises NotImplementedError.  The
# sibling code path Distribution.edit_update_with_constraint (case None) does the same
# job with `self.estimate_logpdf(key, v, *primals)`, which every Distribution has.
import sys

import jax
import jax.numpy as jnp

import genjax
from genjax import SelectionBuilder as S
from genjax import gen, normal
from genjax._src.core.generative.requests import Regenerate
from genjax.inference import marginal


@gen
def sub(m):
    a = normal(m, 1.0) @ "a"
    b = normal(a, 1.0) @ "b"
    return b


marg = marginal(S["a"])(sub)


@gen
def model():
    x = normal(0.0, 1.0) @ "x"
    m = marg(x) @ "m"
    return x


@genjax.scan(n=3)
@gen
def kern(c, _):
    m = marg(c) @ "m"
    return c, c


bad = []
tr = model.simulate(jax.random.key(0), ())
for sel_name, sel in [("empty", S.none), ('{"m"}', S["m"]), ("all", S.all), ('{"x"}', S["x"])]:
    try:
        new, w, _, _ = tr.edit(jax.random.key(1), Regenerate(sel))
    except NotImplementedError:
        bad.append(f"static model: Regenerate({sel_name}) raised NotImplementedError")

tr = kern.simulate(jax.random.key(0), (0.5, None))
try:
    new, w, _, _ = tr.edit(jax.random.key(1), Regenerate(S.none))
    if float(w) != 0.0:
        bad.append(f"scan: empty selection, weight {float(w)} != 0")
except NotImplementedError:
    bad.append("scan over a kernel with a Marginal: Regenerate(empty), unchanged args, raised NotImplementedError")

if bad:
    print("VIOLATION (latent_3):")
    for b in bad:
        print("  -", b)
    sys.exit(1)
print("ok")
