#!/bin/sh
# tools/run_seeded.sh <seeded-name> <ID> [<ID>...] : run checks against seeded/<name>/patch.diff, log to /verif/.work/logs
ROOT="$(cd "$(dirname "$0")/.." && pwd)"
name=$1; shift
mkdir -p /verif/.work/logs
for id in "$@"; do
  "$ROOT/tools/mutant.sh" "$ROOT/seeded/$name/patch.diff" $id > /verif/.work/logs/mut_${name}_$id.log 2>&1
  echo "$name $id $(grep -c '^VIOLATION' /verif/.work/logs/mut_${name}_$id.log) violations; $(tail -1 /verif/.work/logs/mut_${name}_$id.log | cut -c1-160)" >> /verif/.work/logs/mut_summary.txt
done
