#!/usr/bin/env python3
"""Regenerate /verif/MANIFEST.json from harness/registry.py (claimed) and properties.jsonl (unclaimed -> not_applicable)."""
import json, os, sys
V = os.path.dirname(os.path.dirname(os.path.abspath(__file__)))
sys.path.insert(0, V)
from harness.registry import PROPS, NOT_APPLICABLE  # noqa
ids = [json.loads(l)["id"] for l in open(os.path.join(V, "properties.jsonl"))]
checks = []
for pid in ids:
    if pid not in PROPS:
        continue
    p = PROPS[pid]
    checks.append({
        "property_id": pid,
        "quick_cmd": f"./check {pid} --tier quick",
        "thorough_cmd": f"./check {pid} --tier thorough",
        "evidence_file": f"/verif/evidence/{pid}.json",
        "replay_cmd_template": f"./check {pid} --replay {{path}}",
        "engine": p["engine"],
        "level_claimed": {"category": p["category"], "text": p["text"], "design_ref": p["design_ref"]},
        "level_note": p["note"],
        "technique": p["technique"],
    })
engines = {}
for pid, p in PROPS.items():
    engines.setdefault(p["engine"], []).append(pid)
na = [{"property_id": pid, "reason": NOT_APPLICABLE.get(pid, "check not built yet in this round (planned: see DESIGN.md §5)")}
      for pid in ids if pid not in PROPS]
man = {
    "version": 1,
    "setup_cmd": "./setup.sh",
    "hooks": {
        "guard": "GENJAX_VERIF",
        "enable": "no source hooks are needed: every abstract state is observable through the public API; checks import genjax from /repo/src (editable install) so they always run the current working tree",
        "baseline_off_cmd": "cd /repo && /venv/bin/python -m pytest -ra -q -p no:cacheprovider --timeout=900 --continue-on-collection-errors",
        "source_commits": [],
        "add_only": True,
    },
    "engines": [{"name": e, "path": f"harness/{e}.py", "serves_properties": sorted(ps),
                 "kind_free_text": "TLC case generation / trace validation + Python replay driver"} for e, ps in sorted(engines.items())],
    "checks": checks,
    "notes": "All checks: TLA+ specs under spec/, TLC decides; harness/ drives the real genjax from TLC-generated cases and logs events for TLC trace validation. known_findings.json lists recorded defects.",
    "not_applicable": na,
}
json.dump(man, open(os.path.join(V, "MANIFEST.json"), "w"), indent=1)
print(f"{len(checks)} checks, {len(na)} not claimed")
