#!/bin/sh
# tools/mutant.sh <patch.diff | -e 'python-expr editing files'> <ID> [check args...]
# Runs ./check <ID> against a scratch copy of /repo/src with the patch applied (PYTHONPATH override);
# the copy lives under a fresh mktemp dir outside /repo and /verif and is removed afterwards.
set -e
PATCH="$1"; shift
D="$(mktemp -d /tmp/mut.XXXXXX)"
trap 'rm -rf "$D"' EXIT
mkdir -p "$D/repo"
cp -r /repo/src "$D/repo/src"
( cd "$D/repo" && patch -p1 -s < "$PATCH" )
cd /verif
mkdir -p /verif/.work/mutant/work /verif/.work/mutant/evidence
for id in "$@"; do
  PYTHONPATH="$D/repo/src" VERIF_MUTANT=1 VERIF_WORK=/verif/.work/mutant/work VERIF_EVID=/verif/.work/mutant/evidence ./check "$id" || echo "rc=$? for $id"
done
