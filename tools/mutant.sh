#!/bin/sh
# tools/mutant.sh <patch.diff> <ID> [<ID>...]
# Runs ./check <ID> against a scratch copy of /repo/src with the patch applied (PYTHONPATH override); the copy lives
# under a fresh mktemp dir outside /repo and /verif and is removed afterwards.  Work files and evidence of these runs
# go to <root>/.work/mutant/ so that the committed evidence/ is not disturbed.  <root> is the directory this script
# lives in (so it also works from a `vp run` snapshot of /verif).
set -e
ROOT="$(cd "$(dirname "$0")/.." && pwd)"
PATCH="$(cd "$(dirname "$1")" && pwd)/$(basename "$1")"; shift
D="$(mktemp -d /tmp/mut.XXXXXX)"
trap 'rm -rf "$D"' EXIT
mkdir -p "$D/repo"
cp -r /repo/src "$D/repo/src"
( cd "$D/repo" && patch -p1 -s < "$PATCH" )
cd "$ROOT"
mkdir -p "$ROOT/.work/mutant/work" "$ROOT/.work/mutant/evidence"
for id in "$@"; do
  PYTHONPATH="$D/repo/src" VERIF_MUTANT=1 VERIF_WORK="$ROOT/.work/mutant/work" VERIF_EVID="$ROOT/.work/mutant/evidence" ./check "$id" || echo "rc=$? for $id"
done
