#!/bin/sh
# tools/seed_intake.sh <PROP> <src_out_dir> <name>
# copies a seeded change into /verif/seeded/<name>/ and confirms: demo passes on the clean tree, fails with the patch.
set -e
PROP="$1"; SRC="$2"; NAME="$3"
DST=/verif/seeded/$NAME
mkdir -p "$DST"
cp "$SRC/patch.diff" "$SRC/demo.py" "$DST/"
[ -f "$SRC/README.md" ] && cp "$SRC/README.md" "$DST/README.md"
D="$(mktemp -d /tmp/seed.XXXXXX)"
trap 'rm -rf "$D"' EXIT
mkdir -p "$D/repo"; cp -r /repo/src "$D/repo/src"
cd "$D/repo"
set +e
JAX_PLATFORMS=cpu PYTHONPATH="$D/repo/src" timeout 900 /venv/bin/python "$DST/demo.py" > "$D/clean.out" 2>&1; RC_CLEAN=$?
patch -p1 -s < "$DST/patch.diff"; RC_PATCH=$?
JAX_PLATFORMS=cpu PYTHONPATH="$D/repo/src" timeout 900 /venv/bin/python "$DST/demo.py" > "$D/mut.out" 2>&1; RC_MUT=$?
set -e
python3 - "$PROP" "$NAME" "$RC_CLEAN" "$RC_PATCH" "$RC_MUT" "$D" <<'PY'
import json, sys, os
prop, name, rc_clean, rc_patch, rc_mut, d = sys.argv[1:]
dst = f"/verif/seeded/{name}"
meta = {"property": prop, "name": name,
        "demo_on_clean_tree_rc": int(rc_clean), "patch_applies_rc": int(rc_patch), "demo_with_patch_rc": int(rc_mut),
        "demo_clean_tail": open(os.path.join(d, "clean.out")).read()[-300:], "demo_mutant_tail": open(os.path.join(d, "mut.out")).read()[-300:],
        "confirmed_demo": int(rc_clean) == 0 and int(rc_patch) == 0 and int(rc_mut) != 0,
        "ran": ["tools/seed_intake.sh (demo on clean scratch copy of /repo/src, then with patch.diff applied)"]}
old = {}
if os.path.exists(os.path.join(dst, "meta.json")):
    old = json.load(open(os.path.join(dst, "meta.json")))
old.update(meta)
json.dump(old, open(os.path.join(dst, "meta.json"), "w"), indent=1)
print(name, "clean rc", rc_clean, "patch rc", rc_patch, "mutant rc", rc_mut)
PY
