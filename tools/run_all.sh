#!/bin/sh
# tools/run_all.sh [quick|thorough] : run every registered check in /verif (writing evidence/), summary in .work/logs/all_<tier>.txt
cd "$(dirname "$0")/.."
TIER="${1:-quick}"
mkdir -p .work/logs
OUT=.work/logs/all_$TIER.txt
: > $OUT
for id in $(python3 -c "import json; print(' '.join(c['property_id'] for c in json.load(open('MANIFEST.json'))['checks']))"); do
  t0=$(date +%s)
  ./check $id --tier $TIER > .work/logs/all_${TIER}_$id.log 2>&1
  rc=$?
  echo "$id rc=$rc $(( $(date +%s) - t0 ))s $(grep -c '^VIOLATION' .work/logs/all_${TIER}_$id.log) viol $(grep -c '^KNOWN-FINDING' .work/logs/all_${TIER}_$id.log) known" >> $OUT
done
cat $OUT
