#!/usr/bin/env python3
"""Fold the results of running checks against the seeded changes (.work/logs/mut_<name>_<ID>.log, written by
tools/mutant.sh runs) into seeded/<name>/meta.json and regenerate seeded/README.md."""
import glob, json, os, re
V = os.path.dirname(os.path.dirname(os.path.abspath(__file__)))
rows = []
for d in sorted(glob.glob(os.path.join(V, "seeded", "*"))):
    mp = os.path.join(d, "meta.json")
    if not os.path.isfile(mp):
        continue
    meta = json.load(open(mp))
    name = meta["name"]
    checks = meta.get("checks", {})
    for log in sorted(glob.glob(os.path.join(V, ".work", "logs", f"mut_{name}_*.log"))):
        cid = re.search(r"_(C\d+)\.log$", log).group(1)
        txt = open(log, errors="replace").read()
        viol = re.findall(r"^VIOLATION property=(\S+)", txt, flags=re.M)
        sigs = re.findall(r'"clause": "([^"]+)"', txt)
        last = [l for l in txt.splitlines() if l.startswith("[C")]
        if not last:
            continue          # run did not finish
        checks[cid] = {"caught": bool(viol), "violations_reported": len(viol), "clauses": sorted(set(sigs))[:8], "summary": last[-1][:200]}
    readme_p = os.path.join(d, "README.md")
    if os.path.exists(readme_p):
        txt = open(readme_p, errors="replace").read()
        m = re.search(r"(?is)(need[^\n]*\n.*?)(\n#|\Z)", txt)
        meta["needs_to_manifest"] = (m.group(1) if m else txt)[:700].strip()
    meta["checks"] = checks
    meta["caught_by"] = sorted(c for c, r in checks.items() if r["caught"])
    json.dump(meta, open(mp, "w"), indent=1)
    readme = os.path.join(d, "README.md")
    what = ""
    if os.path.exists(readme):
        for line in open(readme, errors="replace"):
            if line.strip() and not line.startswith("#"):
                what = line.strip()[:160]
                break
    rows.append((name, meta["property"], "yes" if meta.get("confirmed_demo") else "NO", meta.get("tests", "agent-reported"),
                 ", ".join(meta["caught_by"]) or ("(not run)" if not checks else "MISSED by " + ", ".join(sorted(checks))), what))
with open(os.path.join(V, "seeded", "README.md"), "w") as f:
    f.write("# Seeded changes\n\nEach directory: `patch.diff` (against /repo), `demo.py` (passes on the clean tree, fails with the patch), "
            "`meta.json` (what was confirmed, which checks were run against it and what they reported).\n\n"
            "| change | property | demo confirmed | caught by (quick tier) | what |\n|---|---|---|---|---|\n")
    for name, prop, conf, tests, caught, what in rows:
        f.write(f"| {name} | {prop} | {conf} | {caught} | {what} |\n")
print(len(rows), "seeded changes")
