#!/usr/bin/env python3
"""Demonstrate that the trace specification is bound to what the driver logs (DESIGN 3.6): take the events of the
last C05 run (.work/C05/events*.json), corrupt ONE logged field per selected event, and require GFITrace (TLC) to
reject exactly those events with the expected clause.  Usage: ./check C05 && tools/selftest_binding.py"""
import copy, glob, json, os, sys
V = os.path.dirname(os.path.dirname(os.path.abspath(__file__)))
sys.path.insert(0, V)
from harness import vlib  # noqa

events = []
for f in sorted(glob.glob(os.path.join(V, ".work", "C05", "events*.json"))):
    events += json.load(open(f))
events = [e for e in events if e["status"] == "ok"]
upd = [e for e in events if e["op"] == "update" and e["cons"] and e["post"]["choices"] and e["pid"] in ("SChain", "S2", "SNest", "VmS", "SIndep")]
gen = [e for e in events if e["op"] == "generate" and e["cons"] and e["pid"] in ("SChain", "S2", "SNest", "VmS", "SIndep")]
assert len(upd) >= 4 and len(gen) >= 1, (len(upd), len(gen))
cases = []


def add(ev, mutate, clause):
    e = copy.deepcopy(ev)
    mutate(e)
    e["tid"] = 900000 + len(cases)
    e["seq"] = 0
    cases.append((e, clause))


add(upd[0], lambda e: e["post"].__setitem__("score", e["post"]["score"] + 256), "score")                 # score off by one unit
add(upd[1], lambda e: e["post"]["choices"].pop(), "visited")                                                # a choice dropped
add(upd[2], lambda e: e.__setitem__("w", e["w"] + 512), "upd.weight")                                      # weight off
add(upd[3], lambda e: e["post"]["choices"].__setitem__(0, [e["post"]["choices"][0][0], (e["post"]["choices"][0][1] + 1) % 3]), "score")  # a value changed
add(gen[0], lambda e: e.__setitem__("w", e["w"] - 256), "gen.weight")
add(upd[0], lambda e: e, None)                                                                                # control: untouched event passes
wd = os.path.join(V, ".work", "selftest")
os.makedirs(wd, exist_ok=True)
path = os.path.join(wd, "events.json")
json.dump([c[0] for c in cases], open(path, "w"))
open(os.path.join(wd, "trace.cfg"), "w").write("SPECIFICATION TSpec\nINVARIANT Report\nCHECK_DEADLOCK FALSE\n")
res = vlib.run_tlc("GFITrace", os.path.join(wd, "trace.cfg"), wd, workers=1, env={"TRACE_FILE": path}, tag="selftest", jvm=["-Xss64m"])
verd = list(res.payloads("VERDICT"))[0]
got = {f["tid"]: set(f["clauses"]) for f in verd["fails"]}
ok = True
for ev, clause in cases:
    have = got.get(ev["tid"], set())
    good = (clause is None and not have) or (clause is not None and clause in have)
    ok &= good
    print(("ok  " if good else "FAIL"), "corrupted" if clause else "control  ", ev["pid"], ev["op"], "expected clause:", clause, "| reported:", sorted(have))
print("binding self-test", "PASSED" if ok else "FAILED")
sys.exit(0 if ok else 1)
