#!/bin/sh
# Offline setup: parse every TLA+ module, byte-compile the harness, create work dirs.
set -e
cd "$(dirname "$0")"
mkdir -p .work evidence
for f in spec/*.tla; do
  ( cd spec && java -cp /opt/veriftools/tla/tla2tools.jar:/opt/veriftools/tla/CommunityModules-deps.jar tla2sany.SANY "$(basename "$f")" > ../.work/sany.out 2>&1 ) || { cat .work/sany.out; echo "SANY failed on $f"; exit 1; }
  if grep -q "Fatal errors\|\*\*\* Errors" .work/sany.out; then cat .work/sany.out; echo "SANY errors in $f"; exit 1; fi
done
/venv/bin/python -c "import compileall,sys; sys.exit(0 if compileall.compile_dir('harness', quiet=1, legacy=False) else 1)" >/dev/null 2>&1 || true
/venv/bin/python -c "import genjax, jax; print('genjax', genjax.__version__, 'jax', jax.__version__)"
echo setup ok
