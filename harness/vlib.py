"""Shared machinery: running TLC, parsing what it prints, verdict bookkeeping,
known findings, evidence files.  Standard library only."""

from __future__ import annotations

import json
import os
import re
import shutil
import subprocess
import sys
import time

VERIF = os.path.dirname(os.path.dirname(os.path.abspath(__file__)))
SPEC = os.path.join(VERIF, "spec")
# a mutant / side run can be redirected away from the committed evidence and the default work directory
WORK = os.environ.get("VERIF_WORK") or os.path.join(VERIF, ".work")
EVID = os.environ.get("VERIF_EVID") or os.path.join(VERIF, "evidence")
TLA_CP = "/opt/veriftools/tla/tla2tools.jar:/opt/veriftools/tla/CommunityModules-deps.jar"
NCPU = min(16, os.cpu_count() or 1)


class MachineryError(Exception):
    """Something in the verification machinery itself failed (exit code 2)."""


def workdir(prop_id: str, fresh: bool = True) -> str:
    d = os.path.join(WORK, prop_id)
    if fresh and os.path.isdir(d):
        shutil.rmtree(d, ignore_errors=True)
    os.makedirs(d, exist_ok=True)
    return d


# ----------------------------------------------------------------------------
# TLC
# ----------------------------------------------------------------------------

_STATS = re.compile(r"(\d+) states generated, (\d+) distinct states found")
_ENVELOPE = re.compile(r'^<<"([A-Z]+)", (".*")>>$')


class TLCResult:
    def __init__(self):
        self.generated = 0
        self.distinct = 0
        self.rc = None
        self.out_path = None
        self.wall = 0.0
        self.coverage = {}
        self.cmd = ""

    def lines(self):
        with open(self.out_path, "r", errors="replace") as f:
            for line in f:
                yield line.rstrip("\n")

    def payloads(self, kind="CASE"):
        """Yield the JSON payloads TLC printed with PrintT(<<kind, ToJson(..)>>)."""
        for line in self.lines():
            if not line.startswith('<<"' + kind + '", '):
                continue
            m = _ENVELOPE.match(line)
            if not m:
                continue
            try:
                yield json.loads(json.loads(m.group(2)))
            except Exception:
                # TLA+ strings escape only \" and \\ : fall back to manual unescape
                s = m.group(2)[1:-1].replace('\\"', '"').replace("\\\\", "\\")
                yield json.loads(s)


def run_tlc(
    module: str,
    cfg: str,
    wd: str,
    *,
    workers: int | None = None,
    simulate: str | None = None,
    depth: int | None = None,
    seed: int | None = None,
    env: dict | None = None,
    timeout: int = 1500,
    coverage: bool = False,
    expect_ok: bool = True,
    tag: str | None = None,
    spec_dir: str = SPEC,
    jvm: list[str] | None = None,
    extra: list[str] | None = None,
) -> TLCResult:
    """Run TLC on spec/<module>.tla with spec/<cfg>; stdout to <wd>/<tag>.out."""
    tag = tag or os.path.splitext(os.path.basename(cfg))[0]
    meta = os.path.join(wd, "meta_" + tag)
    shutil.rmtree(meta, ignore_errors=True)
    out_path = os.path.join(wd, tag + ".out")
    cmd = ["java", "-XX:+UseParallelGC", "-Xmx8g"]
    cmd += jvm or []
    cmd += ["-cp", TLA_CP, "tlc2.TLC", "-metadir", meta, "-noGenerateSpecTE"]
    cmd += ["-workers", str(workers or NCPU)]
    if simulate is not None:
        cmd += ["-simulate", simulate]
    if depth is not None:
        cmd += ["-depth", str(depth)]
    if seed is not None:
        cmd += ["-seed", str(seed)]
    if coverage:
        cmd += ["-coverage", "1"]
    cmd += extra or []
    cmd += ["-config", cfg if os.path.isabs(cfg) else os.path.join(spec_dir, cfg)]
    cmd += [os.path.join(spec_dir, module + ".tla")]
    e = dict(os.environ)
    e.update(env or {})
    res = TLCResult()
    res.cmd = " ".join(cmd)
    res.out_path = out_path
    t0 = time.time()
    with open(out_path, "w") as f:
        try:
            p = subprocess.run(cmd, stdout=f, stderr=subprocess.STDOUT, env=e,
                               timeout=timeout, cwd=spec_dir)
            res.rc = p.returncode
        except subprocess.TimeoutExpired:
            res.rc = -9
    res.wall = time.time() - t0
    gen = dist = 0
    for line in res.lines():
        m = _STATS.search(line)
        if m:
            gen, dist = int(m.group(1)), int(m.group(2))
    res.generated, res.distinct = gen, dist
    shutil.rmtree(meta, ignore_errors=True)
    if expect_ok and res.rc != 0:
        tail = subprocess.run(["tail", "-n", "40", out_path], capture_output=True, text=True).stdout
        raise MachineryError(f"TLC failed rc={res.rc} ({res.cmd})\n{tail}")
    return res


def tlc_coverage(res: TLCResult) -> dict:
    """Per-action distinct/total counts from a -coverage 1 run."""
    cov = {}
    pat = re.compile(r"^<(\w+) line .* of module (\w+)>: (\d+):(\d+)")
    for line in res.lines():
        m = pat.match(line)
        if m:
            cov[m.group(1)] = {"distinct": int(m.group(3)), "total": int(m.group(4))}
    return cov


# ----------------------------------------------------------------------------
# Verdicts, known findings, evidence
# ----------------------------------------------------------------------------

def load_known():
    out = []
    import glob
    paths = [os.path.join(VERIF, "known_findings.json")] + sorted(glob.glob(os.path.join(VERIF, "known_findings.d", "*.json")))
    for p in paths:
        if os.path.exists(p):
            with open(p) as f:
                out += json.load(f).get("findings", [])
    return out


def match_known(prop_id: str, sig: dict, known: list):
    """A violation is a known finding iff an entry of status 'finding' for this
    property has a 'match' dict every key of which equals (or regex-fullmatches)
    the violation's signature field."""
    for k in known:
        if k.get("property") != prop_id or k.get("status") != "finding":
            continue
        ok = True
        for key, want in k.get("match", {}).items():
            have = sig.get(key)
            if isinstance(want, str) and want.startswith("re:"):
                if have is None or not re.fullmatch(want[3:], str(have)):
                    ok = False
                    break
            elif have != want:
                ok = False
                break
        if ok:
            return k
    return None


class Report:
    """Collects what one check run covered and what it found."""

    def __init__(self, prop_id: str, tier: str, seed: int, level: str = "model_checking"):
        self.prop_id = prop_id
        self.tier = tier
        self.seed = seed
        self.level = level
        self.t0 = time.time()
        self.states = 0
        self.transitions = 0
        self.traces = 0
        self.evaluations = 0
        self.nontrivial = set()
        self.samples = []
        self.violations = []       # list of (sig dict, detail dict)
        self.rule = ""
        self.exhaustive = False
        self.assumptions = []
        self.extra = {}
        self.checker_cmds = []
        self.wd = os.path.join(WORK, prop_id)

    def add_tlc(self, res: TLCResult):
        self.states += res.distinct
        self.transitions += res.generated
        self.checker_cmds.append(res.cmd)

    def sample(self, case, limit=4):
        if len(self.samples) < limit:
            self.samples.append(case)

    def violation(self, sig: dict, detail: dict):
        self.violations.append((sig, detail))

    def finish(self) -> int:
        known = load_known()
        os.makedirs(EVID, exist_ok=True)
        vdir = os.path.join(self.wd, "violations")
        os.makedirs(vdir, exist_ok=True)
        new, kf = [], {}
        for sig, detail in self.violations:
            k = match_known(self.prop_id, sig, known)
            if k is not None:
                kf.setdefault(k["id"], [k, 0])[1] += 1
            else:
                new.append((sig, detail))
        for kid, (k, n) in sorted(kf.items()):
            print(f"KNOWN-FINDING: property={self.prop_id} {k['what']} [{kid}; {n} instance(s) this run]")
        printed = 0
        seen_sigs = set()
        for i, (sig, detail) in enumerate(new):
            key = json.dumps(sig, sort_keys=True)
            if key in seen_sigs:
                continue
            seen_sigs.add(key)
            path = os.path.join(vdir, f"v{len(seen_sigs):03d}.json")
            with open(path, "w") as f:
                json.dump({"property": self.prop_id, "signature": sig, "detail": detail,
                           "tier": self.tier, "seed": self.seed}, f, indent=1, default=str)
            if printed < 25:
                print(f"VIOLATION property={self.prop_id} replay={path}")
                print("   ", json.dumps(sig, sort_keys=True, default=str)[:400])
                printed += 1
        cov = {
            "states": int(self.states),
            "transitions": int(self.transitions),
            "traces_validated_against_impl": int(self.traces),
            "evaluations": int(self.evaluations),
            "distinct_nontrivial": len(self.nontrivial),
            "rule": self.rule,
            "samples": self.samples if self.samples else ["<none>"],
            "exhaustive": bool(self.exhaustive),
            "checker_cmd": " ; ".join(self.checker_cmds)[:4000],
            "known_findings_seen": {kid: n for kid, (k, n) in kf.items()},
        }
        cov.update(self.extra)
        ev = {
            "property_id": self.prop_id,
            "tier": self.tier,
            "seed": int(self.seed),
            "level": self.level,
            "coverage": cov,
            "assumptions": self.assumptions,
            "wall_s": round(time.time() - self.t0, 2),
            "violations": len(seen_sigs),
        }
        with open(os.path.join(EVID, self.prop_id + ".json"), "w") as f:
            json.dump(ev, f, indent=1, default=str)
        print(f"[{self.prop_id}] tier={self.tier} seed={self.seed} evaluations={self.evaluations} "
              f"nontrivial={len(self.nontrivial)} states={self.states} traces={self.traces} "
              f"violations={len(seen_sigs)} known={sum(n for _, n in kf.values())} wall={ev['wall_s']}s")
        return 1 if seen_sigs else 0


def chunks(seq, n):
    k = max(1, (len(seq) + n - 1) // n)
    return [seq[i:i + k] for i in range(0, len(seq), k)]


def write_json(path, obj):
    with open(path, "w") as f:
        json.dump(obj, f)


def eprint(*a):
    print(*a, file=sys.stderr)


# ----------------------------------------------------------------------------
# (added by the masks/staging/difftrees engines) worker pools for JAX replay
# ----------------------------------------------------------------------------

def _pin_worker():
    """Pool initializer: pin the worker to one CPU and keep XLA single-threaded, *before* jax is imported
    in the worker (thread pools are sized from the affinity mask), so that 16 workers do not run 16x16
    spinning threads."""
    import multiprocessing as _mp
    os.environ.setdefault("XLA_FLAGS", "--xla_cpu_multi_thread_eigen=false intra_op_parallelism_threads=1")
    os.environ.setdefault("OMP_NUM_THREADS", "1")
    os.environ.setdefault("OPENBLAS_NUM_THREADS", "1")
    if os.environ.get("VERIF_PIN", "1") != "1":
        return
    try:
        cpus = sorted(os.sched_getaffinity(0))
        ident = _mp.current_process()._identity
        i = (ident[0] - 1) if ident else 0
        os.sched_setaffinity(0, {cpus[i % len(cpus)]})
    except Exception:
        pass


def pinned_pool(n: int | None = None):
    """multiprocessing Pool (spawn) whose workers are pinned to one CPU each (see _pin_worker).  Pinning halves
    the CPU cost of small JAX ops, but on a machine that other jobs already saturate a pinned worker starves on
    a busy CPU: pin only when the 1-minute load is below half the CPU count."""
    import multiprocessing as _mp
    try:
        os.environ["VERIF_PIN"] = "1" if os.getloadavg()[0] < NCPU / 2 else "0"
    except OSError:
        os.environ["VERIF_PIN"] = "0"
    return _mp.get_context("spawn").Pool(n or NCPU, initializer=_pin_worker)
