"""C18 — selections: replay TLC-enumerated selection terms on the real Selection classes."""

from __future__ import annotations

import itertools
import multiprocessing as mp
import os

from . import vlib

PROPS = {
    "C18": dict(
        spec="Selections",
        category="model_checking", design_ref="§5 C18",
        technique="TLA+ spec (Selections.tla) model-checked by TLC; TLC-enumerated terms replayed on the real Selection classes and compared with the TLC-computed denotation",
        text="Bounded-exhaustive: TLC enumerates every selection term up to depth 2 (thorough: 3) over 12 atoms plus LCG-generated depth-4 terms, checks Mem<=>Den, the sub-selection law and soundness of the simplifying constructors on the spec itself, and every term is replayed on the implementation for all 40 addresses of length <=3 (membership via [], in, and every prefix/suffix split of sel(a)[b]), both with public constructors and raw dataclasses.",
        note="Trusted: TLC, the Python term builder (public API calls only), address universe {a,b,c}^<=3.",
    ),
}

ALPHA = ["a", "b", "c"]
ADDRS = [()] + [(x,) for x in ALPHA] + [(x, y) for x in ALPHA for y in ALPHA] + \
        [(x, y, z) for x in ALPHA for y in ALPHA for z in ALPHA]


def _comp(c):
    return Ellipsis if c == "*" else c


def build_smart(t):
    from genjax import Selection
    k = t["t"]
    if k == "all":
        return Selection.all()
    if k == "none":
        return Selection.none()
    if k == "leaf":
        return Selection.leaf()
    if k == "at":
        p = tuple(_comp(c) for c in t["p"])
        return Selection.at[p if len(p) > 1 else p[0]]
    if k == "lf":
        return Selection.leaf().extend(*[_comp(c) for c in t["p"]])
    if k == "or":
        return build_smart(t["k"][0]) | build_smart(t["k"][1])
    if k == "and":
        return build_smart(t["k"][0]) & build_smart(t["k"][1])
    if k == "not":
        return ~build_smart(t["k"][0])
    raise ValueError(k)


def build_raw(t):
    from genjax._src.core.generative.choice_map import (
        AllSel, AndSel, ComplementSel, LeafSel, NoneSel, OrSel, StaticSel)
    k = t["t"]
    if k == "all":
        return AllSel()
    if k == "none":
        return NoneSel()
    if k == "leaf":
        return LeafSel()
    if k in ("at", "lf"):
        acc = AllSel() if k == "at" else LeafSel()
        for c in reversed(t["p"]):
            acc = StaticSel(acc, _comp(c))
        return acc
    if k == "or":
        return OrSel(build_raw(t["k"][0]), build_raw(t["k"][1]))
    if k == "and":
        return AndSel(build_raw(t["k"][0]), build_raw(t["k"][1]))
    if k == "not":
        return ComplementSel(build_raw(t["k"][0]))
    raise ValueError(k)


def show(t):
    k = t["t"]
    if k in ("all", "none", "leaf"):
        return k
    if k in ("at", "lf"):
        return f"{k}[{','.join(t['p'])}]"
    if k == "not":
        return "~" + show(t["k"][0])
    return "(" + show(t["k"][0]) + (" | " if k == "or" else " & ") + show(t["k"][1]) + ")"


def check_case(case):
    """Returns list of failing clauses for one TLC case {term, den}."""
    fails = []
    den = case["den"]
    for variant, builder in (("smart", build_smart), ("raw", build_raw)):
        try:
            sel = builder(case["term"])
        except Exception as e:  # building a selection must never fail
            fails.append({"clause": "C18.build", "variant": variant, "error": repr(e)[:200]})
            continue
        for i, a in enumerate(ADDRS):
            want = bool(den[i])
            try:
                got = bool(sel[a])
                got_in = bool(a in sel)
                if len(a) == 1:
                    got1 = bool(sel[a[0]])
                else:
                    got1 = got
            except Exception as e:
                fails.append({"clause": "C18.mem", "variant": variant, "addr": list(a), "error": repr(e)[:200]})
                continue
            if got != want or got_in != want or got1 != want:
                fails.append({"clause": "C18.mem" if variant == "smart" else "C18.simp",
                              "variant": variant, "addr": list(a), "want": want, "got": [got, got_in, got1]})
            for j in range(1, len(a) + 1):
                pre, suf = a[:j], a[j:]
                try:
                    g = bool(sel(pre if len(pre) > 1 else pre[0])[suf])
                except Exception as e:
                    fails.append({"clause": "C18.sub", "variant": variant, "addr": list(a), "split": j, "error": repr(e)[:200]})
                    continue
                if g != want:
                    fails.append({"clause": "C18.sub", "variant": variant, "addr": list(a), "split": j, "want": want, "got": g})
    return fails


def _work(cases):
    out = []
    for c in cases:
        f = check_case(c)
        if f:
            out.append((c, f))
    return out


def run(prop_id, tier, seed, replay=None):
    rep = vlib.Report(prop_id, tier, seed)
    replay_cases = None
    if replay:
        import json
        with open(replay) as f:
            replay_cases = [json.load(f)["detail"]["case"]]
    wd = vlib.workdir(prop_id)
    rep.rule = ("terms enumerated by TLC from spec/Selections.tla (BFS to MaxDepth, plus -simulate walks with "
                "depth-1 operands); each replayed on Selection built with the public constructors and with the raw "
                "dataclasses; all 40 addresses of length <=3 over {a,b,c}: sel[a], a in sel, sel(prefix)[suffix] for "
                "every split, compared with Den(term) computed by TLC. non-trivial = distinct term whose Den is "
                "neither empty nor everything")
    if replay:
        cases = replay_cases
    else:
        maxdepth = 2 if tier == "quick" else 3
        cfgA = os.path.join(wd, "MC.cfg")
        with open(cfgA, "w") as f:
            f.write(f"CONSTANTS MaxDepth = 2\n Seed = 0\n NChains = 1\n NPerChain = 1\n Emit = FALSE\nSPECIFICATION Spec\n"
                    "INVARIANT MemIsDen\nINVARIANT RawIsDen\nINVARIANT SubLaw\nINVARIANT Boolean\nCHECK_DEADLOCK FALSE\n")
        a = vlib.run_tlc("Selections", cfgA, wd, tag="roleA")
        rep.add_tlc(a)
        cfgB = os.path.join(wd, "Gen.cfg")
        with open(cfgB, "w") as f:
            f.write(f"CONSTANTS MaxDepth = {maxdepth}\n Seed = 0\n NChains = 1\n NPerChain = 1\n Emit = TRUE\nSPECIFICATION Spec\n"
                    "INVARIANT EmitCase\nCHECK_DEADLOCK FALSE\n")
        b = vlib.run_tlc("Selections", cfgB, wd, tag="roleB", timeout=3000)
        rep.add_tlc(b)
        per = 60 if tier == "quick" else 600
        cfgS = os.path.join(wd, "Rand.cfg")
        with open(cfgS, "w") as f:
            f.write(f"CONSTANTS MaxDepth = 4\n Seed = {seed % 60000}\n NChains = 16\n NPerChain = {per}\n Emit = TRUE\n"
                    "SPECIFICATION SpecRand\nINVARIANT EmitCase\nINVARIANT MemIsDen\nINVARIANT RawIsDen\nINVARIANT SubLaw\nCHECK_DEADLOCK FALSE\n")
        s = vlib.run_tlc("Selections", cfgS, wd, tag="rand")
        rep.add_tlc(s)
        seen = {}
        for res in (b, s):
            for c in res.payloads():
                key = show(c["term"])
                if key not in seen:
                    seen[key] = c
        cases = list(seen.values())
        rep.exhaustive = True
        rep.extra["exhaustive_scope"] = f"all terms of the Next relation up to depth {maxdepth} over 12 atoms"
    with mp.Pool(vlib.NCPU) as pool:
        results = pool.map(_work, vlib.chunks(cases, vlib.NCPU * 4))
    rep.evaluations = len(cases)
    for c in cases:
        n1 = sum(c["den"])
        if 0 < n1 < len(ADDRS):
            rep.nontrivial.add(show(c["term"]))
    for c in cases[:: max(1, len(cases) // 4)]:
        rep.sample({"term": show(c["term"]), "den": "".join(map(str, c["den"]))})
    rep.traces = len(cases)
    for chunk in results:
        for c, fails in chunk:
            for f in fails[:3]:
                sig = {"clause": f["clause"], "variant": f["variant"], "term": show(c["term"]), "addr": f.get("addr")}
                rep.violation(sig, {"case": c, "fail": f})
    rep.assumptions = ["address universe bounded to length <=3 over {a,b,c}; wildcard '*' is Ellipsis",
                       "Den (set algebra) is the oracle; TLC checked Mem<=>Den, SubLaw and raw/simplified agreement on the same terms"]
    return rep.finish()
