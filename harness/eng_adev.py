"""C29 — ADEV estimators: TLC-generated program terms are built as real
`genjax.adev.expectation` programs, run through jvp_estimate / grad_estimate /
estimate, and every logged (primal, tangent) is validated by TLC against
spec/Adev.tla (trace validation, spec/AdevTrace.tla)."""

from __future__ import annotations

import json
import math
import multiprocessing as mp
import os
import threading

from . import vlib

PROPS = {
    "C29": dict(
        spec="Adev",
        category="model_checking", design_ref="§5 C29",
        technique="TLA+ spec (Adev.tla: CPS dual-number estimator semantics vs symbolic polynomial expectation) "
                  "model-checked by TLC; TLC-generated program terms run on the real genjax.adev and the logged "
                  "(primal, tangent) pairs validated by TLC (AdevTrace.tla)",
        text="Role A: for every program of a bounded grammar (<=2 sample sites with strategies flip_enum, "
             "flip_enum_parallel, categorical_enum_parallel, flip_reinforce, baseline(flip_reinforce), flip_mvd; "
             "cond; add_cost; arithmetic) and th in {1/4,1/2,3/4} TLC enumerates the outcome vectors and checks "
             "Sum P(om) Estimate(om) = (Expect, dExpect) exactly over rationals, the expectation being an "
             "independently computed polynomial. Conformance: core + LCG-random programs of the grammar are built "
             "with the public API; jvp_estimate over many keys (vmap), grad_estimate and Expectation.estimate are "
             "logged in fixed point; TLC decides for each outcome class that some outcome vector explains primal "
             "and tangent, checks outcome frequencies with a Hoeffding bound, and evaluates the pathwise / score "
             "formulas of the continuous primitives with the noise inferred from the primal.",
        note="Trusted: TLC, the term-to-program builder (public genjax.adev API only), fixed point scale 2^-10, "
             "beta_implicit only by range/sign conditions.",
    ),
}

S = 1024
THN = [1, 2, 3]          # th = thn/4
PRIM = {"ENUM": "flip_enum", "ENUMPAR": "flip_enum_parallel", "CATPAR": "categorical_enum_parallel",
        "REINFORCE": "flip_reinforce", "MVD": "flip_mvd", "BASELINE": "baseline"}


def fp(x):
    v = float(x)
    if not math.isfinite(v):
        return 2 ** 30
    return int(max(-2 ** 30, min(2 ** 30, round(v * S))))


# ----------------------------------------------------------------------------
# term -> real ADEV program (public API only)
# ----------------------------------------------------------------------------

def prog_prims(prog):
    out = []
    for st in prog["body"]:
        if st["k"] == "cost":
            out.append("add_cost")
        else:
            out.append(PRIM[st["strat"]])
    return "+".join(sorted(set(out)))


def prog_show(prog):
    def e(t):
        op = t["op"]
        if op == "c":
            n, d = t["q"]
            return str(n) if d == 1 else f"{n}/{d}"
        if op == "th":
            return "th"
        if op == "v":
            return f"v{t['i']}"
        if op in ("add", "sub", "mul"):
            s = {"add": "+", "sub": "-", "mul": "*"}[op]
            return "(" + e(t["k"][0]) + s + e(t["k"][1]) + ")"
        if op == "cond":
            return f"cond(v{t['i']},{e(t['k'][0])},{e(t['k'][1])})"
        return f"sel(v{t['i']},{','.join(e(x) for x in t['k'])})"
    parts = []
    for st in prog["body"]:
        if st["k"] == "cost":
            parts.append(f"cost({e(st['e'])})")
        else:
            g = f"@v{st['g']}" if st["g"] else ""
            b = f";b={e(st['b'])}" if st["strat"] == "BASELINE" else ""
            parts.append(f"{st['strat']}{g}({','.join(e(x) for x in st['p'])}{b})")
    return "; ".join(parts) + " -> " + e(prog["ret"])


def prog_shape(prog):
    tags = []
    body = prog["body"]
    if any(st["g"] for st in body):
        tags.append("site-in-cond-branch")
    for i, st in enumerate(body):
        if st["k"] == "sample" and st["strat"] == "MVD" and i + 1 < len(body):
            tags.append("stmt-after-flip_mvd")
    return "+".join(tags) if tags else "flat"


def build_program(prog):
    import jax
    import jax.numpy as jnp
    from genjax import adev

    kinds = [st["strat"] for st in prog["body"] if st["k"] == "sample"]

    def f32(x):
        return jnp.asarray(x, dtype=jnp.float32)

    def ev(t, th, vals):
        op = t["op"]
        if op == "c":
            return t["q"][0] / t["q"][1]
        if op == "th":
            return th
        if op == "v":
            v = vals[t["i"] - 1]
            if kinds[t["i"] - 1] == "CATPAR":
                return jnp.array([0.0, 1.0, 2.0])[v]
            return jnp.where(v, 1.0, 0.0)
        if op == "add":
            return ev(t["k"][0], th, vals) + ev(t["k"][1], th, vals)
        if op == "sub":
            return ev(t["k"][0], th, vals) - ev(t["k"][1], th, vals)
        if op == "mul":
            return ev(t["k"][0], th, vals) * ev(t["k"][1], th, vals)
        if op == "cond":
            return jax.lax.cond(vals[t["i"] - 1],
                                lambda: f32(ev(t["k"][0], th, vals)),
                                lambda: f32(ev(t["k"][1], th, vals)))
        if op == "sel":
            return jnp.stack([f32(ev(x, th, vals)) for x in t["k"]])[vals[t["i"] - 1]]
        raise ValueError(op)

    def draw(st, th, vals):
        s = st["strat"]
        ps = [ev(x, th, vals) for x in st["p"]]
        if s == "ENUM":
            return adev.flip_enum(ps[0])
        if s == "ENUMPAR":
            return adev.flip_enum_parallel(ps[0])
        if s == "CATPAR":
            return adev.categorical_enum_parallel(jnp.stack([f32(p) for p in ps]))
        if s == "REINFORCE":
            return adev.flip_reinforce(ps[0])
        if s == "MVD":
            return adev.flip_mvd(ps[0])
        if s == "BASELINE":
            return adev.baseline(adev.flip_reinforce)(ev(st["b"], th, vals), ps[0])
        raise ValueError(s)

    def source(th):
        vals = []
        for st in prog["body"]:
            if st["k"] == "cost":
                adev.add_cost(ev(st["e"], th, vals))
            elif st["g"]:
                cur = list(vals)
                # g = 1, 2: branch of a cond on an earlier flip; g = 3: branch of lax.cond(True, ..)
                pred = jnp.array(True) if st["g"] == 3 else vals[st["g"] - 1]
                vals.append(jax.lax.cond(pred,
                                         lambda st=st, cur=cur: draw(st, th, cur),
                                         lambda: jnp.array(False)))
            else:
                vals.append(draw(st, th, vals))
        return ev(prog["ret"], th, vals)

    return adev.expectation(source)


def build_cont(cc):
    import jax.numpy as jnp
    from genjax import adev

    fam, d = cc["fam"], cc["d"]
    a = jnp.array(cc["a"], dtype=jnp.float32)
    c = jnp.array(cc["c"], dtype=jnp.float32)
    m0 = jnp.array(cc["m0"], dtype=jnp.float32)
    m1 = jnp.array(cc["m1"], dtype=jnp.float32)
    l0 = jnp.array(cc["l0"], dtype=jnp.float32)
    l1 = jnp.array(cc["l1"], dtype=jnp.float32)

    def source(th):
        if fam == "normal_reparam":
            x = adev.normal_reparam(m0[0] + m1[0] * th, l0[0, 0] + l1[0, 0] * th)
            return a[0] * x + c[0] * th
        if fam == "normal_reinforce":
            x = adev.normal_reinforce(m0[0] + m1[0] * th, l0[0, 0] + l1[0, 0] * th)
            return a[0] * x + c[0] * th
        if fam == "mv_normal_diag_reparam":
            L = l0 + l1 * th
            x = adev.mv_normal_diag_reparam(m0 + m1 * th, jnp.diag(L))
            return a * x + c * th
        if fam == "mv_normal_reparam":
            L = l0 + l1 * th
            x = adev.mv_normal_reparam(m0 + m1 * th, L @ L.T)
            return a * x + c * th
        if fam == "mv_diag_batched":           # loc, scale_diag of shape (2, 2); output flattened row-major
            L = l0 + l1 * th
            mu = m0 + m1 * th
            x = adev.mv_normal_diag_reparam(jnp.stack([mu, mu]), jnp.stack([jnp.diag(L), jnp.diag(L)]))
            return (a * x + c * th).reshape(-1)
        if fam == "uniform":
            return a[0] * adev.uniform() + c[0] * th
        if fam == "two_normal_reparam":        # two consecutive tail-call sites
            x = adev.normal_reparam(m0[0] + m1[0] * th, l0[0, 0] + l1[0, 0] * th)
            y = adev.normal_reparam(m0[1] + m1[1] * th, l0[1, 1] + l1[1, 1] * th)
            return a * jnp.stack([x, y]) + c * th
        if fam == "uniform_normal_reparam":
            x = adev.uniform()
            y = adev.normal_reparam(m0[1] + m1[1] * th, l0[1, 1] + l1[1, 1] * th)
            return a * jnp.stack([x, y]) + c * th
        if fam == "beta_implicit":
            x = adev.beta_implicit(m0[0] + m1[0] * th, m0[1] + m1[1] * th)
            return a[0] * x + c[0] * th
        if fam == "geometric_reinforce":
            pi = (cc["pi0"] + cc["pi1"] * 4.0 * th) / cc["pid"]
            x = adev.geometric_reinforce((None, pi))
            return a[0] * x + c[0] * th
        raise ValueError(fam)

    return adev.expectation(source)


# ----------------------------------------------------------------------------
# workers: run the real code, log events
# ----------------------------------------------------------------------------

def _status(e):
    return "raised:" + type(e).__name__


def _has_sampled(prog):
    return any(st["k"] == "sample" and st["strat"] in ("REINFORCE", "BASELINE", "MVD") for st in prog["body"])


def run_discrete(job):
    """job = dict(id, prog, seed, nkeys, hb, extra) -> list of events."""
    import jax
    import jax.numpy as jnp
    import numpy as np
    from genjax.adev import Dual

    prog, cid = job["prog"], job["id"]
    events = []
    n = job["nkeys"] if _has_sampled(prog) else 4
    keys = jax.random.split(jax.random.key(job["seed"]), n)
    rows = [(t, 1) for t in THN] + [(2, 2)]
    ths = jnp.array([t / 4.0 for t, _ in rows], dtype=jnp.float32)
    dths = jnp.array([float(d) for _, d in rows], dtype=jnp.float32)
    try:
        f = build_program(prog)

        def one(k, t, d):
            o = f.jvp_estimate(k, Dual(t, d))
            return o.primal, o.tangent

        P, T = jax.jit(jax.vmap(jax.vmap(one, in_axes=(0, None, None)), in_axes=(None, 0, 0)))(keys, ths, dths)
        P, T = np.asarray(P), np.asarray(T)
        status = "ok"
    except Exception as e:  # exceptions are data
        status = _status(e)
        job["error"] = repr(e)[:300]
    for ri, (thn, dth) in enumerate(rows):
        ev = dict(id=f"{cid}/jvp/{thn}/{dth}", kind="jvp", prog=prog, thn=thn, dth=dth, n=n, hb=job["hb"] if n > 64 else 0,
                  status=status, outs=[])
        if status == "ok":
            cls = {}
            for p, t in zip(P[ri], T[ri]):
                k = (fp(p), fp(t))
                cls[k] = cls.get(k, 0) + 1
            ev["outs"] = [[p, t, c] for (p, t), c in sorted(cls.items())]
        events.append(ev)
        if status != "ok":
            break                      # one event is enough to report the exception
    if status != "ok":
        return events, job.get("error")
    # eager (no jit / vmap) spot check of the same law, one key
    if job.get("eager"):
        try:
            o = f.jvp_estimate(keys[1], Dual(0.25, 1.0))
            events.append(dict(id=f"{cid}/jvp-eager/1/1", kind="jvp", prog=prog, thn=1, dth=1, n=1, hb=0, status="ok",
                               outs=[[fp(o.primal), fp(o.tangent), 1]]))
        except Exception as e:
            events.append(dict(id=f"{cid}/jvp-eager/1/1", kind="jvp", prog=prog, thn=1, dth=1, n=1, hb=0,
                               status=_status(e), outs=[]))
    # grad_estimate = jvp tangent with unit tangent, same key
    if job["extra"]:
        k0 = keys[0]
        try:
            g = jax.jit(jax.vmap(lambda t: f.grad_estimate(k0, (t,))[0]))(ths[:3])
            events.append(dict(id=f"{cid}/grad", kind="grad", status="ok",
                               a=[fp(T[i][0]) for i in range(3)], b=[fp(x) for x in np.asarray(g)]))
        except Exception as e:
            events.append(dict(id=f"{cid}/grad", kind="grad", status=_status(e), a=[], b=[]))
        # Expectation.estimate = primal, same key
        try:
            pe = [f.estimate(k0, (float(ths[i]),)) for i in range(1)]
            events.append(dict(id=f"{cid}/est", kind="est", status="ok",
                               a=[fp(P[i][0]) for i in range(1)], b=[fp(x) for x in pe]))
        except Exception as e:
            events.append(dict(id=f"{cid}/est", kind="est", status=_status(e), a=[], b=[]))
            job["error"] = repr(e)[:300]
    return events, job.get("error")


def run_cont(job):
    import jax
    import jax.numpy as jnp
    import numpy as np
    from genjax.adev import Dual

    cc, cid = job["cc"], job["id"]
    nk = job["nkeys"]
    keys = jax.random.split(jax.random.key(job["seed"]), nk)
    ths = jnp.array([t / 4.0 for t in THN], dtype=jnp.float32)
    events = []
    err = None
    try:
        f = build_cont(cc)

        def one(k, t):
            o = f.jvp_estimate(k, Dual(t, 1.0))
            return jnp.atleast_1d(o.primal), jnp.atleast_1d(o.tangent)

        P, T = jax.jit(jax.vmap(jax.vmap(one, in_axes=(0, None)), in_axes=(None, 0)))(keys, ths)
        P, T = np.asarray(P), np.asarray(T)
        status = "ok"
    except Exception as e:
        status = _status(e)
        err = repr(e)[:300]
    for ti, thn in enumerate(THN):
        ev = dict(cc)
        ev.update(id=f"{cid}/cont/{thn}", kind="cont", thn=thn, status=status, outs=[], hb=job.get("hb", 0))
        if status == "ok":
            for ki in range(nk):
                o = dict(p=[fp(x) for x in P[ti][ki]], t=[fp(x) for x in T[ti][ki]])
                ev["outs"].append(o)
        events.append(ev)
        if status != "ok":
            break
    if status == "ok" and cc["d"] == 1 and cc["fam"] in ("normal_reparam", "normal_reinforce", "geometric_reinforce"):
        k0 = keys[0]
        try:
            g = jax.jit(jax.vmap(lambda t: f.grad_estimate(k0, (t,))[0]))(ths)
            events.append(dict(id=f"{cid}/grad", kind="grad", status="ok",
                               a=[fp(T[i][0][0]) for i in range(3)], b=[fp(x) for x in np.asarray(g)]))
        except Exception as e:
            events.append(dict(id=f"{cid}/grad", kind="grad", status=_status(e), a=[], b=[]))
    return events, err


def _work(jobs):
    out = []
    for job in jobs:
        try:
            evs, err = run_discrete(job) if "prog" in job else run_cont(job)
        except Exception as e:  # builder failure etc.: still data
            evs, err = [dict(id=f"{job['id']}/jvp/0/0", kind="jvp" if "prog" in job else "cont",
                             prog=job.get("prog"), thn=1, dth=1, n=0, hb=0, status=_status(e), outs=[])], repr(e)[:300]
        out.append((job["id"], evs, err))
    return out


# ----------------------------------------------------------------------------

def hoeffding_bound(n, cells, delta=1e-9):
    return int(math.ceil(math.sqrt(n * math.log(2.0 * cells / delta) / 2.0)))


def _cfg(path, text):
    with open(path, "w") as f:
        f.write(text)
    return path


def run(prop_id, tier, seed, replay=None):
    rep = vlib.Report(prop_id, tier, seed)
    wd = vlib.workdir(prop_id)
    quick = tier == "quick"
    jvm = ["-XX:ParallelGCThreads=2", "-Xmx3g", "-Xss64m"]
    rep.rule = ("program terms generated by TLC from spec/Adev.tla (16 core programs + LCG-random programs of the bounded "
                "grammar, every one re-checked unbiased by TLC for th in {1/4,1/2,3/4}) and 12 continuous-primitive cases; "
                "each built with the public genjax.adev API and run with jvp_estimate over keys derived from the seed "
                "(jit+vmap, plus eager), grad_estimate and estimate; TLC (AdevTrace.tla) judges every logged outcome "
                "class: exists om with primal and tangent = Estimate(prog, th, dth, om) in fixed point 2^-10, outcome "
                "frequencies within a Hoeffding bound, grad = jvp tangent, estimate = primal, pathwise / score formulas "
                "for continuous primitives with the noise inferred from the primal. non-trivial = distinct "
                "(program, th) whose logged tangent is nonzero")
    roleA = {}

    def role_a():
        cfg = _cfg(os.path.join(wd, "MC.cfg"),
                   f"CONSTANTS Big = {'FALSE' if quick else 'TRUE'}\n Seed = 0\n NChains = 1\n NPerChain = 1\n"
                   "SPECIFICATION Spec\nINVARIANT Unbiased\nINVARIANT EnumExact\nINVARIANT TangentLinear\n"
                   "INVARIANT ProbsValid\nCHECK_DEADLOCK FALSE\n")
        try:
            roleA["res"] = vlib.run_tlc("Adev", cfg, wd, tag="roleA", workers=6 if quick else 12, jvm=jvm,
                                        timeout=900 if quick else 3000)
        except Exception as e:
            roleA["err"] = e

    if replay:
        with open(replay) as f:
            rp = json.load(f)
        jobs = [rp["detail"]["job"]]
        th_a = None
    else:
        th_a = threading.Thread(target=role_a)
        th_a.start()
        nch, per = (16, 2) if quick else (16, 40)
        cfg = _cfg(os.path.join(wd, "Gen.cfg"),
                   f"CONSTANTS Big = TRUE\n Seed = {seed % 60000}\n NChains = {nch}\n NPerChain = {per}\n"
                   "SPECIFICATION SpecGen\nINVARIANT EmitCase\nINVARIANT GenUnbiased\nCHECK_DEADLOCK FALSE\n")
        g = vlib.run_tlc("Adev", cfg, wd, tag="gen", workers=8, jvm=jvm, timeout=900)
        rep.add_tlc(g)
        seen, jobs = set(), []
        nkeys = 2048 if quick else 8192
        for c in g.payloads("CASE"):
            key = prog_show(c["prog"])
            if key in seen:
                continue
            seen.add(key)
            i = len(jobs)
            jobs.append(dict(id=f"P{i}", prog=c["prog"], seed=(seed * 1000003 + i) % (2 ** 31), nkeys=nkeys,
                             extra=(bool(c["core"]) and (not quick or c["core"] % 2 == 1)) or i % 6 == 0,
                             eager=bool(c["core"]) and (not quick or c["core"] % 3 == 1), hb=0))
        nindep = 512 if quick else 4096
        for j, cc in enumerate(g.payloads("CCASE")):
            two = cc["fam"] in ("two_normal_reparam", "uniform_normal_reparam", "mv_diag_batched")
            jobs.append(dict(id=f"K{j}", cc=cc, seed=(seed * 1000003 + 7919 + j) % (2 ** 31),
                             nkeys=nindep if two else (8 if quick else 64), hb=0, two=two))
        cells = 16 * 4 * max(1, len(jobs))
        for jb in jobs:
            if "prog" in jb or jb.get("two"):
                jb["hb"] = hoeffding_bound(jb["nkeys"], cells)
        rep.extra["hoeffding"] = {"delta": 1e-9, "cells": cells, "n": nkeys, "bound": hoeffding_bound(nkeys, cells)}

    # heavier (two-site, sampled) programs first, interleaved over the workers
    order = sorted(range(len(jobs)), key=lambda i: -len(json.dumps(jobs[i].get("prog", ""))))
    nproc = min(12, vlib.NCPU, max(1, len(jobs)))
    shards = [[jobs[i] for i in order[w::nproc]] for w in range(nproc)]
    import time
    t_replay = time.time()
    # keep each worker single-threaded (16 XLA/Eigen threads per worker only add contention)
    os.environ.setdefault("XLA_FLAGS", "--xla_cpu_multi_thread_eigen=false intra_op_parallelism_threads=1")
    os.environ.setdefault("OMP_NUM_THREADS", "1")
    ctx = mp.get_context("spawn")
    with ctx.Pool(nproc) as pool:
        results = pool.map(_work, shards)
    rep.extra["replay_wall_s"] = round(time.time() - t_replay, 1)
    events, errors, job_of = [], {}, {}
    for chunk in results:
        for jid, evs, err in chunk:
            events += evs
            if err:
                errors[jid] = err
    for jb in jobs:
        job_of[jb["id"]] = jb
    trace = os.path.join(wd, "trace.json")
    vlib.write_json(trace, events)
    cfgT = _cfg(os.path.join(wd, "Trace.cfg"),
                "CONSTANTS Big = TRUE\n Seed = 0\n NChains = 1\n NPerChain = 1\nSPECIFICATION SpecT\nCHECK_DEADLOCK FALSE\n")
    t = vlib.run_tlc("AdevTrace", cfgT, wd, tag="trace", workers=8, jvm=jvm, env={"TRACE_FILE": trace}, timeout=1200)
    rep.add_tlc(t)
    verdicts = {v["id"]: v["clause"] for v in t.payloads("VERDICT")}
    if len(verdicts) != len(events):
        raise vlib.MachineryError(f"trace validation returned {len(verdicts)} verdicts for {len(events)} events")
    rep.traces = len(events)
    counts = {}
    for ev in events:
        jid = ev["id"].split("/")[0]
        jb = job_of[jid]
        clause = verdicts[ev["id"]]
        counts[ev["kind"]] = counts.get(ev["kind"], 0) + 1
        rep.evaluations += max(1, sum(o[2] if isinstance(o, list) else 1 for o in ev.get("outs", [])))
        if ev["kind"] in ("jvp", "cont") and ev["status"] == "ok":
            if any((o[1] if isinstance(o, list) else any(o["t"])) != 0 for o in ev["outs"]):
                rep.nontrivial.add((jid, ev["thn"]))
        if clause == "rejected":
            counts["rejected:" + ev["kind"]] = counts.get("rejected:" + ev["kind"], 0) + 1
        if clause in ("ok", "rejected"):
            continue
        sig = {"clause": clause, "status": ev["status"]}
        if "prog" in jb:
            sig["prims"] = prog_prims(jb["prog"])
            sig["program"] = prog_show(jb["prog"])
            sig["shape"] = prog_shape(jb["prog"])
        else:
            sig["fam"] = jb["cc"]["fam"]
            sig["case"] = jid
        sig["event"] = ev["id"].split("/", 1)[1]
        rep.violation(sig, {"job": jb, "event": ev, "error": errors.get(jid)})
    for jb in jobs[:: max(1, len(jobs) // 4)]:
        rep.sample({"id": jb["id"], "program": prog_show(jb["prog"]) if "prog" in jb else jb["cc"]["fam"]})
    rep.extra["events_by_kind"] = counts
    rep.extra["programs"] = sum(1 for jb in jobs if "prog" in jb)
    rep.extra["continuous_cases"] = sum(1 for jb in jobs if "cc" in jb)
    if th_a is not None:
        th_a.join()
        if "err" in roleA:
            raise roleA["err"]
        rep.add_tlc(roleA["res"])
        rep.extra["roleA"] = {"states": roleA["res"].distinct, "universe": "small" if quick else "big",
                              "invariants": ["Unbiased", "EnumExact", "TangentLinear", "ProbsValid"],
                              "wall_s": round(roleA["res"].wall, 1)}
        rep.exhaustive = False
    rep.assumptions = [
        "outcome vectors give every (site, context) an independent Bernoulli outcome; the real code shares one PRNG key "
        "between the branches of an enumerating site, which is a special case (no false alarms, slightly weaker)",
        "frequency clause only for programs whose sampled sites are not preceded by an enumerating site; Hoeffding at "
        "delta=1e-9 over all cells of the run",
        "flip_mvd only as the last statement (its pure continuation does not support later sample sites)",
        "continuous primitives: formula checked pointwise, noise distribution itself is not tested",
    ]
    return rep.finish()
