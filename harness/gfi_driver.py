"""Execute TLC-generated GFI histories on the real genjax and log one event per
operation (full projected abstract state), for validation by spec/GFITrace.tla.

Every GFI call goes through Runner.fn(key, maker): in mode "eager" the callable is used as is,
in mode "jit" it is wrapped in jax.jit and cached per (program, operation, request structure),
with all values (keys, arguments, constraint values, indices, traces) passed as traced arguments.
"""

from __future__ import annotations

import json
import traceback

from . import gfi_build as gb

# closure programs of the catalogue -> the catalogue entry of the function they wrap (for sibling-closure edits)
UNDER = {"Clo1": "S2", "Clo2": "S2", "Clo0": "SChain", "CloSw": "SwSame", "CloVm": "VmAx"}
REJECT = ("NotImplementedError", "NotSupportedEditRequest", "AssertionError")
T0 = {"args": [], "choices": [], "score": 0, "ret": gb.NN}
NOSEL = {"t": "none", "p": [], "k": []}
_RUNNERS = {}


def _eq(a, b):
    return json.dumps(a, sort_keys=True) == json.dumps(b, sort_keys=True)


def _skey(*xs):
    return json.dumps(xs, sort_keys=True, default=str)


class Runner:
    def __init__(self, catalog, mode="eager"):
        self.cat = catalog
        self.mode = mode
        self.progs = {}
        self.fns = {}

    def prog(self, pid):
        if pid not in self.progs:
            self.progs[pid] = gb.build(self.cat[pid]["p"])
        return self.progs[pid]

    def fn(self, key, maker):
        f = self.fns.get(key)
        if f is None:
            import jax
            f = maker()
            if self.mode == "jit":
                f = jax.jit(f)
            self.fns[key] = f
        return f

    def under(self, pid):
        """the function a closure program wraps"""
        key = "under:" + pid
        if key not in self.progs:
            self.progs[key] = gb.build(self.cat[pid]["p"]["subs"][0])
        return self.progs[key]

    def proj_under(self, pid, tr):
        """trace of the underlying function, projected like the closure's own trace"""
        e = self.cat[pid]
        p = e["p"]
        ns = len(p["x"])
        a = tr.get_args()
        if p["n"] == 2:
            extra = a[:len(a) - ns]
        elif p["n"] == 3:
            extra = a[1:len(a) - (ns - 1)]
        else:
            extra = a[ns:]
        return {"args": [gb.proj_val(x) for x in extra], "choices": gb.proj_chm(tr.get_choices(), e["addrs"]),
                "score": gb.fx(tr.get_score()), "ret": gb.proj_val(tr.get_retval())}

    def cat_addrs(self, term):
        """address universe of a sub-program term (static structure only; mirrors Addrs of the spec for the
        shapes that occur as callees in the catalogue)."""
        k = term["k"]
        if k in ("dist", "cat"):
            return [[]]
        if k == "static":
            return [s["addr"] + a for s in term["sites"] for a in self.cat_addrs(s["callee"])]
        if k in ("closure", "mask", "dimap"):
            return self.cat_addrs(term["subs"][0])
        if k in ("switch", "orelse"):
            out = []
            for q in term["subs"]:
                for a in self.cat_addrs(q):
                    if a not in out:
                        out.append(a)
            return out
        return [[str(i)] + a for i in range(term["n"]) for a in self.cat_addrs(term["subs"][0])]

    # -- projection
    def proj_trace(self, pid, tr):
        e = self.cat[pid]
        return {
            "args": gb.proj_args(e["p"], tr.get_args()),
            "choices": gb.proj_chm(tr.get_choices(), e["addrs"]),
            "score": gb.fx(tr.get_score()),
            "ret": gb.proj_val(tr.get_retval()),
        }

    def self_assess(self, pid, tr):
        if "assess" not in self.want:
            return {"status": "none", "score": 0, "ret": gb.NN}
        try:
            f = self.fn(_skey(pid, "selfassess"), lambda: (lambda t: t.get_gen_fn().assess(t.get_choices(), t.get_args())))
            s, r = f(tr)
            return {"status": "ok", "score": gb.fx(s), "ret": gb.proj_val(r)}
        except Exception as ex:
            return {"status": "raised:" + type(ex).__name__, "score": 0, "ret": gb.NN}

    @staticmethod
    def argdiffs(args, tags):
        from genjax._src.core.compiler.interpreters.incremental import Diff
        return tuple(Diff.no_change(a) if t == "N" else Diff.unknown_change(a) for a, t in zip(args, tags))

    def proj_retdiff(self, retdiff, prev_ret):
        """[{primal, prev (previous value of the same leaf), tag}] per Diff leaf."""
        import jax
        from genjax._src.core.compiler.interpreters.incremental import Diff, NoChange
        leaves, treedef = jax.tree_util.tree_flatten(retdiff, is_leaf=lambda z: isinstance(z, Diff))
        try:
            prev = treedef.flatten_up_to(prev_ret)
            aligned = True
        except Exception:
            prev = [None] * len(leaves)
            aligned = False
        out = []
        for lf, pv in zip(leaves, prev):
            if isinstance(lf, Diff):
                tag = "N" if lf.get_tangent() == NoChange else "U"
                pr = lf.get_primal()
            else:
                tag, pr = "N", lf      # non-Diff leaves count as NoChange (Diff.tree_tangent)
            out.append({"primal": gb.proj_val(pr), "prev": gb.proj_val(pv) if aligned else gb.NN,
                        "tag": tag, "aligned": aligned})
        return out

    # -- requests
    def make_request(self, rq, p, vals, idx, flags=None):
        from genjax import Update
        from genjax._src.core.generative.requests import EmptyRequest, Regenerate, DiffAnnotate
        from genjax._src.core.generative.concepts import IndexRequest
        op = rq["op"]
        cons = rq.get("cons", [])
        if op == "update":
            return Update(gb.build_cons(cons, vals, flags, rq.get("_form", 0)))
        if op == "regenerate":
            return Regenerate(gb.build_sel(rq["sel"]))
        if op == "empty":
            return EmptyRequest()
        if op == "diffannotate":
            return DiffAnnotate(Update(gb.build_cons(cons, vals)))
        if op == "index":
            inner = Update(gb.build_cons(cons, vals)) if rq["sub"] == "update" else Regenerate(gb.build_sel(rq["sel"]))
            return IndexRequest(idx, inner)
        if op == "static":
            return self.static_request(rq, p, vals)
        raise ValueError(op)

    def static_request(self, rq, p, vals):
        """StaticRequest addressing top-level call sites: constrained sites get Update(sub-constraint),
        one further site (rq.idx) gets Regenerate(sub-selection) or EmptyRequest; others are unaddressed."""
        from genjax import Update
        from genjax._src.core.generative.requests import EmptyRequest, Regenerate
        from genjax._src.generative_functions.static import StaticRequest
        addressed = {}
        sites0 = [s["addr"] for s in p["sites"]]
        sites = list(reversed(sites0)) if rq.get("_rev") else sites0      # the request dict need not be in program order
        cons = rq["cons"]
        for s in sites:
            ix = [j for j, c in enumerate(cons) if c["p"][:len(s)] == s]
            if ix:
                sub = [dict(cons[j], p=cons[j]["p"][len(s):]) for j in ix]
                addressed[gb.addr_py(s)] = Update(gb.build_cons(sub, [vals[j] for j in ix]))
        extra = sites0[rq["idx"] % len(sites0)]
        if gb.addr_py(extra) not in addressed:
            addressed[gb.addr_py(extra)] = EmptyRequest() if rq["idx"] >= 2 else \
                Regenerate(gb.build_sel(rq["sel"])(gb.addr_py(extra)))
        return StaticRequest(addressed)

    @staticmethod
    def static_extra(rq, p):
        sites = [s["addr"] for s in p["sites"]]
        extra = sites[rq["idx"] % len(sites)]
        constrained = any(c["p"][:len(extra)] == extra for c in rq["cons"])
        regen = (not constrained) and rq["idx"] < 2
        return extra if regen else ["__none__"]

    # -- one history
    def run_case(self, tid, case):
        import jax
        events = []
        pid = case["pid"]
        e = self.cat[pid]
        p = e["p"]
        key = jax.random.key(int(case["key"]))
        self.want = set(case.get("want", ["assess", "undo", "alt"]))
        # concrete Python ints / bools as top-level arguments (switch index, mask flag, ...) for some eager histories
        self.concrete = bool(case.get("concrete", False)) and self.mode == "eager"
        tr = None
        cur_argsV = None
        for seq, rq in enumerate(case["ops"]):
            key, k1, k2, k3 = jax.random.split(key, 4)
            cons = rq.get("cons", [])
            ev = {"tid": tid, "seq": seq, "pid": pid, "mode": self.mode, "op": rq["op"], "status": "ok",
                  "sub": rq.get("sub", ""), "idx": rq.get("idx", 0), "sel": rq.get("sel", NOSEL),
                  "cons": [[c["p"], c["v"]] for c in cons if c["f"] != "F"], "consall": cons, "tags": [], "reqargs": [],
                  "pre": self.proj_trace(pid, tr) if tr is not None else T0, "post": T0, "w": 0,
                  "assess": {"status": "none", "score": 0, "ret": gb.NN}, "disc": [], "hasdisc": False,
                  "retdiff": [], "undo": {"status": "none", "post": T0, "w": 0},
                  "alt": {"status": "none", "post": T0, "w": 0}, "alt2": {"status": "none", "post": T0, "w": 0}, "alt3": {"status": "none", "post": T0, "w": 0}, "altm": {"status": "none", "post": T0, "w": 0}, "flagmode": "none", "consform": 0, "argmode": "array", "tagvars": [], "retp": T0["ret"], "hasretp": False,
                  "subt": {"choices": [], "score": 0}, "w2": 0, "haspre": tr is not None, "extra": []}
            try:
                newtr = self.step(ev, rq, e, p, tr, cur_argsV, k1, k2, k3)
            except Exception as ex:
                ev["status"] = ("rejected:" if type(ex).__name__ in REJECT else "raised:") + type(ex).__name__
                ev["error"] = (str(ex) or traceback.format_exc())[-300:]
                newtr = None
            if newtr is not None:
                tr = newtr
                cur_argsV = ev["post"]["args"]
            events.append(ev)
            if tr is None or ev.pop("stop", False):
                break
        return events

    def step(self, ev, rq, e, p, tr, cur_argsV, k1, k2, k3):
        import jax.numpy as jnp
        from genjax import Update
        pid = ev["pid"]
        gf = self.prog(pid)
        op = rq["op"]
        cons = rq.get("cons", [])
        clo = p["k"] == "closure"
        if clo:
            under = self.under(pid)
            stored = tuple(gb.val_to_py(v) for v in p["x"])
            ns = len(stored)

            def full(a):          # the underlying function's arguments (see CloArgs in spec/GFI.tla)
                if p["n"] == 2:
                    return tuple(a) + stored
                if p["n"] == 3:
                    return stored[:1] + tuple(a) + stored[1:]
                return stored + tuple(a)
        form = 1 if (ev["tid"] % 3 == 1 and op in ("generate", "update")) else 0
        ev["consform"] = form
        masked = any(c["f"] in ("T", "F") for c in cons)
        traced_flags = masked and (ev["tid"] % 2 == 1)
        struct = [form] + [[c["p"], c["f"] if not traced_flags else ("M" if c["f"] != "-" else "-")] for c in cons]
        vals = [jnp.array(c["v"], dtype=jnp.int32) for c in cons]
        flags = [jnp.array(c["f"] == "T") for c in cons] if traced_flags else None
        ev["flagmode"] = "traced" if traced_flags else ("concrete" if masked else "none")
        plain = [dict(c, f="-") for c in cons if c["f"] != "F"]
        pvals = [jnp.array(c["v"], dtype=jnp.int32) for c in plain]
        pstruct = [[c["p"], "-"] for c in plain]
        if op in ("simulate", "generate"):
            argsV = e["as"][rq["a"] - 1]
            args = gb.call_args(p, argsV, self.concrete)
            ev["reqargs"] = argsV
            ev["argmode"] = "python" if self.concrete else "array"
            if op == "simulate":
                new = self.fn(_skey(pid, "sim"), lambda: (lambda k, a: gf.simulate(k, a)))(k1, args)
                ev["post"] = self.proj_trace(pid, new)
                if clo and "alt" in self.want:
                    n2 = self.fn(_skey(pid, "under-sim"), lambda: (lambda k, a: under.simulate(k, full(a))))(k1, args)
                    ev["alt"] = {"status": "ok", "w": 0, "post": self.proj_under(pid, n2)}
                elif "alt" in self.want:
                  ch, sc, rv = self.fn(_skey(pid, "propose"), lambda: (lambda k, a: gf.propose(k, a)))(k1, args)
                  ev["alt"] = {"status": "ok", "w": 0, "post": {"args": ev["post"]["args"], "choices": gb.proj_chm(ch, e["addrs"]),
                                                              "score": gb.fx(sc), "ret": gb.proj_val(rv)}}
            else:
                new, w = self.fn(_skey(pid, "imp", struct), lambda: (lambda k, v, fl, a: gf.importance(k, gb.build_cons(cons, v, fl, form), a)))(k1, vals, flags, args)
                ev["post"] = self.proj_trace(pid, new)
                ev["w"] = gb.fx(w)
                if masked and "maskeq" in self.want:
                    n3, w3 = self.fn(_skey(pid, "imp", pstruct), lambda: (lambda k, v, fl, a: gf.importance(k, gb.build_cons(plain, v, fl), a)))(k1, pvals, None, args)
                    ev["alt2"] = {"status": "ok", "w": gb.fx(w3), "post": self.proj_trace(pid, n3)}
                if clo and "alt" in self.want:
                    new2, w2 = self.fn(_skey(pid, "under-imp", struct), lambda: (lambda k, v, a: under.importance(k, gb.build_cons(cons, v), full(a))))(k1, vals, args)
                    ev["alt"] = {"status": "ok", "w": gb.fx(w2), "post": self.proj_under(pid, new2)}
                elif "alt" in self.want:
                    new2, w2 = self.fn(_skey(pid, "gen", struct), lambda: (lambda k, v, a: gf.generate(k, gb.build_cons(cons, v), a)))(k1, vals, args)
                    ev["alt"] = {"status": "ok", "w": gb.fx(w2), "post": self.proj_trace(pid, new2)}
            ev["assess"] = self.self_assess(pid, new)
            return new
        if op == "assess":
            argsV = e["as"][rq["a"] - 1] if rq.get("a", 0) > 0 else (cur_argsV or e["as"][0])
            args = gb.call_args(p, argsV)
            ev["reqargs"] = argsV
            ev["post"] = ev["pre"]
            sc, rv = self.fn(_skey(pid, "assess", struct), lambda: (lambda v, a: gf.assess(gb.build_cons(cons, v), a)))(vals, args)
            ev["w"] = gb.fx(sc)
            ev["subt"] = {"choices": [], "score": 0, "ret": gb.proj_val(rv)}
            return None
        if tr is None:
            raise RuntimeError("no trace")
        if op == "subtrace":
            if p["k"] == "switch":          # the branch that executed (documented: the index is clamped)
                j = min(max(int(cur_argsV[0]["i"]), 0), len(p["subs"]) - 1)
                layer = p["subs"][j]
            else:
                layer = p if p["k"] == "static" else p["subs"][0]
            site = layer["sites"][rq["idx"] % len(layer["sites"])]
            ev["extra"] = site["addr"]
            ev["post"] = ev["pre"]
            st = tr.get_subtrace(gb.addr_py(site["addr"]))
            ev["subt"] = {"choices": gb.proj_chm_batched(st.get_choices(), self.cat_addrs(site["callee"])),
                          "score": gb.fx(jnp.sum(st.get_score())), "ret": gb.NN}
            return None
        if op == "project":
            sel = gb.build_sel(rq["sel"])
            w, w2 = self.fn(_skey(pid, "project", rq["sel"]), lambda: (lambda k, t: (t.project(k, sel), t.project(k, ~sel))))(k1, tr)
            ev["w"], ev["w2"] = gb.fx(w), gb.fx(w2)
            ev["post"] = ev["pre"]
            return None
        # ---- edits
        old_args = tr.get_args()
        if clo:
            old_args = gb.call_args(p, cur_argsV)          # the extra arguments the closure was called with
        argsV = e["as"][rq["a"] - 1] if rq.get("a", 0) > 0 and op != "index" else cur_argsV
        new_args = gb.call_args(p, argsV, self.concrete)
        ev["argmode"] = "python" if self.concrete else "array"
        changed = [not _eq(a, b) for a, b in zip(argsV, cur_argsV)]
        if op == "index":
            tags = ["N"] * len(argsV)
        elif rq.get("tg") == "allU":
            tags = ["U"] * len(argsV)
        else:
            tags = ["U" if c else "N" for c in changed]
        ev["tags"] = tags
        ev["reqargs"] = argsV
        if op == "static":
            ev["extra"] = self.static_extra(rq, p)
        idx = jnp.array(rq.get("idx", 0))
        rkey = [op, rq.get("sub", ""), struct, rq["sel"] if op in ("regenerate", "index", "static") else None,
                [rq.get("idx", 0), ev["tid"] % 2] if op == "static" else None, tags]

        rq = dict(rq, _form=form, _rev=(ev["tid"] % 2 == 1))

        def mk_edit(rq_, ):
            def f(k, t, v, fl, i, a):
                req = self.make_request(rq_, p, v, i, fl)
                if clo:       # through the closure object (the request itself would reach the underlying function)
                    if rq_["op"] == "update" and ev["tid"] % 2 == 0:
                        t2, w_, rd_, disc_ = gf.update(k, t, req.constraint, self.argdiffs(a, tags))
                        from genjax import Update as _U
                        return t2, w_, rd_, _U(disc_)
                    return gf.edit(k, t, req, self.argdiffs(a, tags))
                return req.edit(k, t, self.argdiffs(a, tags))
            return f

        upid = UNDER.get(pid)
        if clo and p["n"] == 0 and ns > 0 and upid and ev["tid"] % 4 == 3 and op in ("update", "regenerate") and not masked:
            import jax
            storedV2 = [dict(v, i=(v["i"] + 1) % 3) if v["t"] == "i" else v for v in p["x"]]
            if storedV2 != list(p["x"]):
                stored2 = tuple(gb.val_to_py(v) for v in storedV2)
                sib = under(*stored2)                                      # another closure of the same function
                up = self.cat[upid]["p"]
                req = self.make_request(rq, p, vals, idx, flags)
                new, w, retdiff, bwd = sib.edit(k1, tr, req, self.argdiffs(new_args, tags))
                ev["pid"] = upid
                ev["via"] = "sibling-closure"
                ev["pre"] = self.proj_trace(upid, tr)
                ev["post"] = self.proj_trace(upid, new)
                ev["reqargs"] = storedV2 + list(argsV)
                ev["tags"] = ["U"] * ns + list(tags)
                ev["w"] = gb.fx(w)
                ev["retdiff"] = self.proj_retdiff(retdiff, tr.get_retval())
                if isinstance(bwd, Update):
                    ev["disc"] = gb.proj_chm(bwd.constraint, self.cat[upid]["addrs"])
                    ev["hasdisc"] = True
                ev["stop"] = True
                return new
        new, w, retdiff, bwd = self.fn(_skey(pid, "edit", rkey), lambda: mk_edit(rq))(k1, tr, vals, flags, idx, new_args)
        if masked and "maskeq" in self.want and op == "update":
            try:
                rq2 = dict(rq, cons=plain)
                rkey2 = [op, "", pstruct, None, None, tags]
                n3, w3, _, _ = self.fn(_skey(pid, "edit", rkey2), lambda: mk_edit(rq2))(k1, tr, pvals, None, idx, new_args)
                ev["alt2"] = {"status": "ok", "w": gb.fx(w3), "post": self.proj_trace(pid, n3)}
            except Exception as ex:
                ev["alt2"] = {"status": "raised:" + type(ex).__name__, "w": 0, "post": T0}
        ev["post"] = self.proj_trace(pid, new)
        ev["w"] = gb.fx(w)
        ev["assess"] = self.self_assess(pid, new)
        ev["retdiff"] = self.proj_retdiff(retdiff, tr.get_retval())
        try:        # the value edit hands back to its caller (primal of the returned retdiff)
            from genjax._src.core.compiler.interpreters.incremental import Diff as _Diff
            ev["retp"] = gb.proj_val(_Diff.tree_primal(retdiff))
            ev["hasretp"] = True
        except Exception:
            pass
        if isinstance(bwd, Update):
            ev["disc"] = gb.proj_chm(bwd.constraint, e["addrs"])
            ev["hasdisc"] = True
        # C08: the same edit under every other honest tagging of the unchanged arguments (NoChange -> UnknownChange
        # on each non-empty subset of them), same key
        if "tagvar" in self.want and op in ("update", "regenerate") and "N" in tags:
            import itertools
            free = [j for j, t in enumerate(tags) if t == "N"][:3]
            variants = []
            for r_ in range(1, len(free) + 1):
                for sub in itertools.combinations(free, r_):
                    tv = list(tags)
                    for j in sub:
                        tv[j] = "U"
                    try:
                        def mk_editV(tv=tv):
                            def f(k, t, v, fl, i, a):
                                return self.make_request(rq, p, v, i, fl).edit(k, t, self.argdiffs(a, tv))
                            return f
                        n4, w4, _, _ = self.fn(_skey(pid, "edit", rkey[:-1] + [tv]), mk_editV)(k1, tr, vals, flags, idx, new_args)
                        variants.append({"tags": tv, "status": "ok", "w": gb.fx(w4), "post": self.proj_trace(pid, n4)})
                    except Exception as ex:
                        variants.append({"tags": tv, "status": "raised:" + type(ex).__name__, "w": 0, "post": T0})
            ev["tagvars"] = variants
        # C38: the derived entry points with the same key
        if clo and "alt" in self.want and p["n"] != 0:
            pass      # partial_apply / keyword closures own a different trace type: validated against the spec only
        elif clo and "alt" in self.want:
            try:      # the underlying function with the stored arguments prepended (tagged as the closure tags them)
                ftags = (tags + ["U"] * ns) if p["n"] == 2 else (["U"] * ns + tags)

                def mk_alt():
                    return lambda k, t, v, fl, i, a: self.make_request(rq, p, v, i, fl).edit(k, t, self.argdiffs(full(a), ftags))
                n2, w2, _, _ = self.fn(_skey(pid, "under-edit", rkey), mk_alt)(k1, tr, vals, flags, idx, new_args)
                ev["alt"] = {"status": "ok", "w": gb.fx(w2), "post": self.proj_under(pid, n2)}
            except Exception as ex:
                ev["alt"] = {"status": "raised:" + type(ex).__name__, "w": 0, "post": T0}
        elif op in ("update", "regenerate", "empty", "diffannotate") and "alt" in self.want:
            try:
                if op == "update":
                    def mk_alt():
                        return lambda k, t, v, fl, a: t.update(k, gb.build_cons(cons, v, fl), self.argdiffs(a, tags))
                    n2, w2, _, _ = self.fn(_skey(pid, "alt-update", rkey), mk_alt)(k1, tr, vals, flags, new_args)
                else:
                    def mk_alt():
                        return lambda k, t, v, fl, i, a: t.edit(k, self.make_request(rq, p, v, i, fl), self.argdiffs(a, tags))
                    n2, w2, _, _ = self.fn(_skey(pid, "alt-edit", rkey), mk_alt)(k1, tr, vals, flags, idx, new_args)
                ev["alt"] = {"status": "ok", "w": gb.fx(w2), "post": self.proj_trace(pid, n2)}
            except Exception as ex:
                ev["alt"] = {"status": "raised:" + type(ex).__name__, "w": 0, "post": T0}
        # C06: apply the backward request with the original argument values
        if "undo" not in self.want:
            return new
        try:
            utags = ["U" if not _eq(a, b) else "N" for a, b in zip(ev["post"]["args"], ev["pre"]["args"])]
            bstruct = jax_tree_structure(bwd)

            def mk_undo():
                if clo:
                    return lambda k, t, b, a: gf.edit(k, t, b, self.argdiffs(a, utags))
                return lambda k, t, b, a: b.edit(k, t, self.argdiffs(a, utags))
            if bstruct is None:      # request that cannot be flattened as a pytree: apply it un-jitted
                u, uw, _, _ = mk_undo()(k2, new, bwd, old_args)
            else:
                u, uw, _, _ = self.fn(_skey(pid, "undo", rkey, utags, bstruct), mk_undo)(k2, new, bwd, old_args)
            ev["undo"] = {"status": "ok", "post": self.proj_trace(pid, u), "w": gb.fx(uw)}
        except Exception as ex:
            ev["undo"] = {"status": ("rejected:" if type(ex).__name__ in ("NotSupportedEditRequest",) else "raised:") + type(ex).__name__,
                          "post": T0, "w": 0, "error": (str(ex) or "")[-200:]}
        return new


def run_case_vmap(runner, tid, case, nb=3):
    """C23: the first operation (simulate / importance) and the first update or regenerate of a history run under
    jax.vmap over a batch of keys (and constraint values); slice i is logged as its own event together with the
    unbatched call on the i-th inputs (field altm)."""
    import jax
    import jax.numpy as jnp
    from genjax import Update
    from genjax._src.core.generative.requests import Regenerate
    self = runner
    self.want = set()
    pid = case["pid"]
    e = self.cat[pid]
    p = e["p"]
    gf = self.prog(pid)
    keys = jax.random.split(jax.random.key(int(case["key"])), nb)
    rq0 = case["ops"][0]
    argsV = e["as"][rq0["a"] - 1]
    args = gb.call_args(p, argsV)
    cons0 = rq0.get("cons", [])
    vals0 = jnp.stack([jnp.array([(c["v"] + i) % 3 for c in cons0], dtype=jnp.int32) for i in range(nb)]) if cons0 else jnp.zeros((nb, 0), jnp.int32)

    def blank(seq, op, i, rq):
        cons = rq.get("cons", [])
        return {"tid": 1000000 + tid * 8 + i, "seq": seq, "pid": pid, "mode": "vmap", "op": op, "status": "ok", "sub": "", "idx": 0,
                "sel": rq.get("sel", NOSEL), "cons": [], "consall": cons, "tags": [], "reqargs": [], "pre": T0, "post": T0, "w": 0,
                "assess": {"status": "none", "score": 0, "ret": gb.NN}, "disc": [], "hasdisc": False, "retdiff": [],
                "undo": {"status": "none", "post": T0, "w": 0}, "alt": {"status": "none", "post": T0, "w": 0},
                "alt2": {"status": "none", "post": T0, "w": 0}, "alt3": {"status": "none", "post": T0, "w": 0},
                "altm": {"status": "none", "post": T0, "w": 0}, "flagmode": "none", "subt": {"choices": [], "score": 0},
                "w2": 0, "haspre": False, "extra": [], "tagvars": [], "consform": 0, "argmode": "array", "retp": gb.NN, "hasretp": False}

    def sl(x, i):
        return jax.tree_util.tree_map(lambda v: v[i], x)

    events = []
    if rq0["op"] == "simulate":
        f0 = lambda k, v: (gf.simulate(k, args), jnp.zeros(()))
    else:
        f0 = lambda k, v: gf.importance(k, gb.build_cons(cons0, list(v)), args)
    try:
        btr, bw = jax.vmap(f0)(keys, vals0)
    except Exception as ex:
        ev = blank(0, rq0["op"], 0, rq0)
        ev["status"] = "raised:" + type(ex).__name__
        ev["reqargs"] = argsV
        return [ev]
    singles = []
    for i in range(nb):
        ev = blank(0, rq0["op"], i, rq0)
        ev["reqargs"] = argsV
        ev["cons"] = [[c["p"], int(vals0[i][j])] for j, c in enumerate(cons0) if c["f"] != "F"]
        ev["post"] = self.proj_trace(pid, sl(btr, i))
        ev["w"] = gb.fx(bw[i])
        t1, w1 = f0(keys[i], vals0[i])
        singles.append(t1)
        ev["altm"] = {"status": "ok", "post": self.proj_trace(pid, t1), "w": gb.fx(w1)}
        events.append(ev)
    # first update / regenerate of the history, batched over keys and traces
    rq1 = next((r for r in case["ops"][1:] if r["op"] in ("update", "regenerate")), None)
    if rq1 is None:
        return events
    cons1 = rq1.get("cons", [])
    vals1 = jnp.stack([jnp.array([(c["v"] + i) % 3 for c in cons1], dtype=jnp.int32) for i in range(nb)]) if cons1 else jnp.zeros((nb, 0), jnp.int32)
    argsV1 = e["as"][rq1["a"] - 1] if rq1.get("a", 0) > 0 else argsV
    new_args = gb.call_args(p, argsV1)
    tags = ["U" if not _eq(a, b) else "N" for a, b in zip(argsV1, argsV)]
    keys2 = jax.random.split(jax.random.key(int(case["key"]) + 1), nb)

    def f1(k, t, v):
        req = Update(gb.build_cons(cons1, list(v))) if rq1["op"] == "update" else Regenerate(gb.build_sel(rq1["sel"]))
        n, w, _, _ = req.edit(k, t, self.argdiffs(new_args, tags))
        return n, w
    try:
        bn, bw1 = jax.vmap(f1)(keys2, btr, vals1)
    except Exception as ex:
        ev = blank(1, rq1["op"], 0, rq1)
        ev["status"] = ("rejected:" if type(ex).__name__ in REJECT else "raised:") + type(ex).__name__
        ev["pre"] = events[0]["post"]
        ev["haspre"] = True
        ev["reqargs"] = argsV1
        ev["tags"] = tags
        # is the unbatched call rejected too?  (then the batched rejection carries no information)
        try:
            f1(keys2[0], sl(btr, 0), vals1[0])
            ev["altm"] = {"status": "ok", "post": T0, "w": 0}
        except Exception as ex2:
            ev["altm"] = {"status": ("rejected:" if type(ex2).__name__ in REJECT else "raised:") + type(ex2).__name__, "post": T0, "w": 0}
        return events + [ev]
    for i in range(nb):
        ev = blank(1, rq1["op"], i, rq1)
        ev["pre"] = events[i]["post"]
        ev["haspre"] = True
        ev["reqargs"] = argsV1
        ev["tags"] = tags
        ev["cons"] = [[c["p"], int(vals1[i][j])] for j, c in enumerate(cons1) if c["f"] != "F"]
        ev["post"] = self.proj_trace(pid, sl(bn, i))
        ev["w"] = gb.fx(bw1[i])
        n1, w1 = f1(keys2[i], sl(btr, i), vals1[i])
        ev["altm"] = {"status": "ok", "post": self.proj_trace(pid, n1), "w": gb.fx(w1)}
        events.append(ev)
    return events


def jax_tree_structure(x):
    import jax
    try:
        return str(jax.tree_util.tree_structure(x))
    except Exception:
        return None


def _setup_jax():
    """JAX's persistent compilation cache is OFF by default: on this jax (0.5.2, CPU) another engine observed wrong
    numbers coming out of cached executables (TFP log_prob values off by > 1 nat), and a check must never raise a
    false alarm.  VERIF_JAXCACHE=1 turns it on for local experiments (it makes repeated runs ~5x faster)."""
    import os
    import jax
    if not _RUNNERS and os.environ.get("VERIF_JAXCACHE") == "1":
        d = os.path.join(os.environ.get("VERIF_WORK") or os.path.join(os.path.dirname(os.path.dirname(os.path.abspath(__file__))), ".work"), "jaxcache")
        try:
            os.makedirs(d, exist_ok=True)
            jax.config.update("jax_compilation_cache_dir", d)
            jax.config.update("jax_persistent_cache_min_compile_time_secs", 0)
            jax.config.update("jax_persistent_cache_min_entry_size_bytes", 0)
        except Exception:
            pass


def get_runner(catalog_key, catalog, mode):
    _setup_jax()
    k = (catalog_key, mode)
    if k not in _RUNNERS:
        _RUNNERS[k] = Runner(catalog, mode)
    return _RUNNERS[k]


def run_cases(args):
    """worker entry: (catalog dict, list of (tid, case), mode) -> list of events"""
    catalog, cases, mode = args
    r = get_runner(len(catalog), catalog, mode)
    out = []
    for tid, case in cases:
        m = case.get("mode", mode)
        rr = r if m == mode else get_runner(len(catalog), catalog, m)
        try:
            if m == "vmap":
                out.extend(run_case_vmap(get_runner(len(catalog), catalog, "eager"), tid, case))
                continue
            out.extend(rr.run_case(tid, case))
        except Exception as ex:
            out.append({"tid": tid, "seq": -1, "status": "driver-error:" + type(ex).__name__,
                        "error": traceback.format_exc()[-600:], "pid": case.get("pid")})
    return out
