"""C37 — DiscreteHMM posterior density and sampler are exact.

Role A: TLC model-checks spec/HMM.tla: for built-in dyadic tables and every observation sequence up to
MaxT, forward-filtering/backward-sampling's sampling distribution equals the posterior obtained by
enumerating all latent sequences, posteriors sum to one, the forward evidence equals the enumerated one.
Role D: for small DiscreteHMMConfiguration's and ALL observation sequences of length <= T the driver
computes the input tables (float64 numpy softmax of config.transition_tensor()/observation_tensor()) and
logs what the implementation returns (estimate_logpdf for every latent sequence, data_logpdf,
random_weighted draws + weights, 4096-sample cell counts for random_weighted and for the exported
forward_filtering_backward_sampling).  TLC evaluates the clauses C37.post / data / rw / freq / run.
"""

from __future__ import annotations

import itertools
import json
import math
import multiprocessing as mp
import os
import time

from . import vlib

PROPS = {
    "C37": dict(
        spec="HMM",
        category="model_checking", design_ref="§5 C37",
        technique="TLA+ spec of the discrete HMM posterior by enumeration and of forward-filtering/backward-sampling in "
                  "renormalised linear fixed point (HMM.tla), model-checked by TLC on dyadic tables; implementation outputs "
                  "for all observation sequences validated by TLC against the enumerated posterior, Hoeffding clause in "
                  "integer arithmetic",
        text="Configurations N in {2,3} (thorough: N <= 5) x adjacency truncations {0,1,2} incl. one above N/2 where the circulant transition table is not symmetric (thorough: up to 3, asymmetric transition and observation tables) x several variances, every observation "
             "sequence of length <= 3 (thorough <= 4): exp(estimate_logpdf(z)) = W(z)/sum W for every latent sequence z (2 %), "
             "exp(data_logpdf) = sum_z W(z), random_weighted's weight = estimate_logpdf of the returned sequence, and the empirical "
             "distribution of 4096 random_weighted / forward_filtering_backward_sampling draws lies within the Hoeffding band "
             "(delta = 1e-12) of the enumerated posterior in every cell.",
        note="Weakest level of the suite: soft-float (15-bit mantissa) arithmetic in TLA+, tolerance 2 %. Input tables are "
             "softmaxes of config.transition_tensor()/observation_tensor() computed by the driver in float64.",
    ),
}

MB = 15


def _sf(x):
    """float > 0 -> soft float [m, e], 2^14 <= m < 2^15, x ~ m * 2^e (projection of a number for TLC)."""
    x = float(x)
    if not (x > 0.0) or math.isinf(x) or math.isnan(x):
        return [0, 0]
    fr, ex = math.frexp(x)
    m = int(round(fr * (1 << MB)))
    if m >= (1 << MB):
        m >>= 1
        ex += 1
    return [m, ex - MB]


def _fx(x):
    x = float(x)
    if math.isnan(x) or math.isinf(x) or abs(x) > 4e6:
        return -(2 ** 30)
    return int(round(x * 256))


def _configs(tier):
    quick = [
        (3, 1, 1, 0.5, 0.8), (3, 0, 1, 1.5, 0.4), (3, 1, 0, 0.3, 2.0), (2, 0, 0, 0.9, 1.3),
        (3, 2, 1, 2.0, 0.8),      # truncation above N/2: the circulant transition table is NOT symmetric
        (3, 1, 2, 0.7, 1.6),      # ... and an asymmetric observation table
    ]
    if tier == "quick":
        return quick
    more = [(3, 0, 0, 1.0, 0.6), (2, 1, 1, 0.7, 0.2)]
    for N in (2, 3, 4):
        for kt in (0, 1):
            for ko in (0, 1):
                for st, so in ((0.25, 1.0), (2.0, 0.5), (1.0, 3.0)):
                    more.append((N, kt, ko, st, so))
    more += [(4, 3, 1, 1.5, 0.8), (4, 1, 3, 0.7, 1.6), (4, 3, 3, 0.4, 1.4),     # asymmetric transition / observation / both
             (4, 2, 1, 0.5, 0.8), (4, 1, 2, 1.2, 0.4), (5, 2, 2, 0.6, 0.9)]
    return quick + more


def _softmax_rows(m):
    import numpy as np
    m = np.asarray(m, dtype=np.float64)
    m = m - m.max(axis=-1, keepdims=True)
    e = np.exp(m)
    return e / e.sum(axis=-1, keepdims=True)


def _cfg_task(tasks):
    """All lengths T of one configuration in one process (jax import and tracing are paid once)."""
    out = []
    for t in tasks:
        out.append(_task(t))
        if out[-1]["error"]:
            break
    return out


def _task(task):
    """All observation sequences of length T for one configuration. -> list of case records."""
    cfg_id, cfg, T, seed, ns, n0 = task
    t0 = time.time()
    import numpy as np
    import jax
    import jax.numpy as jnp
    from genjax import DiscreteHMM, DiscreteHMMConfiguration, forward_filtering_backward_sampling
    N, kt, ko, st, so = cfg
    base = dict(cfg=list(cfg), N=N, T=T)
    try:
        config = DiscreteHMMConfiguration(jnp.array(N), jnp.array(kt), jnp.array(ko), jnp.array(st), jnp.array(so))
        tt = np.asarray(config.transition_tensor(), dtype=np.float64)
        ot = np.asarray(config.observation_tensor(), dtype=np.float64)
    except Exception as ex:
        return dict(error=f"cannot build configuration {cfg}: {type(ex).__name__}: {str(ex)[:200]}", cases=[], wall=0)
    A = _softmax_rows(tt)
    B = _softmax_rows(ot)
    pi = A[int(N / 2)]          # the model's initial distribution: softmax of row N/2 of the transition tensor
    tabs = dict(pi=[_sf(x) for x in pi], A=[[_sf(x) for x in r] for r in A], B=[[_sf(x) for x in r] for r in B])
    obs_all = np.array(list(itertools.product(range(N), repeat=T)), dtype=np.int32)       # lexicographic
    z_all = obs_all.copy()
    M = len(z_all)
    pw = np.array([N ** (T - 1 - t) for t in range(T)], dtype=np.int64)
    cfg_hash = sum((i + 1) * int(round(float(x) * 1000)) for i, x in enumerate(cfg)) % (2 ** 31 - 1)
    key = jax.random.fold_in(jax.random.fold_in(jax.random.key(seed), cfg_hash), T)   # independent of the task order
    k_est, k_rw, k_ffbs = jax.random.split(key, 3)

    def guarded(f):
        try:
            return "ok", f()
        except Exception as ex:   # exceptions are data
            return "raised:" + type(ex).__name__, repr(ex)[:300]

    # No jax.jit around the calls: the configuration's fields are (beartype-enforced) jnp arrays and the code does
    # int(config.linear_grid_dim / 2), which cannot be staged.  vmap over keys / sequences / observations is fine.
    # estimate_logpdf for every (obs, z)
    def f_post():
        g = jax.vmap(jax.vmap(lambda z, o: DiscreteHMM.estimate_logpdf(k_est, z, config, o), in_axes=(0, None)),
                     in_axes=(None, 0))
        return np.asarray(g(jnp.asarray(z_all), jnp.asarray(obs_all)), dtype=np.float64)     # [obs, z]

    def f_data():
        g = jax.vmap(lambda o: DiscreteHMM.data_logpdf(config, o))
        return np.asarray(g(jnp.asarray(obs_all)), dtype=np.float64)

    def f_rw():
        keys = jax.random.split(k_rw, ns)
        g = jax.vmap(jax.vmap(lambda k, o: DiscreteHMM.random_weighted(k, config, o), in_axes=(0, None)),
                     in_axes=(None, 0))
        w, z = g(keys, jnp.asarray(obs_all))                  # [obs, ns], [obs, ns, T]
        return np.asarray(w, dtype=np.float64), np.asarray(z)

    def f_ffbs():
        keys = jax.random.split(k_ffbs, ns)
        g = jax.vmap(jax.vmap(lambda k, o: forward_filtering_backward_sampling(k, config, o)[1][0], in_axes=(0, None)),
                     in_axes=(None, 0))
        return np.asarray(g(keys, jnp.asarray(obs_all)))

    post_st, post = guarded(f_post)
    data_st, data = guarded(f_data)
    rw_st, rw = guarded(f_rw)
    ffbs_st, ffbs = guarded(f_ffbs)
    errs = {k: v for k, (s, v) in dict(post=(post_st, post), data=(data_st, data), rw=(rw_st, rw), ffbs=(ffbs_st, ffbs)).items()
            if s != "ok"}
    cases = []
    for oi, o in enumerate(obs_all):
        r = dict(base)
        r.update(tabs)
        r["n"] = n0 + oi + 1
        r["obs"] = [int(x) + 1 for x in o]
        r["ns"] = ns
        r["post_st"], r["post"] = post_st, []
        r["data_st"], r["data"] = data_st, [0, 0]
        r["rw_st"], r["rw"] = rw_st, []
        r["rwc_st"], r["rw_counts"] = rw_st, []
        r["ffbs_st"], r["ffbs_counts"] = ffbs_st, []
        if post_st == "ok":
            r["post"] = [_sf(math.exp(x)) for x in post[oi]]
        if data_st == "ok":
            r["data"] = _sf(math.exp(data[oi]))
        if rw_st == "ok":
            w, z = rw
            idx = (z[oi].astype(np.int64) * pw).sum(axis=1)
            if z[oi].min() < 0 or z[oi].max() >= N:
                r["rwc_st"] = "raised:OutOfRangeState"
            else:
                r["rw_counts"] = [int(c) for c in np.bincount(idx, minlength=M)]
            # the weight returned with a draw against estimate_logpdf of that draw (implementation vs itself)
            if post_st == "ok":
                take = range(0, ns, max(1, ns // 16))
                r["rw"] = [[int(idx[j]) + 1, _fx(w[oi][j]), _fx(post[oi][int(idx[j])])] for j in take
                           if 0 <= idx[j] < M]
            else:
                r["rw_st"] = "skipped"
        if ffbs_st == "ok":
            idx = (ffbs[oi].astype(np.int64) * pw).sum(axis=1)
            if ffbs[oi].min() < 0 or ffbs[oi].max() >= N:
                r["ffbs_st"] = "raised:OutOfRangeState"
            else:
                r["ffbs_counts"] = [int(c) for c in np.bincount(idx, minlength=M)]
        cases.append(r)
    return dict(error=None, cases=cases, wall=time.time() - t0, errs=errs, cfg=list(cfg), T=T)


ROLE_A_CFG = """CONSTANTS MaxT = {maxt}
SPECIFICATION Spec
INVARIANT FFBSIsPosterior
INVARIANT PosteriorSumsToOne
INVARIANT FFBSSumsToOne
INVARIANT ForwardIsEvidence
CHECK_DEADLOCK FALSE
"""
TRACE_CFG = """CONSTANTS MaxT = 0
SPECIFICATION TraceSpec
INVARIANT Done
CHECK_DEADLOCK FALSE
"""


def run(prop_id, tier, seed, replay=None):
    cfgs = _configs(tier)
    if replay:      # read before the work directory (which may contain the replay file) is recreated
        with open(replay) as f:
            r = json.load(f)
        cfgs = [tuple(r["detail"]["case"]["cfg"])]
        seed = int(r.get("seed", seed))
    rep = vlib.Report(prop_id, tier, seed)
    wd = vlib.workdir(prop_id)
    maxT = 3 if tier == "quick" else 4
    ns = 4096 if tier == "quick" else 16384
    tasks = []
    n0 = 0
    for ci, c in enumerate(cfgs):
        for T in range(1, maxT + 1):
            if c[0] ** T > 256:
                continue
            tasks.append((ci, c, T, seed, ns, n0))
            n0 += c[0] ** T
    # one process per (configuration, T): tracing/compiling dominates, so parallelism beats sharing the jax import;
    # beyond 16 tasks (thorough) the lengths of one configuration share a process
    if len(tasks) <= vlib.NCPU:
        groups = [[t] for t in sorted(tasks, key=lambda t: -(t[1][0] ** t[2]))]
    else:
        by_cfg = {}
        for t in tasks:
            by_cfg.setdefault(t[0], []).append(t)
        groups = sorted(by_cfg.values(), key=lambda g: -sum(t[1][0] ** t[2] for t in g))
    import concurrent.futures as cf
    ex = cf.ProcessPoolExecutor(max_workers=min(vlib.NCPU, len(groups)), mp_context=mp.get_context("spawn"))
    futs = [ex.submit(_cfg_task, g) for g in groups]
    # ---- role A ------------------------------------------------------------
    cfgA = os.path.join(wd, "MC_HMM.cfg")
    with open(cfgA, "w") as f:
        f.write(ROLE_A_CFG.format(maxt=3 if tier == "quick" else 4))
    try:
        a = vlib.run_tlc("HMM", cfgA, wd, tag="roleA", workers=4, timeout=1200)
    except BaseException:
        ex.shutdown(wait=False, cancel_futures=True)
        raise
    rep.add_tlc(a)
    rep.extra["roleA"] = dict(states=a.distinct, generated=a.generated, wall_s=round(a.wall, 1),
                              invariants=["FFBSIsPosterior", "PosteriorSumsToOne", "FFBSSumsToOne", "ForwardIsEvidence", "ASSUME FloatSanity"],
                              scope="4 dyadic tables (N=3,3,2,3; one strongly asymmetric), every observation sequence of length <= MaxT")
    cases = []
    errs_seen = {}
    try:
        for fu in cf.as_completed(futs, timeout=1500 if tier == "quick" else 5400):
            for r in fu.result():
                if r["error"]:
                    raise vlib.MachineryError(r["error"])
                cases += r["cases"]
                for k, v in r["errs"].items():
                    errs_seen.setdefault(k, v)
    except cf.TimeoutError:
        ex.shutdown(wait=False, cancel_futures=True)
        raise vlib.MachineryError("HMM driver timed out")
    ex.shutdown(wait=True)
    cases.sort(key=lambda c: c["n"])
    # ---- role D ------------------------------------------------------------
    log_path = os.path.join(wd, "cases.json")
    vlib.write_json(log_path, cases)
    cfgD = os.path.join(wd, "Trace_HMM.cfg")
    with open(cfgD, "w") as f:
        f.write(TRACE_CFG)
    d = vlib.run_tlc("HMM", cfgD, wd, tag="roleD", workers=1, env={"TRACE_FILE": log_path}, timeout=1800)
    rep.add_tlc(d)
    summ = list(d.payloads("SUMMARY"))
    if not summ or summ[-1].get("cases") != len(cases):
        raise vlib.MachineryError(f"trace validation did not consume the whole log: {summ[-1:]} vs {len(cases)}")
    by_n = {c["n"]: c for c in cases}
    for v in d.payloads("VERDICT"):
        c = by_n[v["n"]]
        parts = v["clause"].split(".")
        clause = ".".join(parts[:2])
        op = parts[2] if len(parts) > 2 else ""
        sig = dict(clause=clause, op=op, N=c["N"], T=c["T"])
        if clause == "C37.run":
            st = {"estimate_logpdf": c["post_st"], "data_logpdf": c["data_st"],
                  "random_weighted": c["rw_st"] if c["rw_st"].startswith("raised") else c["rwc_st"],
                  "ffbs": c["ffbs_st"]}[op]
            sig["exc"] = st.split(":", 1)[1] if ":" in st else st
        else:
            sig["cfg"] = "-".join(str(x) for x in c["cfg"])
            sig["obs"] = "".join(str(x) for x in c["obs"])
        slim = {k: c[k] for k in ("n", "cfg", "N", "T", "obs", "post_st", "data_st", "rw_st", "rwc_st", "ffbs_st", "post", "data",
                                  "rw", "rw_counts", "ffbs_counts", "ns")}
        rep.violation(sig, dict(case=slim, verdict=v, exception=errs_seen))
    # ---- evidence ----------------------------------------------------------
    rep.evaluations = len(cases)
    rep.traces = len(cases)
    ran = dict(estimate_logpdf=0, data_logpdf=0, random_weighted=0, ffbs=0)
    for c in cases:
        ran["estimate_logpdf"] += c["post_st"] == "ok"
        ran["data_logpdf"] += c["data_st"] == "ok"
        ran["random_weighted"] += c["rwc_st"] == "ok"
        ran["ffbs"] += c["ffbs_st"] == "ok"
        if c["T"] >= 2 and (c["post_st"] == "ok" or c["ffbs_st"] == "ok"):
            rep.nontrivial.add((tuple(c["cfg"]), tuple(c["obs"])))
    for c in cases[:: max(1, len(cases) // 3)]:
        rep.sample({k: c[k] for k in ("cfg", "obs", "post_st", "data_st", "rw_st", "ffbs_st", "data", "ffbs_counts")} |
                   {"post_first3": c["post"][:3], "A_row1": c["A"][0]})
    rep.exhaustive = False      # sequences are enumerated, configurations and samples are not
    rep.extra.update(
        enumerated_scope=f"every observation sequence of length <= {maxT} for each listed configuration; every latent sequence",
        configurations=[list(c) for c in cfgs], samples_per_case=ns, operations_ran=ran,
        exceptions={k: v for k, v in errs_seen.items()},
        trace_summary=summ[-1],
        tolerance="relative 2 % on probabilities (soft floats, 15-bit mantissa); weight vs estimate_logpdf within 2/256 nat; "
                  "Hoeffding band b/ns with 2 b^2 >= ns ln(2M/1e-12)",
    )
    rep.rule = ("cases = (configuration, observation sequence); all sequences enumerated; non-trivial = T >= 2 and at least one of "
                "estimate_logpdf / forward_filtering_backward_sampling ran")
    rep.assumptions = [
        "input tables pi, A, B are the float64 softmax of config.transition_tensor() / observation_tensor(); pi is row N/2 of A",
        "TLA+ arithmetic is 15-bit soft float; clauses use 2 % relative tolerance",
        "sigma > 0; adjacency distances on both sides of N/2 (symmetric and asymmetric circulant tables); DiscreteHMMConfiguration fields must be jnp arrays",
    ]
    return rep.finish()
