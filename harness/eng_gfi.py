"""GFI family (C01-C08, C10-C16, C22, C23, C32, C34, C35, C38): TLC generates histories of GFI
requests over the program catalogue (spec/GFIGen.tla), the driver executes them on the real
genjax (harness/gfi_driver.py) and TLC validates every logged event against the laws of
spec/GFILaws.tla (spec/GFITrace.tla).  Each property owns a slice of programs / operations and a
set of clauses."""

from __future__ import annotations

import json
import multiprocessing as mp
import os
import subprocess
import time

from . import vlib

CORE = ["visited", "score", "ret", "args", "run", "reuse", "selfassess.run", "selfassess.score", "selfassess.ret",
        "gen.agree", "gen.weight", "upd.args", "upd.constrained", "upd.kept", "upd.weight", "upd.discard",
        "project.value", "project.split", "regen.unselected", "regen.weight", "regen.empty", "idx.local", "ret.returned"]
TRC = ["visited", "score", "ret"]      # the new trace is the execution its choices describe (needed to see stale scores)
UPD = ["upd.args", "upd.constrained", "upd.kept", "upd.weight", "upd.discard", "run"] + TRC

ALLP = ["D0", "SOne", "SChain", "SIndep", "SNest", "SLit", "S2", "VmD", "VmS", "VmAx", "VmAx2", "VmMask", "Rep", "Rep3",
        "Sc1", "Sc2", "Sc3", "ScSw", "SwXY", "SwSame", "Sw3", "SSw", "SVm", "Msk", "MskD", "Dm", "Dm2", "DmMap", "DmCon",
        "DmSc", "OrE", "MixE", "Acc", "Red", "It", "ItF", "MIt", "MItF", "MItF1"]
FAST = ["VmAx1", "STup3", "SNest2", "DmX", "DmDm", "D0", "SOne", "SChain", "SIndep", "SNest", "SLit", "S2", "SDm", "MskSw", "VmSw", "SwN", "VmD", "VmS", "VmAx", "VmAx2", "VmMask", "Rep", "Rep3",
        "SwXY", "SwSame", "Sw3", "SSw", "SVm", "Msk", "MskD", "Dm", "Dm2", "DmMap", "DmCon", "OrE", "MixE"]
SLOW = ["Sc1", "Sc2", "Sc3", "ScSw", "DmSc", "Acc", "Red", "It", "ItF"]    # masked-iterate programs belong to C16 only
EAGER = ["STup3", "SNest2", "DmX", "DmDm", "CloPK", "CloPK2", "Clo1", "Clo2", "Clo0", "CloP", "CloK", "D0", "SOne", "SChain", "SIndep", "SNest", "SLit", "S2", "SDup", "Dm", "Dm2", "DmMap", "DmCon", "Msk", "MskD"]
EAGER_ND = [x for x in EAGER if x != "SDup"]
REGEN = ["STup3", "SNest2", "DmX", "DmDm", "D0", "SOne", "SChain", "SIndep", "SNest", "S2", "SDm", "Dm", "Dm2", "DmMap", "DmCon", "DmK"]
REGEN_SLOW = ["Sc1", "Sc2", "DmSc", "It"]
PROJ = ["D0", "SOne", "SChain", "SIndep", "SNest", "S2", "VmD", "VmS", "VmAx", "Rep", "SwXY", "SwSame", "Sw3", "SSw", "SVm",
        "Dm", "Dm2", "OrE", "MixE"]
PROJ_SLOW = ["Sc1", "Sc2", "DmSc"]


def _t(text, ref, note="Trusted: TLC; the term->genjax builder and the projection (public lookups only); "
       "bounded catalogue (depth<=2 combinators, n<=3, values 0..2)."):
    return dict(spec="GFI, GFILaws, GFIGen, GFITrace", category="model_checking", design_ref=ref,
                technique="TLA+ abstract machine of the GFI (GFI*.tla); TLC generates request histories, the real genjax "
                          "executes them, TLC validates every logged event against the spec's laws (trace validation)",
                text=text, note=note)


# property -> profile.  gens: list of generation runs (ids, first, edits, depth, n, [sub=True for bounded-exhaustive]).
PROFILES = {
    "C01": dict(own=["selfassess.run", "selfassess.score", "selfassess.ret"],
                gens=[dict(ids=FAST, first=["simulate", "generate"], edits=["update", "update", "updateargs", "regenerate", "indexupdate", "indexregen", "empty", "staticreq"], depth=3, n=(128, 2400)),
                      dict(ids=SLOW, first=["simulate", "generate"], edits=["update", "updateargs", "regenerate", "indexupdate", "indexregen"], depth=2, n=(24, 600))]),
    "C02": dict(own=["score", "ret", "visited", "assess.value", "assess.run"],
                gens=[dict(ids=FAST, first=["simulate", "generate"], edits=["update", "updateargs", "regenerate", "indexupdate", "assess", "assess"], depth=2, n=(128, 2400)),
                      dict(ids=SLOW, first=["simulate", "generate"], edits=["update", "updateargs"], depth=1, n=(24, 600))]),
    "C03": dict(own=["gen.agree", "gen.weight", "run", "args"],
                gens=[dict(ids=EAGER_ND + ["VmD", "SwXY"], ids_thorough=FAST, first=["generate"], edits=[], depth=0, n=(0, 0), sub=True),
                      dict(ids=FAST, first=["generate", "generatemask"], edits=[], depth=0, n=(96, 2000)),
                      dict(ids=SLOW, first=["generate"], edits=[], depth=0, n=(24, 600))]),
    "C05": dict(own=UPD,
                gens=[dict(ids=FAST, first=["simulate", "generate"], edits=["update", "update", "updateargs", "updatemask"], depth=3, n=(128, 2400)),
                      dict(ids=SLOW, first=["simulate"], edits=["update", "updateargs"], depth=2, n=(24, 500))]),
    "C06": dict(own=["undo.run", "undo.restore", "undo.weight"],
                gens=[dict(ids=FAST, first=["simulate", "generate"], edits=["update", "updateargs", "regenerate", "indexupdate", "indexregen", "staticreq", "diffannotate", "empty"], depth=3, n=(128, 2400)),
                      dict(ids=SLOW, first=["simulate"], edits=["update", "regenerate", "indexupdate", "indexregen"], depth=2, n=(24, 500))]),
    "C07": dict(own=["regen.unselected", "regen.weight", "regen.empty", "upd.args", "regen.prior", "regen.total", "regen.others", "regen.run"] + TRC,
                gens=[dict(ids=REGEN, first=["simulate", "generate"], edits=["regenerate", "regenerate", "regenerate", "update"], depth=3, n=(128, 2400)),
                      dict(ids=REGEN_SLOW + ["Sc2", "Sc2"], first=["simulate"], edits=["regenerate"], depth=2, n=(48, 500))]),
    "C08": dict(own=["nochange", "tagging", "tagging.run"],
                gens=[dict(ids=["SLit", "SLit", "SOne", "SChain", "SNest", "S2", "S2", "Dm", "Dm2", "DmMap", "DmCon", "Msk", "VmS", "VmAx", "SwSame", "SVm", "OrE", "OrE", "MskSw", "SDm"], ids_thorough=FAST + ["SLit", "S2", "Dm2"],
                           first=["simulate", "generate"], edits=["update", "update", "update", "updateargs", "regenerate", "staticreq", "empty"], depth=3, n=(160, 2400)),
                      dict(ids=SLOW, first=["simulate"], edits=["update", "updateargs", "indexupdate"], depth=2, n=(24, 500))]),
    "C10": dict(own=["project.value", "project.split", "run"],
                gens=[dict(ids=PROJ, first=["simulate", "generate"], edits=["project", "project", "project", "update"], depth=4, n=(128, 2400)),
                      dict(ids=PROJ_SLOW, first=["simulate"], edits=["project"], depth=3, n=(30, 300))]),
    "C11": dict(own=CORE,
                gens=[dict(ids=["VmD", "VmS", "VmAx", "VmAx2", "VmMask", "Rep", "Rep3", "SVm", "VmSw", "VmZ", "RepZ", "VmAx1", "VmAx1"], first=["simulate", "generate"], edits=["update", "updateargs", "indexupdate", "indexregen", "project"], depth=3, n=(128, 2400)),
                      dict(ids=["VmD", "Rep3"], ids_thorough=["VmD", "VmS", "Rep", "Rep3", "VmAx"], first=["generate"], edits=[], depth=0, n=(0, 0), sub=True)]),
    "C12": dict(own=CORE,
                gens=[dict(ids=["Sc1", "Sc2", "Sc3", "DmSc", "Acc", "Red", "It", "ItF", "ScV", "ScV3"], first=["simulate", "generate"], edits=["update", "updateargs", "regenerate", "indexupdate", "indexregen"], depth=2, n=(80, 1100)),
                      dict(ids=["ScZ", "ItZ", "ItFZ"], first=["simulate", "generate"], edits=["update", "updateargs"], depth=1, n=(12, 60))]),
    "C13": dict(own=CORE,
                gens=[dict(ids=["SwXY", "SwSame", "Sw3", "SwN", "SSw", "OrE", "MixE", "MskSw", "VmSw"], first=["simulate", "generate"], edits=["update", "update", "updateargs", "project"], depth=3, n=(128, 2400)),
                      dict(ids=["SwXY", "SwSame"], ids_thorough=["SwXY", "SwSame", "OrE", "MixE", "Sw3"], first=["generate"], edits=[], depth=0, n=(0, 0), sub=True)]),
    "C14": dict(own=CORE,
                gens=[dict(ids=["Msk", "MskD", "VmMask", "MskSw"], first=["simulate", "generate"], edits=["update", "updateargs", "updateargs", "updatemask"], depth=3, n=(128, 2400))]),
    "C15": dict(own=CORE + ["nochange"],
                gens=[dict(ids=["Dm", "Dm2", "DmMap", "DmCon", "DmK", "DmK", "SDm", "DmX", "DmX", "DmDm", "DmDm"], first=["simulate", "generate"], edits=["update", "updateargs", "updateargs", "regenerate", "project"], depth=3, n=(128, 2400)),
                      dict(ids=["DmSc"], first=["simulate"], edits=["update", "updateargs"], depth=2, n=(16, 200))]),
    "C16": dict(own=CORE,
                gens=[dict(ids=["MIt", "MItF", "MItF1"], first=["simulate", "generate"], edits=["update", "updateargs"], depth=1, n=(64, 600))]),
    "C22": dict(own=["visited", "reuse", "run", "missing", "assess.run"],
                gens=[dict(ids=["SOne", "SChain", "SIndep", "SNest", "SLit", "S2", "SDup", "SDup", "SSw", "SVm", "STup3", "STup3"], first=["simulate", "generate"], edits=["update", "regenerate", "staticreq", "assess", "assess", "assess"], depth=3, n=(160, 2000))]),
    "C23": dict(own=["mode.status", "mode.same"], modes=True,
                gens=[dict(ids=[x for x in FAST if x not in ("SLit",)] + ["VmNest"], first=["simulate", "generate"], edits=["update", "update", "updateargs", "regenerate", "project"], depth=2, n=(48, 1500)),
                      dict(ids=SLOW, first=["simulate", "generate"], edits=["update", "regenerate", "indexupdate"], depth=1, n=(8, 300)),
                      dict(ids=["SwSame", "SwN", "SwXY", "MskSw", "Msk"], first=["simulate", "generate"], edits=["update", "updateargs"], depth=1, n=(32, 300), concrete=True)]),   # Python int / bool arguments: eager short-cuts vs traced paths
    "C32": dict(own=CORE + ["derived.run", "derived.same", "undo.run", "undo.restore", "undo.weight"],
                gens=[dict(ids=["Clo1", "Clo2", "Clo0", "CloP", "CloK", "CloPK", "CloPK2", "CloSw", "CloVm"], first=["simulate", "generate"],
                           edits=["update", "update", "updateargs", "regenerate", "project", "assess"], depth=3, n=(120, 1500))]),
    "C34": dict(own=["subtrace.choices", "subtrace.score", "run"],
                gens=[dict(ids=["SOne", "SChain", "SIndep", "SNest", "S2", "VmS", "VmAx", "Rep", "Msk", "Dm", "Dm2", "SwXY", "SwSame", "Sw3", "STup3"], first=["simulate", "generate"], edits=["subtrace", "subtrace", "update", "updateargs"], depth=3, n=(128, 2000)),
                      dict(ids=["Sc1", "Sc2", "Sc3"], first=["simulate"], edits=["subtrace"], depth=2, n=(24, 300))]),
    "C35": dict(own=["mask.equiv", "mask.run", "gen.agree", "gen.weight", "upd.constrained", "upd.kept", "upd.weight", "run"],
                gens=[dict(ids=[x for x in FAST if x not in ("SwXY", "Sw3", "SSw", "OrE", "MixE")], first=["generatemask"], edits=["updatemask", "updatemask", "update"], depth=2, n=(128, 2400)),
                      dict(ids=["Sc1", "Sc2", "Acc"], first=["generatemask"], edits=["updatemask"], depth=1, n=(24, 300)),
                      dict(ids=["SSw", "MixE"], first=["generatemask"], edits=["updatemask", "updatemask"], depth=2, n=(32, 300))]),   # a masked constraint on the site that feeds a switch index
    "C38": dict(own=["derived.run", "derived.same", "empty.identity", "static.others", "upd.constrained", "upd.args", "nochange"] + TRC,
                gens=[dict(ids=FAST + ["SNest", "SNest2", "SNest2", "SDm", "SSw", "SVm", "STup3"], first=["simulate", "generate"], edits=["update", "regenerate", "empty", "empty", "staticreq", "staticreq", "diffannotate"], depth=3, n=(128, 2400)),
                      dict(ids=SLOW, first=["simulate", "generate"], edits=["update", "empty"], depth=1, n=(24, 400))]),
}

PROPS = {
    "C01": _t("Every trace produced by simulate / importance / update / every accepted edit kind in TLC-generated histories over the whole catalogue is re-assessed by the implementation on its own choices and arguments; TLC checks score and return value agree (and, via GFILaws, that both equal the denotational Exec).", "§5 C01"),
    "C02": _t("For every trace event TLC recomputes the joint log-density with the denotational semantics Exec (fingerprint densities make the comparison exact: a dropped, duplicated or mis-attributed term changes a base-32 digit) and compares score, return value and the set of visited addresses.", "§5 C02"),
    "C03": _t("importance on every catalogue program with every subset of the address universe constrained (bounded-exhaustive, <=6 addresses) plus random and masked constraints: agreement with the constraint and weight = sum of Exec's per-choice log-densities over the constrained present addresses.", "§5 C03"),
    "C05": _t("update histories (constraints, argument changes, honest taggings, masked constraints): new arguments, constrained values installed, other values kept unless under a switch whose index is honestly tainted (spec-level change analysis Chg), weight = score difference whenever no fresh choice, discard = previous values at overwritten addresses.", "§5 C05"),
    "C06": _t("After every accepted edit (update, regenerate, index, static, empty, diffannotate) the returned backward request is applied with the original argument values; TLC checks the original choices/score/return value are restored and the weight is negated.", "§5 C06"),
    "C07": _t("Regenerate with TLC-generated selections (atoms, wildcards, complements, unions) on programs that accept it: unselected choices unchanged, weight = new - old score, empty selection is the identity, the new trace is the execution its choices describe (stale scores show here); plus a sampling clause on dyadic categorical programs: over N keys the regenerated value follows the prior given the CURRENT parent values (Hoeffding bound decided by TLC).", "§5 C07"),
    "C08": _t("Every retdiff leaf tagged NoChange (or not a Diff) must equal the previous return value's leaf, on every edit event of the histories; and every edit is re-run with the same key under every other honest tagging of its unchanged arguments (each non-empty subset tagged UnknownChange): same new trace and weight unless the spec's change analysis says that tagging reaches a switch index.", "§5 C08"),
    "C10": _t("project on traces of programs whose combinators implement it, for TLC-generated selections: value = sum of Exec's log-densities over selected addresses (static part), and project(S)+project(~S)=score.", "§5 C10"),
    "C11": _t("All core laws on vmap/repeat programs (in_axes variants, nested static, masked elements) including index edits; Exec defines vmap as n independent element executions under index i.", "§5 C11"),
    "C12": _t("All core laws on scan and accumulate/reduce/iterate/iterate_final programs (scalar and vector-valued step outputs, zero-length scans and iterates), specified directly by their documented loops in Exec, after generate/update/regenerate/index edits; the value an edit returns to its caller equals the new trace's return value; role A on the operational Scan.edit_update rule (GFIOps), which also derives finding KF-C05-2 in the model.", "§5 C12"),
    "C13": _t("All core laws on switch / or_else / mix programs with in- and out-of-range indices, heterogeneous and shared branch addresses.", "§5 C13"),
    "C14": _t("All core laws on mask programs: flag transitions in updates, masked-off executions are empty with score 0 and an invalid return value.", "§5 C14"),
    "C15": _t("All core laws on dimap/map/contramap programs plus soundness of the return-value tag after argument changes.", "§5 C15"),
    "C16": _t("masked_iterate / masked_iterate_final against the reference loop in which a False step is inert (no score; value unchanged for the final variant).", "§5 C16"),
    "C22": _t("Static programs incl. tuple addresses and a duplicated address: visited addresses = trace addresses, AddressReuse where a trace is built.", "§5 C22"),
    "C23": _t("Every generated history is executed eagerly and under jax.jit (whole GFI call jitted; keys, arguments, constraint values, indices and traces traced) with the same keys, and its first operation and first update/regenerate also under jax.vmap over 3 keys and constraint values; TLC checks each event's eager and jit results coincide and each vmap slice equals the unbatched call (and that a mode does not fail where the other succeeds). All events are also validated against the spec laws.", "§5 C23"),
    "C32": _t("Closures gen_fn(*stored), gen_fn(**stored keywords) and partial_apply(*stored) over static, switch and vmap functions: every GFI method (simulate, importance, assess, project, update and edit THROUGH the closure object, applying its backward request) must satisfy the laws of the underlying program run on stored+extra arguments (Exec of the closure term), and give the same result as the underlying function called with the full arguments and the same key.", "§5 C32"),
    "C34": _t("get_subtrace at every call-site address of static programs (also under vmap/repeat/scan/mask/dimap, where the sub-trace is the stacked one): choices = the parent's sub-map at that address below the leading index levels, score = that call's contribution in Exec.", "§5 C34"),
    "C35": _t("importance and update with Mask-wrapped constraint values (concrete Python flags and traced array flags): validated against the spec with the EFFECTIVE constraint (False entries removed), and differentially against the same request with True masks unwrapped and False entries dropped, run with the same key.", "§5 C35"),
    "C38": _t("propose vs simulate, generate vs importance, Trace.update/edit vs request.edit with the same key; EmptyRequest identity; StaticRequest leaves unaddressed sites alone; DiffAnnotate with identity maps equals its inner request.", "§5 C38"),
}


# ----------------------------------------------------------------------------

def _mc_module(wd, name, consts):
    """write a wrapper module that defines sequence-valued constants (cfg files cannot)."""
    lines = [f"---- MODULE {name} ----", "EXTENDS GFIGen"]
    for k, v in consts.items():
        lines.append(f"c{k} == << " + ", ".join(json.dumps(x) for x in v) + " >>")
    lines.append("====")
    with open(os.path.join(wd, name + ".tla"), "w") as f:
        f.write("\n".join(lines) + "\n")


def _cfg(wd, name, spec, inv, depth, seed, nchains, nper):
    with open(os.path.join(wd, name + ".cfg"), "w") as f:
        f.write("CONSTANTS\n ProgIds <- cProgIds\n FirstOps <- cFirstOps\n EditOps <- cEditOps\n"
                f" Depth = {depth}\n Seed = {seed}\n NChains = {nchains}\n NPerChain = {nper}\n"
                f"SPECIFICATION {spec}\nINVARIANT {inv}\nCHECK_DEADLOCK FALSE\n")


JVM_LIB = ["-DTLA-Library=" + vlib.SPEC]


ROLE_A = {   # property -> (invariants of spec/GFIMachine.tla, quick program set, thorough program set)
    "C05": (["TraceConsistent", "UpdateEnabled", "UpdateIdentity"], ["SChain", "SwSame"], ["SChain", "SwXY", "SwSame", "Msk", "Dm", "VmD", "Sc1", "MItF", "OrE", "S2"]),
    "C06": (["UndoRestores", "UpdateEnabled"], ["SChain", "SwSame", "Msk"], ["SChain", "SwXY", "SwSame", "Msk", "Dm", "VmD", "Sc1", "MItF", "OrE", "S2"]),
    "C10": (["TraceConsistent", "ProjectSplits"], ["SChain", "SwXY", "VmD"], ["SChain", "SwXY", "SwSame", "Msk", "Dm", "VmD", "Sc1", "OrE", "S2", "SNest"]),
}


def role_a(prop_id, wd, tier, rep):
    """model-check the abstract machine itself (spec/GFIMachine.tla) for the invariants this property rests on"""
    if prop_id not in ROLE_A:
        return
    invs, quick, thorough = ROLE_A[prop_id]
    progs = quick if tier == "quick" else thorough
    with open(os.path.join(wd, "MCmachine.tla"), "w") as f:
        f.write("---- MODULE MCmachine ----\nEXTENDS GFIMachine\ncProgs == {" + ", ".join(json.dumps(x) for x in progs) +
                "}\ncVals == {0, 2}\n====\n")
    with open(os.path.join(wd, "MCmachine.cfg"), "w") as f:
        f.write("CONSTANTS ProgSet <- cProgs\n ConsVals <- cVals\nSPECIFICATION Spec\n" +
                "".join(f"INVARIANT {i}\n" for i in invs) + "CHECK_DEADLOCK FALSE\n")
    res = vlib.run_tlc("MCmachine", os.path.join(wd, "MCmachine.cfg"), wd, spec_dir=wd, jvm=JVM_LIB + ["-Xss64m"], tag="roleA", timeout=3000)
    rep.add_tlc(res)
    rep.extra["role_A"] = {"module": "GFIMachine", "invariants": invs, "programs": progs, "distinct_states": res.distinct,
                           "states_generated": res.generated, "result": "no invariant violated"}


OPS_A = {   # property -> (invariants of spec/GFIOps.tla, quick program set, thorough program set)
    "C05": (["Consistent", "RefinesLaws"], ["SChain", "MskD", "SwSame"], ["D0", "SChain", "MskD", "Msk", "SwSame", "SwXY", "SSw", "MskSw"]),
    "C06": (["UndoRestores"], ["MskD", "SwSame"], ["D0", "SChain", "MskD", "Msk", "SwSame", "SwXY", "SSw", "MskSw"]),
    "C14": (["Consistent", "RefinesLaws", "UndoRestores"], ["MskD"], ["MskD", "Msk", "MskSw"]),
    "C11": (["Consistent", "RefinesLaws", "UndoRestores"], ["VmD"], ["VmD", "Rep3"]),   # elementwise vmap/repeat rules, PV {0,1}
}
OPS_A["C12"] = (["Consistent", "RefinesLaws", "UndoRestores"], ["Sc2"], ["Sc1", "Sc2", "Sc3"])   # Scan.edit_update loop rule
OPS_A["C07"] = (["Consistent", "RegenRefines", "UndoRestores"], ["SChain"], ["SChain", "S2", "Sc2"])   # Distribution.edit_regenerate / RegenerateRequestHandler / Scan.edit_regenerate
OPS_PV = {"C11": "{0, 1}"}


def ops_a(prop_id, wd, tier, rep):
    """role A on the implementation-shaped operational model (spec/GFIOps.tla): its update rules refine the laws.
    In the thorough tier the two repaired defects are re-introduced as spec constants and TLC must find the
    counterexample (a vacuity guard for the invariants)."""
    if prop_id not in OPS_A:
        return
    invs, quick, thorough = OPS_A[prop_id]
    progs = quick if tier == "quick" else thorough

    def run(tag, mask_after, switch_zero, expect_ok, scan_retag="TRUE", progs=progs):
        with open(os.path.join(wd, f"MCops_{tag}.tla"), "w") as f:
            f.write(f"---- MODULE MCops_{tag} ----\nEXTENDS GFIOps\ncProgs == {{" + ", ".join(json.dumps(x) for x in progs) +
                    "}\ncPV == " + OPS_PV.get(prop_id, "{0, 2}") + "\n====\n")
        with open(os.path.join(wd, f"MCops_{tag}.cfg"), "w") as f:
            f.write("CONSTANTS OpsProgs <- cProgs\n PV <- cPV\n" + f" MaskBwdAfter = {mask_after}\n SwitchBwdZero = {switch_zero}\n ScanRetagsAll = {scan_retag}\nSPECIFICATION Spec\n" +
                    "".join(f"INVARIANT {i}\n" for i in (invs if expect_ok else ["RefinesLaws", "UndoRestores"])) + "CHECK_DEADLOCK FALSE\n")
        return vlib.run_tlc(f"MCops_{tag}", os.path.join(wd, f"MCops_{tag}.cfg"), wd, spec_dir=wd, jvm=JVM_LIB + ["-Xss64m"],
                            tag=f"ops_{tag}", timeout=3000, expect_ok=expect_ok)
    res = run("ok", "FALSE", "FALSE", True)
    rep.add_tlc(res)
    info = {"module": "GFIOps", "invariants": invs, "programs": progs, "distinct_states": res.distinct, "result": "no invariant violated"}
    if prop_id == "C12":
        # the scan rule as implemented (every kernel argument retagged UnknownChange) breaks LawUpdKept exactly on a
        # kernel containing a switch (finding KF-C05-2); with honest carry tags the same program refines the laws
        r = run("scansw_asimpl", "FALSE", "FALSE", False, "TRUE", ["ScSw"])
        if r.rc == 0:
            raise vlib.MachineryError("GFIOps: scan-of-switch with retagged arguments was accepted: RefinesLaws is vacuous on scan")
        r2 = run("scansw_honest", "FALSE", "FALSE", True, "FALSE", ["ScSw"])
        rep.add_tlc(r2)
        info["scan_of_switch"] = ("as implemented (ScanRetagsAll): counterexample to RefinesLaws = finding KF-C05-2; "
                                  f"with honest carry tags: {r2.distinct} states, no invariant violated")
    if tier == "thorough" and prop_id not in ("C11", "C12", "C07"):
        for tag, ma, sz in (("maskbwd", "TRUE", "FALSE"), ("switchbwd", "FALSE", "TRUE")):
            r = run(tag, ma, sz, False)
            if r.rc == 0:
                raise vlib.MachineryError(f"GFIOps with the seeded defect {tag} was accepted by TLC: the invariants are vacuous")
            info[f"defect_variant_{tag}"] = "counterexample found, as required"
    rep.extra["role_A_operational"] = info


def load_catalog(wd, rep=None):
    _mc_module(wd, "MCcat", {"ProgIds": [], "FirstOps": [], "EditOps": []})
    _cfg(wd, "MCcat", "SpecSub", "EmitCatalog", 0, 0, 1, 1)
    res = vlib.run_tlc("MCcat", os.path.join(wd, "MCcat.cfg"), wd, workers=1, spec_dir=wd, jvm=JVM_LIB, tag="catalog")
    cats = list(res.payloads("CATALOG"))
    if not cats:
        raise vlib.MachineryError("catalogue not emitted")
    if rep is not None:
        rep.add_tlc(res)
    return {e["id"]: e for e in cats[0]}


def generate(wd, gens, tier, seed, rep):
    cases = []
    for gi, g in enumerate(gens):
        name = f"MCgen{gi}"
        first = [f if f != "generatemask" else "generatemask" for f in g["first"]]
        ids = g.get("ids_thorough", g["ids"]) if tier == "thorough" else g["ids"]
        _mc_module(wd, name, {"ProgIds": ids, "FirstOps": first, "EditOps": g["edits"] or ["update"]})
        if g.get("sub"):
            _cfg(wd, name, "SpecSub", "EmitCase", g["depth"], seed % 60000, 1, 1)
        else:
            n = g["n"][0 if tier == "quick" else 1]
            if n <= 0:
                continue
            nchains = 64
            nper = max(1, (n + nchains - 1) // nchains)
            _cfg(wd, name, "SpecRand", "EmitCase", g["depth"], (seed * 7 + gi) % 60000, nchains, nper)
        res = vlib.run_tlc(name, os.path.join(wd, name + ".cfg"), wd, spec_dir=wd, jvm=JVM_LIB, tag=name, timeout=1200)
        rep.add_tlc(res)
        for c in res.payloads("CASE"):
            if g.get("concrete"):
                c["concrete"] = True
            cases.append(c)
    return cases


def _validate_one(args):
    wd, i, path = args
    cfg = os.path.join(wd, "trace.cfg")
    res = vlib.run_tlc("GFITrace", cfg, wd, workers=1, env={"TRACE_FILE": path}, tag=f"val{i}", timeout=1500,
                       jvm=["-Xss64m"], expect_ok=False)
    verdicts = list(res.payloads("VERDICT"))
    return i, res.rc, res.distinct, res.generated, verdicts, res.cmd, res.out_path


def validate(wd, events, rep):
    with open(os.path.join(wd, "trace.cfg"), "w") as f:
        f.write("SPECIFICATION TSpec\nINVARIANT Report\nCHECK_DEADLOCK FALSE\n")
    # keep histories together; split into NCPU files
    by_tid = {}
    for ev in events:
        by_tid.setdefault(ev["tid"], []).append(ev)
    tids = sorted(by_tid)
    NPART = 8
    parts = [[] for _ in range(NPART)]
    for j, t in enumerate(tids):
        parts[j % NPART].extend(sorted(by_tid[t], key=lambda e: e["seq"]))
    jobs = []
    for i, part in enumerate(parts):
        if not part:
            continue
        path = os.path.join(wd, f"events{i}.json")
        vlib.write_json(path, part)
        jobs.append((wd, i, path))
    from concurrent.futures import ThreadPoolExecutor
    fails = []
    with ThreadPoolExecutor(max_workers=8) as ex:
        for i, rc, distinct, generated, verdicts, cmd, out_path in ex.map(_validate_one, jobs):
            if rc != 0 or not verdicts:
                tail = subprocess.run(["tail", "-n", "30", out_path], capture_output=True, text=True).stdout
                raise vlib.MachineryError(f"trace validation run {i} failed rc={rc}\n{tail}")
            rep.states += distinct
            rep.transitions += generated
            if i == jobs[0][1]:
                rep.checker_cmds.append(cmd)
            n = sum(v["n"] for v in verdicts)
            if n != len(parts[i]):
                raise vlib.MachineryError(f"trace validation run {i} consumed {n} of {len(parts[i])} events")
            for v in verdicts:
                fails.extend(v["fails"])
    return fails


def run_driver(catalog, cases, mode="eager", want=("assess", "undo", "alt")):
    from . import gfi_driver
    for j, c in enumerate(cases):
        c["want"] = want
    for j, c in enumerate(cases):     # every 4th history passes Python ints / bools as arguments where it runs eagerly
        c.setdefault("concrete", (j // 3) % 4 == 1 and c["pid"] not in SLOW and c["pid"] not in ("MIt", "MItF", "MItF1"))
    for j, c in enumerate(cases):     # control-flow programs recompile on every eager call: run them jitted (cached), 1 in 8 eagerly
        c.setdefault("mode", "eager" if (c["pid"] in EAGER or j % 8 == 0) else "jit")
    by_pid = {}
    for tc in enumerate(cases):
        by_pid.setdefault(tc[1]["pid"], []).append(tc)
    chunks = []
    for pid, lst in by_pid.items():
        if pid not in EAGER:     # keep one program's histories in few workers: the jit cache is per process
            k = 1 if len(lst) <= 24 else (2 if len(lst) <= 60 else 4)
            step = (len(lst) + k - 1) // k
            chunks += [(0, lst[i:i + step]) for i in range(0, len(lst), step)]
        else:
            chunks += [(1, lst[i:i + 8]) for i in range(0, len(lst), 8)]
    chunks.sort(key=lambda c: (c[0], -len(c[1])))
    # tiny programs: XLA's expensive optimisation passes only cost compile time (set before workers import jax)
    os.environ.setdefault("XLA_FLAGS", "--xla_backend_optimization_level=0 --xla_llvm_disable_expensive_passes=true "
                                       "--xla_cpu_multi_thread_eigen=false intra_op_parallelism_threads=1")
    events = []
    npool = int(os.environ.get('VERIF_POOL', 8))
    mk = (lambda: mp.get_context('spawn').Pool(npool)) if not os.environ.get('VERIF_PIN') else (lambda: vlib.pinned_pool(npool))
    with mk() as pool:
        for out in pool.imap_unordered(gfi_driver.run_cases, [(catalog, ch, mode) for _, ch in chunks], chunksize=1):
            events.extend(out)
    return events


def sanitize(events):
    """events TLC can read: uniform fields, no lookup errors inside choice lists."""
    ok, bad = [], []
    for ev in events:
        if ev.get("seq", 0) < 0 or str(ev.get("status", "")).startswith("driver-error"):
            bad.append(ev)
            continue
        broken = False
        for t in (ev["pre"], ev["post"], ev["undo"]["post"], ev["alt"]["post"]):
            for c in t["choices"]:
                if isinstance(c[1], dict):
                    broken = True
        for c in ev["disc"]:
            if isinstance(c[1], dict):
                broken = True
        if broken:
            bad.append(ev)
            continue
        ev.pop("error", None)
        ev["undo"].pop("error", None)
        ok.append(ev)
    return ok, bad


def signature(prop_id, clause, ev, case):
    argchg = ev["pre"]["args"] != ev["post"]["args"] if ev.get("haspre") else False
    return {"clause": f"{prop_id}.{clause}", "pid": ev["pid"], "op": ev["op"], "sub": ev.get("sub", ""),
            "status": ev["status"], "undo": ev["undo"]["status"], "argchg": bool(argchg),
            "ncons": "some" if ev["cons"] else "none", "mode": ev.get("mode", "eager")}


def run(prop_id, tier, seed, replay=None):
    prof = PROFILES[prop_id]
    rep = vlib.Report(prop_id, tier, seed)
    replay_case = None
    if replay:           # read it before the work directory (which may contain it) is recreated
        with open(replay) as f:
            replay_case = json.load(f)["detail"]["case"]
    wd = vlib.workdir(prop_id)
    catalog = load_catalog(wd, rep)
    if not replay:
        role_a(prop_id, wd, tier, rep)
        ops_a(prop_id, wd, tier, rep)
    if replay:
        cases = [replay_case]
    else:
        cases = generate(wd, prof["gens"], tier, seed, rep)
    # de-duplicate identical cases
    seen, uniq = set(), []
    for c in cases:
        k = json.dumps(c, sort_keys=True)
        if k not in seen:
            seen.add(k)
            uniq.append(c)
    cases = uniq
    t0 = time.time()
    own = set(prof["own"])
    want = []
    if any(c.startswith("selfassess") for c in own):
        want.append("assess")
    if any(c.startswith("undo") for c in own):
        want.append("undo")
    if any(c.startswith("derived") for c in own):
        want.append("alt")
    if any(c.startswith("tagging") for c in own):
        want.append("tagvar")
    if any(c.startswith("mask.") for c in own):
        want.append("maskeq")
    if prof.get("modes"):
        # C23: every case in eager and in jit mode (same keys), plus the vmap routine; pair the events up
        base = cases
        cases = []
        for c in base:
            for m in ("eager", "jit", "vmap"):
                cases.append(dict(c, mode=m))
    events = run_driver(catalog, cases, want=want)
    if prof.get("modes"):
        byk = {(ev["tid"], ev["seq"]): ev for ev in events if ev.get("seq", 0) >= 0 and ev.get("mode") in ("eager", "jit")}
        for (tid, seq), ev in byk.items():
            if ev["mode"] == "eager" and tid % 3 == 0:
                other = byk.get((tid + 1, seq))
                if other is not None:
                    ev["altm"] = {"status": other["status"] if other["status"] == "ok" or not other["status"].startswith("rejected") else "rejected",
                                  "post": other["post"], "w": other["w"]}
                    if ev["status"].startswith("rejected") and other["status"].startswith("rejected"):
                        ev["altm"]["status"] = "none"
    drv_s = time.time() - t0
    def case_of(tid):
        return cases[(tid - 1000000) // 8] if tid >= 1000000 else cases[tid]

    good, bad = sanitize(events)
    for ev in bad:
        sig = {"clause": f"{prop_id}.projection", "pid": ev.get("pid"), "status": ev.get("status", "lookup-error")}
        if str(ev.get("status", "")).startswith("driver-error"):
            raise vlib.MachineryError("driver error: " + ev.get("error", ""))
        rep.violation(sig, {"event": ev, "case": case_of(ev["tid"])})
    fails = validate(wd, good, rep)
    evmap = {(ev["tid"], ev["seq"]): ev for ev in good}
    own = set(prof["own"])
    other = {}
    for f in fails:
        ev = evmap[(f["tid"], f["seq"])]
        for cl in f["clauses"]:
            if cl in own:
                rep.violation(signature(prop_id, cl, ev, None), {"case": case_of(f["tid"]), "event": ev, "clauses": f["clauses"]})
            else:
                other[cl] = other.get(cl, 0) + 1
    if prop_id == "C07" and not replay:      # C07.prior: regenerated values follow the prior given the current parents
        from . import eng_gfisample
        eng_gfisample.regen_prior(prop_id, rep, wd, catalog, tier, seed)
    # coverage bookkeeping
    rep.evaluations = len(good)
    rep.traces = len(cases)
    acc = rej = 0
    for ev in good:
        if ev["status"] == "ok":
            acc += 1
            nontriv = ev["op"] in ("simulate", "generate", "project") or ev["cons"] or ev["pre"]["args"] != ev["post"]["args"] \
                or ev["op"] in ("regenerate", "index", "static")
            if nontriv:
                rep.nontrivial.add((ev["pid"], ev["op"], ev.get("sub", ""), len(ev["cons"]), json.dumps(ev["sel"], sort_keys=True)[:80],
                                    ev["pre"]["args"] != ev["post"]["args"]))
        elif ev["status"].startswith("rejected"):
            rej += 1
    for c in cases[:: max(1, len(cases) // 3)]:
        rep.sample(c, limit=3)
    rep.rule = ("cases = (catalogue program, argument sample, request history) generated by TLC from spec/GFIGen.tla "
                "(LCG streams seeded by VERIF_SEED; bounded-exhaustive constraint subsets where stated); every request is "
                "executed on the real genjax and logged; each event validated by TLC (GFITrace). non-trivial = distinct "
                "(program, operation, sub-request, #constraints, selection, args-changed) class among accepted events")
    rep.extra.update({"accepted_events": acc, "rejected_optional_requests": rej, "driver_wall_s": round(drv_s, 1),
                      "owned_clauses": sorted(own), "failing_clauses_owned_by_other_properties": other,
                      "program_ids": sorted({c["pid"] for c in cases}), "programs": len({c["pid"] for c in cases}), "tolerance_fixed_point_units": 64})
    rep.assumptions = ["fingerprint table distributions (exact_density) stand for arbitrary discrete distributions; laws here do not involve normalisation",
                       "projection by public lookups over the program's finite address universe plus decoy addresses"]
    return rep.finish()
