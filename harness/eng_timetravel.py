"""C31 — time-travel debugger: every TLC behaviour (jump / fwd / bwd / remix sequences) of TimeTravel.tla is replayed
on the real TimeTravelingDebugger; (final_retval, frames, ptr) after every action is compared with the state TLC computed."""

from __future__ import annotations

import json
import multiprocessing as mp
import os

from . import jaxir, vlib

PROPS = {
    "C31": dict(
        spec="TimeTravel",
        category="model_checking", design_ref="§5 C31",
        technique="TLA+ state machine (TimeTravel.tla: frames/ptr/final; Jump Fwd Bwd Remix) model-checked by TLC with an "
                  "operational (continuation-stack) and a denotational (re-run with overrides) semantics of recording; every "
                  "bounded behaviour replayed on genjax's time_machine / TimeTravelingDebugger and compared state by state",
        text="TLC generates scalar JaxIR programs with 1-3 record points (tagged, untagged, tag(v), nested one level, 1-2 arguments, "
             "1-2 results, with cond/while/fori/call equations, literals and closed-over constants in between), checks on the spec "
             "itself pointer bounds, frame order = static pre-order of the record points, final = EvalProg(f,args), and that the "
             "continuation-based remix equals re-running the whole program with that call's arguments overridden (RemixLaw), on the "
             "full state graph, with -coverage showing every action fires. It then prints every behaviour of length <= 3 (thorough "
             "tier: also <= 4; programs with control flow: <= 2) over jump(tag) for every recorded tag, jump(missing tag), fwd, bwd, remix(3 argument tuples) with the "
             "expected (final, [(tag,args,local_retval)], ptr) after each action; the driver replays them on time_machine(f)(*args) "
             "and compares after every action.",
        note="Trusted: TLC, the IR->JAX builder (ordinary evaluation compared with TLC's final value every run). The kept local "
             "return value of a frame that encloses a remixed call may be the old or the re-run one (both accepted).",
    ),
}


def write_cfg(path, seed, nprog, maxlen, maxnest, keephist, emit, invariants):
    with open(path, "w") as f:
        f.write(f"CONSTANTS Seed = {seed % 60000}\n NProg = {nprog}\n MaxLen = {maxlen}\n MaxNest = {maxnest}\n"
                f" KeepHist = {'TRUE' if keephist else 'FALSE'}\n Emit = {'TRUE' if emit else 'FALSE'}\nSPECIFICATION Spec\n")
        for inv in invariants:
            f.write(f"INVARIANT {inv}\n")
        f.write("CHECK_DEADLOCK FALSE\n")


# ----------------------------------------------------------------------------------------------
# worker side
# ----------------------------------------------------------------------------------------------

def _leaves(x):
    import jax.tree_util as jtu
    out = []
    for leaf in jtu.tree_leaves(x):
        out += jaxir.project(leaf)
    return out


def observe(dbg):
    """Debugger value -> abstract state (fields named by the property: final_retval, frames, ptr)."""
    rev = {v: k for k, v in dbg.jump_points.items()}
    frames = []
    for i, fr in enumerate(dbg.sequence):
        t = rev.get(i)
        frames.append({"tag": "none" if t is None else t, "args": _leaves(fr.args), "ret": _leaves(fr.local_retval)})
    tag_at, fr_at = dbg.frame()
    fin_s, (tag_s, _) = dbg.summary()
    return {"final": _leaves(dbg.final_retval), "ptr": int(dbg.ptr), "frames": frames,
            "frame_tag": "none" if tag_at is None else tag_at, "frame_args": _leaves(fr_at.args),
            "summary_final": _leaves(fin_s), "summary_tag": "none" if tag_s is None else tag_s}


def compare(obs, exp):
    """List of mismatching fields of an observed state against TLC's expected state."""
    bad = []
    if obs["final"] != exp["final"] or obs["summary_final"] != exp["final"]:
        bad.append(("final", obs["final"], exp["final"]))
    if obs["ptr"] != exp["ptr"]:
        bad.append(("ptr", obs["ptr"], exp["ptr"]))
    if len(obs["frames"]) != len(exp["frames"]):
        bad.append(("nframes", len(obs["frames"]), len(exp["frames"])))
        return bad
    for j, (o, e) in enumerate(zip(obs["frames"], exp["frames"])):
        if o["tag"] != e["tag"]:
            bad.append((f"frame{j}.tag", o["tag"], e["tag"]))
        if o["args"] != e["args"]:
            bad.append((f"frame{j}.args", o["args"], e["args"]))
        if o["ret"] != e["ret"] and o["ret"] != e["alt"]:
            bad.append((f"frame{j}.local_retval", o["ret"], [e["ret"], e["alt"]]))
    if 0 <= exp["ptr"] < len(exp["frames"]) and not bad:
        e = exp["frames"][exp["ptr"]]
        if obs["frame_tag"] != e["tag"] or obs["summary_tag"] != e["tag"] or obs["frame_args"] != e["args"]:
            bad.append(("frame()", [obs["frame_tag"], obs["frame_args"]], [e["tag"], e["args"]]))
    return bad


def apply_action(dbg, act):
    import jax.numpy as jnp
    import jax.tree_util as jtu
    a = act["a"]
    if a == "jump":
        return dbg.jump(act["t"])
    if a == "fwd":
        return dbg.fwd()
    if a == "bwd":
        return dbg.bwd()
    if a == "remix":
        fr = dbg.sequence[dbg.ptr]
        treedef = jtu.tree_structure(fr.args)
        args = jtu.tree_unflatten(treedef, [jnp.int32(v) for v in act["x"]])
        return dbg.remix(*args)
    raise ValueError(a)


CLAUSE = {"jump": "C31.nav", "fwd": "C31.nav", "bwd": "C31.nav", "remix": "C31.remix"}


def check_program(pc):
    """pc = dict(prog=PROG payload, nodes={hist-key: expected state})."""
    from genjax.time_travel import rec, tag, time_machine
    P = pc["prog"]
    prog, kc = P["prog"], P["kc"]
    nodes = pc["nodes"]
    fails, machinery = [], []
    stats = dict(nodes=0, actions={}, remix_changed_final=0)
    f = jaxir.build(prog, kc, rec=rec, tag=tag, prims_only=True)
    inputs = tuple(jaxir.to_input(v) for v in P["inp"])
    root_exp = nodes["[]"]
    ordinary = _leaves(f(*inputs))
    if ordinary != root_exp["final"]:
        machinery.append(f"builder/spec disagreement: {jaxir.show(prog)} inp={P['inp']} jax={ordinary} tlc={root_exp['final']}")
        return dict(fails=fails, machinery=machinery, stats=stats)
    try:
        dbg0 = time_machine(f)(*inputs)
        obs0 = observe(dbg0)
    except Exception as e:  # noqa: BLE001
        fails.append(dict(clause="C31.final", hist=[], why="raised:" + type(e).__name__, error=repr(e)[:300]))
        return dict(fails=fails, machinery=machinery, stats=stats)
    stats["nodes"] += 1
    bad = compare(obs0, root_exp)
    if bad:
        fails.append(dict(clause="C31.final" if bad[0][0] == "final" else "C31.frames", hist=[], bad=bad[:4]))
    # children index
    kids = {}
    for key, exp in nodes.items():
        h = exp["hist"]
        if h:
            kids.setdefault(json.dumps(h[:-1], sort_keys=True), []).append(exp)
    stack = [("[]", dbg0, root_exp)]
    while stack:
        key, dbg, pexp = stack.pop()
        for exp in kids.get(key, []):
            act = exp["hist"][-1]
            stats["nodes"] += 1
            stats["actions"][act["a"]] = stats["actions"].get(act["a"], 0) + 1
            try:
                d2 = apply_action(dbg, act)
                obs = observe(d2)
            except Exception as e:  # noqa: BLE001
                if exp["status"] == "missing":
                    d2, obs = dbg, observe(dbg)      # an unknown tag may raise; the debugger value is unchanged
                    stats["actions"]["jump_missing_raised"] = stats["actions"].get("jump_missing_raised", 0) + 1
                else:
                    fails.append(dict(clause=CLAUSE[act["a"]], hist=exp["hist"], why="raised:" + type(e).__name__, error=repr(e)[:300]))
                    continue
            bad = compare(obs, exp)
            if bad:
                fails.append(dict(clause=CLAUSE[act["a"]], hist=exp["hist"], action=act["a"], bad=bad[:4]))
                continue                                  # do not descend below a diverged state
            if act["a"] == "remix" and exp["final"] != pexp["final"]:
                stats["remix_changed_final"] += 1
            stack.append((json.dumps(exp["hist"], sort_keys=True), d2, exp))
    return dict(fails=fails, machinery=machinery, stats=stats)


def _work(pcs):
    import time
    out = []
    for pc in pcs:
        try:
            t0 = time.time()
            r = check_program(pc)
            r["stats"]["secs"] = round(time.time() - t0, 1)
        except Exception as e:  # noqa: BLE001
            import traceback
            r = dict(fails=[], machinery=[f"driver exception on program {pc['prog']['pid']}: {e!r}\n{traceback.format_exc()[-1500:]}"], stats=None)
        out.append((pc["key"], r))
    return out


def collect(res, tagname, programs):
    for p in res.payloads("PROG"):
        programs[(tagname, p["pid"])] = dict(key=f"{tagname}:{p['pid']}", prog=p, nodes={})
    for c in res.payloads("CASE"):
        programs[(tagname, c["pid"])]["nodes"][json.dumps(c["hist"], sort_keys=True)] = c


def run(prop_id, tier, seed, replay=None):
    replay_doc = None
    if replay:                      # read it first: it may live in the work dir that is recreated below
        with open(replay) as f:
            replay_doc = json.load(f)
    rep = vlib.Report(prop_id, tier, seed)
    wd = vlib.workdir(prop_id)
    rep.rule = ("cases = behaviours of TimeTravel.tla (BFS with a history variable): program with 1-3 record points x input x every "
                "action sequence up to the length bound over {jump(t) for each recorded tag, jump(missing), fwd, bwd, remix(a) for "
                "3 argument tuples}; each node of the behaviour tree is replayed on the real debugger and (final_retval, "
                "[(tag,args,local_retval)], ptr, frame(), summary()) compared with TLC's state; evaluations = nodes compared; "
                "non-trivial = distinct (program, behaviour) containing a remix that changed final_retval")
    programs = {}
    if replay:
        pc = replay_doc["detail"]["pc"]
        programs[("replay", 0)] = pc
    else:
        q = tier == "quick"
        # role A on the full state graph (no history, no length bound), with coverage
        cfgA = os.path.join(wd, "MC.cfg")
        write_cfg(cfgA, seed, 8 if q else 150, 0, 1, False, False, ["RoleA"])
        a = vlib.run_tlc("TimeTravel", cfgA, wd, tag="roleA", coverage=True, timeout=1500)
        rep.add_tlc(a)
        cov = vlib.tlc_coverage(a)
        acts = {k: v for k, v in cov.items() if k in ("JumpAny", "JumpMissing", "Fwd", "Bwd", "RemixAny", "Init")}
        rep.extra["roleA_action_coverage"] = acts
        rep.extra["roleA_states"] = a.distinct
        for name in ("JumpAny", "JumpMissing", "Fwd", "Bwd", "RemixAny"):
            if acts.get(name, {}).get("total", 0) == 0:
                raise vlib.MachineryError(f"action {name} never fired in the role-A run (vacuous model)")
        # role B: behaviours.  The real debugger re-stages and eagerly re-executes the program at every remix, and an eager
        # cond / while / scan of a fresh jaxpr costs an XLA compilation, so control-flow programs get short behaviours.
        plans = [("L3", seed, 22, 3, 0), ("CF", seed + 13, 10, 2, 1)] if q else \
                [("L3", seed, 400, 3, 0), ("L4", seed + 7, 45, 4, 0), ("CF", seed + 13, 200, 2, 1)]
        for name, sd, nprog, maxlen, maxnest in plans:
            cfg = os.path.join(wd, f"Gen{name}.cfg")
            write_cfg(cfg, sd, nprog, maxlen, maxnest, True, True, ["RoleA", "EmitCase"])
            b = vlib.run_tlc("TimeTravel", cfg, wd, tag="gen" + name, timeout=2400)
            rep.add_tlc(b)
            collect(b, name, programs)
        rep.exhaustive = True
        rep.extra["exhaustive_scope"] = ("for each generated (program, input): every action sequence of length <= 3 (L3 programs) / "
                                         "<= 4 (L4 programs) / <= 2 (CF programs, with control flow) over the action alphabet; "
                                         "the programs themselves are sampled")
    def est(pc):   # structured equations are re-compiled at every remix: ~50x an arithmetic node
        ncf = len(jaxir.ops_of(pc["prog"]["prog"]) & {"cond", "while", "fori", "call", "scan"})
        return len(pc["nodes"]) * (1 + 50 * ncf)
    pcs = sorted(programs.values(), key=est, reverse=True)
    with vlib.pinned_pool() as pool:         # one program per task, most expensive first (dynamic balancing)
        results = pool.map(_work, [[pc] for pc in pcs], chunksize=1)
    by_key = {pc["key"]: pc for pc in pcs}
    machinery, per_sig = [], {}
    tot_nodes, acts, nrecs, secs = 0, {}, {}, {}
    for chunk in results:
        for key, r in chunk:
            pc = by_key[key]
            machinery += r["machinery"]
            if r["stats"] is None:
                continue
            tot_nodes += r["stats"]["nodes"]
            secs[key] = r["stats"].get("secs", 0)
            for k, v in r["stats"]["actions"].items():
                acts[k] = acts.get(k, 0) + v
            nrecs[pc["prog"]["nrec"]] = nrecs.get(pc["prog"]["nrec"], 0) + 1
            for i in range(r["stats"]["remix_changed_final"]):
                rep.nontrivial.add((key, i))
            for fl in r["fails"]:
                what = fl["bad"][0][0] if fl.get("bad") else fl.get("why")
                what = "frame.args" if str(what).endswith(".args") else "frame.local_retval" if str(what).endswith(".local_retval") \
                    else "frame.tag" if str(what).endswith(".tag") else what
                k = (fl["clause"], fl.get("action", "init"), what)
                per_sig[k] = per_sig.get(k, 0) + 1
                if per_sig[k] > 3:
                    continue
                sig = {"clause": fl["clause"], "action": fl.get("action", "init"), "what": what,
                       "program": jaxir.show(pc["prog"]["prog"]), "hist": json.dumps(fl["hist"])[:200]}
                # replay file: the program with the failing behaviour and its prefixes only
                keep = {json.dumps(fl["hist"][:i], sort_keys=True) for i in range(len(fl["hist"]) + 1)}
                small = dict(key=key, prog=pc["prog"], nodes={kk: vv for kk, vv in pc["nodes"].items() if kk in keep})
                rep.violation(sig, {"pc": small, "fail": fl})
    if machinery:
        raise vlib.MachineryError("\n".join(machinery[:5]))
    rep.evaluations = tot_nodes
    rep.traces = sum(1 for pc in pcs for n in pc["nodes"].values())
    for pc in pcs[:: max(1, len(pcs) // 4)]:
        some = [n for n in pc["nodes"].values() if len(n["hist"]) >= 2][:1]
        rep.sample({"program": jaxir.show(pc["prog"]["prog"]), "input": pc["prog"]["inp"],
                    "behaviour": some[0]["hist"] if some else [], "expected": {k: some[0][k] for k in ("final", "ptr")} if some else {}})
    rep.extra.update(programs=len(pcs), programs_by_record_points=nrecs, actions_replayed=acts,
                     slowest_programs_s=dict(sorted(secs.items(), key=lambda kv: -kv[1])[:5]),
                     violations_by_kind={"/".join(map(str, k)): v for k, v in per_sig.items()})
    rep.assumptions = ["scalar programs, values mod 3; remix argument tuples restricted to 3 per arity; record points only at the top level "
                       "of the function or of a recorded function (record points inside cond/scan/while bodies are not frames)",
                       "jump to a tag that was never recorded: raising or returning an unchanged debugger are both accepted",
                       "local_retval of a kept frame that encloses a remixed call: old or re-run value accepted",
                       "RoleA (PtrInBounds, FrameOrder, InitLaw, RemixLaw, RemixEnter, RemixExit) model-checked by TLC on the full state graph and on every printed behaviour"]
    return rep.finish()
