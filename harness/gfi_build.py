"""Build real genjax objects from the TLA+ terms of spec/GFI*.tla and project
implementation values back to the abstract values of the spec (public API only).

Abstract values (JSON): {"t": "i"|"b"|"n"|"t"|"v"|"m", "i": int, "k": [...]}.
"""

from __future__ import annotations

import math

LN2 = math.log(2.0)
# the same tables as LTab in spec/GFIBase.tla (log2-probabilities of the values 0,1,2 per parent value)
LTAB = [[[-1, -2, -2], [-2, -1, -2], [-2, -2, -1]], [[-2, -2, -1], [-1, -2, -2], [-1, -2, -2]]]
_cache = {}


def _jx():
    import jax
    import jax.numpy as jnp
    import genjax
    return jax, jnp, genjax


# ----------------------------------------------------------------------------
# values
# ----------------------------------------------------------------------------

def I(n):
    return {"t": "i", "i": int(n), "k": []}


def B(b):
    return {"t": "b", "i": 1 if b else 0, "k": []}


NN = {"t": "n", "i": 0, "k": []}


def val_to_py(v, concrete=False):
    """abstract value -> python/jax value used as an argument."""
    jax, jnp, _ = _jx()
    t = v["t"]
    if t == "i":
        return int(v["i"]) if concrete else jnp.array(v["i"], dtype=jnp.int32)
    if t == "b":
        return bool(v["i"]) if concrete else jnp.array(bool(v["i"]))
    if t == "n":
        return None
    if t == "t":
        return tuple(val_to_py(x, concrete) for x in v["k"])
    if t == "v":
        elems = [val_to_py(x, False) for x in v["k"]]
        if not elems:
            return jnp.zeros((0,), dtype=jnp.int32)
        return jax.tree_util.tree_map(lambda *xs: jnp.stack(xs), *elems)
    raise ValueError(t)


def proj_val(x):
    """implementation value -> abstract value (arrays -> nested 'v', tuples -> 't',
    Mask -> 'm' with invalid content zeroed, None -> 'n')."""
    import numpy as np
    jax, jnp, genjax = _jx()
    from genjax import Mask
    if x is None:
        return NN
    if isinstance(x, Mask):
        flag = x.flag
        fl = np.asarray(flag)
        val = jax.tree_util.tree_map(
            lambda leaf: np.where(np.reshape(fl, fl.shape + (1,) * (np.ndim(leaf) - fl.ndim)), np.asarray(leaf), 0),
            x.value, is_leaf=lambda z: isinstance(z, Mask))
        return {"t": "m", "i": 0, "k": [proj_val(fl), proj_val(val)]}
    if isinstance(x, (tuple, list)):
        return {"t": "t", "i": 0, "k": [proj_val(e) for e in x]}
    if isinstance(x, bool):
        return B(x)
    if isinstance(x, int):
        return I(x)
    if isinstance(x, float):
        return I(round(x))
    a = np.asarray(x)
    if a.ndim == 0:
        if a.dtype == np.bool_:
            return B(bool(a))
        return I(int(round(float(a))))
    return {"t": "v", "i": 0, "k": [proj_val(a[i]) for i in range(a.shape[0])]}


def fx(x):
    """float -> fixed point x256 integer."""
    import numpy as np
    v = float(np.asarray(x))
    if math.isnan(v):
        return 2 ** 30 + 7
    if math.isinf(v):
        return -(2 ** 30) if v < 0 else 2 ** 30
    return int(round(v * 256.0))


# ----------------------------------------------------------------------------
# programs
# ----------------------------------------------------------------------------

def table_dist(d):
    key = ("tab", d)
    if key not in _cache:
        jax, jnp, genjax = _jx()
        scale = float(32 ** d)

        def sample(k, a):
            return jax.random.randint(k, (), 0, 3, dtype=jnp.int32)

        def logpdf(v, a):
            return (-(scale) * (1.0 + v + 3.0 * a)).astype(jnp.float32) if hasattr(v, "astype") or hasattr(a, "astype") \
                else jnp.array(-(scale) * (1.0 + v + 3.0 * a), dtype=jnp.float32)

        def logpdf2(v, a):
            return jnp.asarray(-(scale) * (1.0 + jnp.asarray(v, jnp.float32) + 3.0 * jnp.asarray(a, jnp.float32)), dtype=jnp.float32)

        _cache[key] = genjax.exact_density(sample, logpdf2, f"Tab{d}")
    return _cache[key]


def eval_e(x, args, xargs, env):
    jax, jnp, _ = _jx()
    e = x["e"]
    if e == "arg":
        return args[x["i"] - 1]
    if e == "xarg":
        return xargs[x["i"] - 1]
    if e == "site":
        return env[x["i"] - 1]
    if e == "const":
        return jnp.array(x["i"], dtype=jnp.int32)
    if e == "lit":
        return int(x["i"])
    if e == "none":
        return None
    if e == "add":
        return (eval_e(x["k"][0], args, xargs, env) + eval_e(x["k"][1], args, xargs, env)) % 3
    if e == "tup":
        return tuple(eval_e(k, args, xargs, env) for k in x["k"])
    if e == "ix":
        return eval_e(x["k"][0], args, xargs, env)[x["i"] - 1]
    if e == "lrow":      # row of a dyadic log2-probability table -> float logits
        tab = jnp.array(LTAB[x["i"] - 1], dtype=jnp.float32) * LN2
        r = eval_e(x["k"][0], args, xargs, env) if x["k"] else 0
        return tab[r]
    raise ValueError(e)


def _arity(p):
    """number of positional parameters of a static program term (largest arg index used)."""
    m = 0

    def walk(x):
        nonlocal m
        if x["e"] == "arg":
            m = max(m, x["i"])
        for k in x["k"]:
            walk(k)
    for s in p["sites"]:
        for a in s["args"]:
            walk(a)
    walk(p["ret"])
    return m


def addr_py(addr):
    return addr[0] if len(addr) == 1 else tuple(addr)


def build(p):
    """program term -> genjax generative function."""
    jax, jnp, genjax = _jx()
    k = p["k"]
    if k == "dist":
        return table_dist(p["n"])
    if k == "cat":
        return genjax.categorical
    if k == "static":
        sites = [(addr_py(s["addr"]), build(s["callee"]), s["args"], s["callee"]) for s in p["sites"]]
        ret = p["ret"]

        def body(*args):
            env = []
            for addr, callee, aexprs, cterm in sites:
                a = [eval_e(e, args, (), env) for e in aexprs]
                if cterm["k"] == "cat":
                    env.append(callee(logits=a[0]) @ addr)
                    continue
                env.append(callee(*conv_call_args(cterm, a)) @ addr)
            return eval_e(ret, args, (), env)

        n = _arity(p)
        # named leading parameters (so that keyword arguments work); extra positional arguments are accepted
        named = {0: lambda *r: body(*r), 1: lambda a0, *r: body(a0, *r), 2: lambda a0, a1, *r: body(a0, a1, *r),
                 3: lambda a0, a1, a2, *r: body(a0, a1, a2, *r)}.get(n)
        return genjax.gen(named if named is not None else body)
    sub = [build(q) for q in p["subs"]]
    if k == "closure":
        stored = [val_to_py(v) for v in p["x"]]
        if p["n"] == 1:
            return sub[0].partial_apply(*stored)
        if p["n"] == 3:      # partial_apply on the first stored value, the others as keyword arguments of the result
            n = _arity(p["subs"][0])
            kw = {f"a{n - len(stored[1:]) + j}": v for j, v in enumerate(stored[1:])}      # the trailing parameters
            return sub[0].partial_apply(stored[0])(**kw)
        if p["n"] == 2:      # stored values as the trailing keyword arguments a<i>
            n = _arity(p["subs"][0])
            kw = {f"a{n - len(stored) + j}": v for j, v in enumerate(stored)}
            return sub[0](**kw)
        return sub[0](*stored)
    if k == "vmap":
        axes = tuple({1: 0, 2: 1}.get(a) for a in p["x"])
        return sub[0].vmap(in_axes=axes)
    if k == "repeat":
        return sub[0].repeat(n=p["n"])
    if k == "scan":
        return sub[0].scan(n=p["n"])
    if k == "switch":
        return sub[0].switch(*sub[1:])
    if k == "orelse":
        return sub[0].or_else(sub[1])
    if k == "mix":
        return sub[0].mix(*sub[1:])
    if k == "mask":
        return sub[0].mask()
    if k == "dimap":
        pre, post, variant = p["x"], p["ret"], p["n"]

        def pre_f(*args):
            return tuple(eval_e(e, args, (), ()) for e in pre)

        if variant == 1:
            return sub[0].map(lambda r: eval_e(post, (), (), (r,)))
        if variant == 2:
            return sub[0].contramap(pre_f)
        return sub[0].dimap(pre=pre_f, post=lambda args, xargs, r: eval_e(post, args, xargs, (r,)))
    if k == "accumulate":
        return sub[0].accumulate()
    if k == "reduce":
        return sub[0].reduce()
    if k == "iterate":
        return sub[0].iterate(n=p["n"])
    if k == "iteratefinal":
        return sub[0].iterate_final(n=p["n"])
    if k == "maskediterate":
        return sub[0].masked_iterate()
    if k == "maskediteratefinal":
        return sub[0].masked_iterate_final()
    raise ValueError(k)


def conv_call_args(p, a):
    """adapt already-evaluated python args to the calling convention of program p
    (mix: first argument is an array of log2-probabilities -> float logits)."""
    jax, jnp, _ = _jx()
    if p["k"] == "mix":
        return [jnp.asarray(a[0], dtype=jnp.float32) * LN2] + list(a[1:])
    return a


def call_args(p, argsV, concrete=False):
    a = [val_to_py(v, concrete) for v in argsV]
    return tuple(conv_call_args(p, a))


def proj_args(p, args):
    """implementation argument tuple -> abstract values (inverse of call_args).  For closures the abstract
    trace arguments are the EXTRA arguments: the stored ones are checked and stripped."""
    import numpy as np
    if p["k"] == "closure":
        ns = len(p["x"])
        if p["n"] == 1:                      # partial_apply: the trace holds the extra arguments only
            return [proj_val(x) for x in args]
        if p["n"] == 3:                      # partial_apply + kwargs: (positional extra args, {name: value}); the partial argument is hidden
            pos, kw = args
            vals = [proj_val(kw[k]) for k in sorted(kw)]
            if vals != list(p["x"][1:]):
                return [{"t": "n", "i": 7, "k": []}]
            return [proj_val(x) for x in pos]
        if p["n"] == 2:                      # kwargs: the trace holds (positional args, {name: value})
            pos, kw = args
            vals = [proj_val(kw[k]) for k in sorted(kw)]
            if vals != list(p["x"]):
                return [{"t": "n", "i": 7, "k": []}]
            return [proj_val(x) for x in pos]
        if [proj_val(x) for x in args[:ns]] != list(p["x"]):
            return [{"t": "n", "i": 7, "k": []}]
        return [proj_val(x) for x in args[ns:]]
    out = [proj_val(x) for x in args]
    if p["k"] == "mix":
        l2 = np.asarray(args[0], dtype=np.float64) / LN2
        out[0] = {"t": "v", "i": 0, "k": [I(int(round(float(z)))) for z in l2]}
    return out


# ----------------------------------------------------------------------------
# choice maps, selections, constraints
# ----------------------------------------------------------------------------

def path_py(path):
    return tuple(int(c) if c.isdigit() else c for c in path)


def proj_chm(chm, addrs, decoys=True):
    """choice map -> sorted list of [path, value] for present leaf addresses among `addrs`
    (plus decoy paths that no program uses), by public lookups only."""
    import numpy as np
    from genjax import Mask
    out = []
    probes = [list(a) for a in addrs]
    if decoys:
        probes += [["qq"], ["x", "qq"]]
    for path in probes:
        pp = path_py(path)
        try:
            sub = chm(*pp) if pp else chm
            v = sub.get_value()
        except Exception as e:  # lookups must not fail
            out.append([path, {"error": type(e).__name__}])
            continue
        if v is None:
            continue
        if isinstance(v, Mask):
            fl = np.asarray(v.flag)
            if fl.ndim != 0:
                out.append([path, {"error": "nonscalar-flag"}])
                continue
            if not bool(fl):
                continue
            v = v.value
        a = np.asarray(v)
        if a.ndim != 0:
            out.append([path, {"error": "nonscalar"}])
            continue
        out.append([path, int(round(float(a)))])
    out.sort(key=lambda e: e[0])
    return out


def proj_chm_batched(chm, rel_addrs):
    """choices of a (possibly stacked) sub-trace: for each relative leaf address the value, which is a scalar or
    an array over leading batch dimensions -> entries [index components + relative address, value]."""
    import numpy as np
    from genjax import Mask
    out = []
    for path in rel_addrs:
        pp = path_py(path)
        sub = chm(*pp) if pp else chm
        v = sub.get_value()
        if v is None:
            continue
        fl = None
        if isinstance(v, Mask):
            fl = np.asarray(v.flag)
            v = v.value
        a = np.asarray(v)
        if fl is None:
            fl = np.ones(a.shape, dtype=bool)
        fl = np.broadcast_to(fl, a.shape)
        for ix in np.ndindex(*a.shape):
            if bool(fl[ix]):
                out.append([[str(i) for i in ix] + list(path), int(round(float(a[ix])))])
    out.sort(key=lambda e: e[0])
    return out


def build_sel(t):
    from genjax import Selection
    k = t["t"]
    if k == "all":
        return Selection.all()
    if k == "none":
        return Selection.none()
    if k == "leaf":
        return Selection.leaf()
    comp = lambda c: Ellipsis if c == "*" else c
    if k == "at":
        p = tuple(comp(c) for c in t["p"])
        if not p:
            return Selection.all()            # every address has the empty prefix
        return Selection.at[p if len(p) > 1 else p[0]]
    if k == "lf":
        return Selection.leaf().extend(*[comp(c) for c in t["p"]])
    if k == "or":
        return build_sel(t["k"][0]) | build_sel(t["k"][1])
    if k == "and":
        return build_sel(t["k"][0]) & build_sel(t["k"][1])
    if k == "not":
        return ~build_sel(t["k"][0])
    raise ValueError(k)


def build_cons(cons, vals=None, flags=None, form=0):
    """constraint entries [{p, v, f}] -> ChoiceMap.  f: '-' plain value, 'T'/'F' Mask(value, flag).
    vals: optional (possibly traced) values overriding c['v']; flags: optional traced flags.
    form 0: one entry per address (C[i, 'x'].set(v));  form 1: entries that differ only in their leading index are
    given as ONE array-indexed entry C[jnp.array([i_k, ..]), 'x'].set(stacked values), indices in descending order."""
    jax, jnp, genjax = _jx()
    from genjax import ChoiceMapBuilder as C, Mask, ChoiceMap
    chm = ChoiceMap.empty()
    done = set()
    if form == 1:
        groups = {}
        for j, c in enumerate(cons):
            # an address may hold only one array-valued index (the API rejects a scalar index after an array index):
            # paths with a second index level keep form 0
            if c["p"] and c["p"][0].isdigit() and not any(x.isdigit() for x in c["p"][1:]):
                groups.setdefault(tuple(c["p"][1:]), []).append(j)
        for suffix, js in groups.items():
            if len(js) < 2:
                continue
            js = sorted(js, key=lambda j: -int(cons[j]["p"][0]))
            idx = jnp.array([int(cons[j]["p"][0]) for j in js], dtype=jnp.int32)
            vs = jnp.stack([vals[j] if vals is not None else jnp.array(cons[j]["v"], dtype=jnp.int32) for j in js])
            if any(cons[j]["f"] != "-" for j in js):      # a vectorised Mask under the index array (elementwise flags)
                fl = jnp.stack([(flags[j] if flags is not None and cons[j]["f"] != "-" else jnp.array(cons[j]["f"] != "F")) for j in js])
                vs = Mask(vs, fl)
            pp = (idx,) + path_py(list(suffix))
            chm = chm | C[pp].set(vs)
            done.update(js)
    for j, c in enumerate(cons):
        if j in done:
            continue
        pp = path_py(c["p"])
        v = vals[j] if vals is not None else jnp.array(c["v"], dtype=jnp.int32)
        if c["f"] in ("T", "F"):
            flag = flags[j] if flags is not None else (c["f"] == "T")
            v = Mask(v, flag)
        if pp:
            piece = C[pp].set(v) if len(pp) > 1 else C[pp[0]].set(v)
        else:
            piece = ChoiceMap.choice(v)
        chm = chm | piece
    return chm
