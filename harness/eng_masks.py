"""C19 — mask algebra: replay TLC-enumerated mask expressions on the real Mask class in the modes
python-bool / array eager / mixed / jit / vmap and compare every observer with the TLC-computed table."""

from __future__ import annotations

import json
import multiprocessing as mp
import os

from . import vlib

PROPS = {
    "C19": dict(
        spec="Masks",
        category="model_checking", design_ref="§5 C19",
        technique="TLA+ spec (Masks.tla) of the documented Mask truth tables, model-checked by TLC against two "
                  "transcriptions of the code paths (index arithmetic, concrete match) and algebraic laws; "
                  "TLC-enumerated expressions replayed on the real Mask class in five flag modes and compared "
                  "with the TLC-computed observation",
        text="Bounded-exhaustive: TLC enumerates every mask expression over | ^ ~ Mask.build of depth <=2 on leaves "
             "Mask(v in {1,2}, f) for scalar flags (scalar and pair values), depth <=1 plus leaf-sided depth 2 for "
             "length-2 flag vectors, plus LCG-generated depth-3 expressions; each is observed through the mask "
             "itself, flatten, maybe_mask (4 flags), maybe_mask on raw values and unmask(default) with flags given "
             "as Python bools, as arrays, mixed, as jit tracers and as vmap tracers; flag, valid value and the "
             "documented None/raw/Mask form are compared with the table computed by TLC.",
        note="Trusted: TLC, the term builder (public Mask API only), projection via Mask.primal_flag()/Mask.value. "
             "Values hidden inside a mask that | or ^ made invalid are undocumented and not compared.",
    ),
}

MODES = ("py", "arr", "mix", "jit", "vmap")


# ----------------------------------------------------------------------------
# terms
# ----------------------------------------------------------------------------

def skeleton(t):
    op = t["op"]
    if op == "leaf":
        return "L"
    if op == "not":
        return "~" + skeleton(t["k"][0])
    if op == "build":
        return "B%d(%s)" % (len(t["f"]), skeleton(t["k"][0]))
    return "(" + skeleton(t["k"][0]) + ("|" if op == "or" else "^") + skeleton(t["k"][1]) + ")"


def _depth(t):
    return 0 if t["op"] == "leaf" else 1 + max(_depth(k) for k in t["k"])


def _fl(f):
    return "".join("T" if b else "F" for b in f)


def show(t):
    op = t["op"]
    if op == "leaf":
        return "Mask(%d,%s)" % (t["v"][0][0], _fl(t["f"]))
    if op == "not":
        return "~" + show(t["k"][0])
    if op == "build":
        return "build(%s,%s)" % (show(t["k"][0]), _fl(t["f"]))
    return "(" + show(t["k"][0]) + (" | " if op == "or" else " ^ ") + show(t["k"][1]) + ")"


def slots(t, F, V):
    """Flag and value slots of a term, children first (the order compile_term assigns)."""
    op = t["op"]
    if op == "leaf":
        F.append(t["f"])
        V.append(t["v"])
        return
    for k in t["k"]:
        slots(k, F, V)
    if op == "build":
        F.append(t["f"])


def compile_term(t, ctr):
    from genjax._src.core.generative.functional_types import Mask
    op = t["op"]
    if op == "leaf":
        i, j = ctr["f"], ctr["v"]
        ctr["f"] += 1
        ctr["v"] += 1
        return lambda F, V: Mask(V[j], F[i])
    kids = [compile_term(k, ctr) for k in t["k"]]
    if op == "not":
        a = kids[0]
        return lambda F, V: ~a(F, V)
    if op == "build":
        a = kids[0]
        i = ctr["f"]
        ctr["f"] += 1
        return lambda F, V: Mask.build(a(F, V), F[i])
    a, b = kids
    if op == "or":
        return lambda F, V: a(F, V) | b(F, V)
    if op == "xor":
        return lambda F, V: a(F, V) ^ b(F, V)
    raise ValueError(op)


def make_group_fn(case):
    """One function per expression skeleton: (flags, values) -> tuple of the results of all observers."""
    from genjax._src.core.generative.functional_types import Mask
    ctr = {"f": 0, "v": 0}
    m = compile_term(case["term"], ctr)
    plan = []
    for ob in case["obs"]:
        k = ob["ob"]
        if k == "mm":
            plan.append(("mm", ctr["f"]))
            ctr["f"] += 1
        elif k == "unmask":
            plan.append(("unmask", ctr["v"]))
            ctr["v"] += 1
        else:
            plan.append((k, None))

    def fn(F, V):
        M = m(F, V)
        out = []
        for k, i in plan:
            if k == "id":
                out.append(M)
            elif k == "flatten":
                out.append(M.flatten())
            elif k == "mm":
                out.append(Mask.maybe_mask(M, F[i]))
            elif k == "mmraw":
                out.append(Mask.maybe_mask(V[0], F[0]))
            elif k == "braw":
                out.append(Mask.build(V[0], F[0]))
            elif k == "unmask":
                out.append(M.unmask(V[i]))
        return tuple(out)

    return fn


def case_slots(case):
    """Abstract slot contents of a case, in the order make_group_fn consumes them (the unmask default is the
    matrix d printed by TLC with the observation)."""
    F, V = [], []
    slots(case["term"], F, V)
    for ob in case["obs"]:
        if ob["ob"] == "mm":
            F.append(ob["g"])
        elif ob["ob"] == "unmask":
            V.append(ob["d"])
    return F, V


def mat_flag(f, how):
    import jax.numpy as jnp
    if len(f) == 1:
        return bool(f[0]) if how == "py" else jnp.array(bool(f[0]), dtype=bool)
    return jnp.array([bool(x) for x in f], dtype=bool)


def mat_value(v, pyints):
    """v[p][c] -> an array (one component) or a pair of arrays; positions form the array axis."""
    import jax.numpy as jnp
    npos, ncomp = len(v), len(v[0])
    cols = []
    for c in range(ncomp):
        col = [v[p][c] for p in range(npos)]
        if npos == 1:
            cols.append(int(col[0]) if pyints else jnp.array(col[0], dtype=jnp.int32))
        else:
            cols.append(jnp.array(col, dtype=jnp.int32))
    return cols[0] if ncomp == 1 else (cols[0], cols[1])


def materialise(F, V, mode):
    fl = []
    for i, f in enumerate(F):
        how = "py" if mode == "py" or (mode == "mix" and i % 2 == 0) else "arr"
        fl.append(mat_flag(f, how))
    va = [mat_value(v, pyints=(mode == "py")) for v in V]
    return tuple(fl), tuple(va)


# ----------------------------------------------------------------------------
# projection and comparison
# ----------------------------------------------------------------------------

def extract(r):
    """(form, flag, value) of a result through the public accessors, still as jax objects."""
    from genjax._src.core.generative.functional_types import Mask
    if r is None:
        return ("none", None, None)
    if isinstance(r, Mask):
        return ("mask", r.primal_flag(), r.value)
    return ("raw", None, r)


def project(x, kind, bi=None):
    """Observable part of an extracted (and device_get-ed) result: (form, flags per position, value matrix
    with 0 where invalid).  bi: index into a leading batch axis (vmap)."""
    import numpy as np
    form, fl, val = x
    npos = 1 if kind in (1, 2) else 2
    ncomp = 1 if kind in (1, 3) else 2
    want_shape = () if npos == 1 else (2,)
    if form == "none":
        return "none", [False] * npos, [[0] * ncomp for _ in range(npos)]
    if form == "mask":
        fl = np.asarray(fl)
        if bi is not None:
            fl = fl[bi]
        if fl.shape != want_shape:
            return form, "flagshape:%s" % (fl.shape,), None
        flags = [bool(b) for b in fl.reshape(-1)]
    else:
        flags = [True] * npos
    if ncomp == 1:
        comps = [val]
    else:
        if not (isinstance(val, tuple) and len(val) == 2):
            return form, flags, "valuestruct:%s" % type(val).__name__
        comps = list(val)
    cols = []
    for c in comps:
        a = np.asarray(c)
        if bi is not None:
            a = a[bi]
        if a.shape != want_shape:
            return form, flags, "valueshape:%s" % (a.shape,)
        cols.append([int(v) for v in a.reshape(-1)])
    mat = [[cols[c][p] if flags[p] else 0 for c in range(ncomp)] for p in range(npos)]
    return form, flags, mat


def compare(ob, got, mode):
    """List of (clause, what) for one observer result against the TLC expectation."""
    form, flags, mat = got
    out = []
    if flags != ob["f"]:
        out.append(("C19.table", "flag"))
        return out
    if not isinstance(mat, list):
        out.append(("C19.table", str(mat)))
        return out
    for p, row in enumerate(ob["v"]):
        for c, w in enumerate(row):
            if w != 0 and mat[p][c] != w:
                out.append(("C19.table", "value"))
                break
    if mode == "py" and form != ob["fc"]:
        out.append(("C19.form", "form"))
    if mode in ("arr", "jit", "vmap") and form != ob["fa"]:
        out.append(("C19.form", "form"))
    return out


def modes_for(kind):
    """Scalar flags: all five modes.  Flag vectors are arrays in every mode; 'py' then means that the scalar
    flags given to build / maybe_mask are Python bools, and 'mix' would add nothing."""
    return MODES if kind in (1, 2) else ("py", "arr", "jit", "vmap")


def run_group(cases, modes, stats):
    """Evaluate all cases of one skeleton in every mode.  Returns list of (case, failure dict).
    Cases with c['eager'] false are skipped in the op-by-op modes arr / mix (and py for flag vectors,
    where every leaf flag is an array): those modes cost milliseconds per expression."""
    import jax
    import jax.numpy as jnp
    import jax.tree_util as jtu
    fails = []
    fn = make_group_fn(cases[0])
    kind = cases[0]["kind"]
    slot_list = [case_slots(c) for c in cases]
    results = {}     # (case index, mode) -> list of projections or exception string
    slow = ("arr", "mix") if kind in (1, 2) else ("py", "arr", "mix")

    def record(ci, mode, res, bi=None):
        results[(ci, mode)] = [project(x, kind, bi) for x in res]

    def get(res):
        return jax.device_get([extract(r) for r in res])

    for mode in modes:
        if mode in ("py", "arr", "mix"):
            for ci, (F, V) in enumerate(slot_list):
                if mode in slow and not cases[ci].get("eager", True):
                    continue
                try:
                    record(ci, mode, get(fn(*materialise(F, V, mode))))
                except Exception as e:
                    results[(ci, mode)] = "raised:" + type(e).__name__ + ":" + str(e)[:120]
        elif mode == "jit":
            jf = jax.jit(fn)
            for ci, (F, V) in enumerate(slot_list):
                try:
                    record(ci, mode, get(jf(*materialise(F, V, "arr"))))
                except Exception as e:
                    results[(ci, mode)] = "raised:" + type(e).__name__ + ":" + str(e)[:120]
        elif mode == "vmap":
            try:
                mats = [materialise(F, V, "arr") for F, V in slot_list]
                stacked = jtu.tree_map(lambda *xs: jnp.stack(xs), *mats)
                res = jax.jit(jax.vmap(fn))(*stacked) if len(cases) > 8 else jax.vmap(fn)(*stacked)
                res = get(res)
                for ci in range(len(cases)):
                    record(ci, mode, res, ci)
            except Exception as e:
                for ci in range(len(cases)):
                    results[(ci, mode)] = "raised:" + type(e).__name__ + ":" + str(e)[:120]
    for ci, case in enumerate(cases):
        bad_modes = {}
        ran = [m for m in modes if (ci, m) in results]
        for mode in ran:
            got = results[(ci, mode)]
            stats["evals"] += 1
            stats["by_mode"][mode] = stats["by_mode"].get(mode, 0) + 1
            if isinstance(got, str):
                bad_modes[mode] = [("C19.table", "*", got)]
                continue
            for ob, g in zip(case["obs"], got):
                stats["obs"] += 1
                for clause, what in compare(ob, g, mode):
                    bad_modes.setdefault(mode, []).append((clause, ob["ob"] + _fl(ob["g"]), what))
        # observation only: exposure of undocumented hidden values, and whether the modes differ there
        idob = case["obs"][0]
        if any(idob["f"][p] and 0 in idob["v"][p] for p in range(len(idob["f"]))):
            stats["unspecified_exposed"] += 1
            vals = set()
            for mode in ran:
                got = results[(ci, mode)]
                if not isinstance(got, str):
                    vals.add(json.dumps(got[0][2]))
            if len(vals) > 1:
                stats["unspecified_mode_diff"] += 1
                if len(stats["unspecified_examples"]) < 3:
                    stats["unspecified_examples"].append(
                        {"term": show(case["term"]),
                         "value_by_mode": {m: results[(ci, m)][0][2] for m in ran if not isinstance(results[(ci, m)], str)}})
        for mode, items in bad_modes.items():
            for clause, obn, what in items[:2]:
                fails.append((case, {"clause": clause, "mode": mode, "ob": obn, "what": what,
                                     "got": results[(ci, mode)] if isinstance(results[(ci, mode)], str)
                                     else [list(x) for x in results[(ci, mode)]]}))
        if bad_modes and len(bad_modes) < len(ran):
            fails.append((case, {"clause": "C19.modes", "mode": "+".join(sorted(bad_modes)), "ob": "*",
                                 "what": "modes disagree"}))
    return fails


def new_stats():
    return {"evals": 0, "obs": 0, "by_mode": {}, "unspecified_exposed": 0, "unspecified_mode_diff": 0,
            "unspecified_examples": []}


def _work(arg):
    stats = new_stats()
    out = []
    for cases in arg:
        out += run_group(cases, modes_for(cases[0]["kind"]), stats)
    return out, stats


def _cfg(path, **kw):
    d = dict(MaxDepth=2, WideKinds="{1,2}", KindSet="{1,2,3,4}", Seed=0, NChains=1, NPerChain=1, RandDepth=3,
             Emit="FALSE", spec="Spec", invs=())
    d.update(kw)
    with open(path, "w") as f:
        f.write("CONSTANTS MaxDepth = %(MaxDepth)s\n WideKinds = %(WideKinds)s\n KindSet = %(KindSet)s\n Seed = %(Seed)s\n"
                " NChains = %(NChains)s\n NPerChain = %(NPerChain)s\n RandDepth = %(RandDepth)s\n Emit = %(Emit)s\n"
                "SPECIFICATION %(spec)s\n" % d)
        for i in d["invs"]:
            f.write("INVARIANT %s\n" % i)
        f.write("CHECK_DEADLOCK FALSE\n")
    return path


ROLE_A = ("IdxRefinesTable", "ConcRefinesTable", "PathsAgreeWhereSpecified", "Elementwise", "Laws", "BinaryLaws")


def run(prop_id, tier, seed, replay=None):
    rep = vlib.Report(prop_id, tier, seed)
    wd = vlib.workdir(prop_id)
    rep.rule = ("mask expressions enumerated by TLC from spec/Masks.tla (BFS over | ^ ~ build, plus LCG-random deeper "
                "terms), each with the expected (flag, valid value, form) of the observers id / flatten / unmask(default) "
                "/ maybe_mask(m, g) / maybe_mask(raw, f); replayed on genjax Mask with flags as Python bools (py), arrays "
                "(arr), alternating (mix), jit tracers (jit) and vmap tracers over the whole flag/value grid of the "
                "expression shape (vmap). evaluations = expression x mode. non-trivial = distinct expression of depth "
                ">=1 with at least one valid position")
    wide = "{1,2}" if tier == "quick" else "{1,2,3,4}"
    if replay:
        with open(replay) as f:
            cases = [json.load(f)["detail"]["case"]]
    else:
        a = vlib.run_tlc("Masks", _cfg(os.path.join(wd, "MC.cfg"), WideKinds=wide, invs=ROLE_A), wd, tag="roleA")
        rep.add_tlc(a)
        b = vlib.run_tlc("Masks", _cfg(os.path.join(wd, "Gen.cfg"), WideKinds=wide, Emit="TRUE", invs=("EmitCase",)),
                         wd, tag="roleB", timeout=3000)
        rep.add_tlc(b)
        per = 12 if tier == "quick" else 600
        s = vlib.run_tlc("Masks", _cfg(os.path.join(wd, "Rand.cfg"), Seed=seed % 60000, NChains=16, NPerChain=per,
                                       RandDepth=3 if tier == "quick" else 4, Emit="TRUE", spec="SpecRand",
                                       invs=("EmitCase",) + ROLE_A), wd, tag="rand", timeout=3000)
        rep.add_tlc(s)
        seen = {}
        for res in (b, s):
            for c in res.payloads():
                key = (c["kind"], show(c["term"]))
                if key not in seen:
                    seen[key] = c
        cases = list(seen.values())
        rep.exhaustive = True
        rep.extra["exhaustive_scope"] = ("all mask expressions of depth <=2 over | ^ ~ build(.,g) on 4 leaves for scalar "
                                         "flags (kinds 1,2); depth <=1 and leaf-sided depth 2 on 8 leaves for flag vectors "
                                         "(kinds 3,4)" if tier == "quick" else
                                         "all mask expressions of depth <=2 over | ^ ~ build(.,g) for all four kinds")
        rep.extra["roleA_states"] = a.distinct
        rep.extra["roleA_invariants"] = list(ROLE_A)
    groups = {}
    third = 1 if (replay or tier != "quick") else 3
    for i, c in enumerate(cases):
        # op-by-op array modes: every expression of depth <=1, and a seed-dependent third of the deeper ones
        # in the quick tier (py / jit / vmap run on every expression)
        c["eager"] = _depth(c["term"]) <= 1 or (i + seed) % third == 0
        groups.setdefault((c["kind"], skeleton(c["term"])), []).append(c)
    glist = sorted(groups.values(), key=len, reverse=True)
    nchunk = vlib.NCPU * 4
    chunks = [[] for _ in range(nchunk)]
    for i, g in enumerate(glist):
        chunks[i % nchunk].append(g)
    chunks = [c for c in chunks if c]
    os.environ.setdefault("XLA_FLAGS", "--xla_cpu_multi_thread_eigen=false intra_op_parallelism_threads=1")
    os.environ.setdefault("OMP_NUM_THREADS", "1")
    with vlib.pinned_pool(min(vlib.NCPU, max(1, len(chunks)))) as pool:
        results = pool.map(_work, chunks, chunksize=1)
    tot = new_stats()
    for fails, st in results:
        for m, n in st["by_mode"].items():
            tot["by_mode"][m] = tot["by_mode"].get(m, 0) + n
        for k in ("evals", "obs", "unspecified_exposed", "unspecified_mode_diff"):
            tot[k] += st[k]
        tot["unspecified_examples"] += st["unspecified_examples"]
        for case, f in fails:
            sig = {"clause": f["clause"], "mode": f["mode"], "ob": f["ob"], "what": f["what"],
                   "kind": case["kind"], "top": case["term"]["op"], "term": show(case["term"])}
            rep.violation(sig, {"case": case, "fail": f})
    rep.evaluations = tot["evals"]
    rep.traces = len(cases)
    rep.extra["observer_comparisons"] = tot["obs"]
    rep.extra["expression_shapes"] = len(glist)
    rep.extra["evaluations_by_mode"] = tot["by_mode"]
    rep.extra["unspecified_hidden_value_exposed_cases"] = tot["unspecified_exposed"]
    rep.extra["unspecified_hidden_value_mode_differences"] = tot["unspecified_mode_diff"]
    rep.extra["unspecified_examples"] = tot["unspecified_examples"][:3]
    for c in cases:
        if c["term"]["op"] != "leaf" and any(c["obs"][0]["f"]):
            rep.nontrivial.add((c["kind"], show(c["term"])))
    for c in cases[:: max(1, len(cases) // 4)]:
        rep.sample({"kind": c["kind"], "term": show(c["term"]),
                    "expected": [[o["ob"] + _fl(o["g"]), _fl(o["f"]), o["v"], o["fc"], o["fa"]] for o in c["obs"][:3]]})
    rep.assumptions = [
        "values are int32 arrays (Python ints in py mode for scalar flags); pair values are 2-tuples; flag vectors have length 2",
        "the value retained inside a mask that | or ^ made invalid is undocumented: Masks.tla gives 0 (unspecified) there, "
        "the comparison skips those entries even when a later ~ exposes them; exposures are counted in coverage",
        "form (None / raw value / Mask) of flatten and maybe_mask is compared only when all flags are Python bools or all are arrays",
        "Ev (documented tables) is the oracle; TLC checked that the index-arithmetic and concrete-match transcriptions refine it",
    ]
    return rep.finish()
