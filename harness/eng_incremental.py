"""C09 — incremental interpreter: TLC-generated JaxIR programs x all taggings x all valuations replayed on
genjax.incremental; primals compared with TLC's EvalProg table, NoChange tags validated against TLC's Indep."""

from __future__ import annotations

import json
import multiprocessing as mp
import os
import random

from . import jaxir, vlib

PROPS = {
    "C09": dict(
        spec="Incremental",
        category="model_checking", design_ref="§5 C09",
        technique="TLA+ spec (JaxIR.tla reference semantics + Incremental.tla non-interference) model-checked by TLC; "
                  "TLC-generated IR programs replayed on genjax.incremental and compared with TLC-computed values and independence sets",
        text="TLC builds JaxIR programs (<=4 equations, <=3 inputs incl. one length-3 vector; add sub mul neg max lt where index, "
             "cond/scan/fori/while/initial-style call with 1-2 outputs, literals, closed-over constants, outputs that are inputs, "
             "literals or constants): an exhaustive one-equation family plus LCG-generated programs (every prefix is a case). For "
             "each program TLC tabulates EvalProg over all <=27 valuations and decides, for every one of the 2^k taggings and every "
             "output, whether the output is constant over all valuations of the Unknown inputs; it also model-checks that the "
             "documented default propagation rule is non-interfering. The driver runs incremental(f)(None, primals, tangents) eagerly "
             "and under jax.jit for every tagging and every valuation and requires primals == EvalProg == f(*primals) and "
             "impl-NoChange outputs to be in TLC's independence set. Precision is not demanded.",
        note="Trusted: TLC, the IR->JAX builder (checked against EvalProg on ordinary evaluation every run), mod-3 integer arithmetic, "
             "vector input restricted to 3 valuations.",
    ),
}


def write_cfg(path, spec, seed, nchains, nper, arith, maxeqs, bfseqs, maxnest, invariants):
    with open(path, "w") as f:
        f.write(f"CONSTANTS Seed = {seed % 60000}\n NChains = {nchains}\n NPerChain = {nper}\n ArithChains = {arith}\n"
                f" MaxEqs = {maxeqs}\n BfsEqs = {bfseqs}\n MaxNest = {maxnest}\n Emit = TRUE\nSPECIFICATION {spec}\n")
        for inv in invariants:
            f.write(f"INVARIANT {inv}\n")
        f.write("CHECK_DEADLOCK FALSE\n")


def generate(module, wd, seed, tier, rep, invariants, rand=None):
    """One TLC run of SpecAll (exhaustive one-equation family + LCG chains) of Incremental.tla / Stateful.tla:
    role A invariants and case emission together.  Returns the list of cases."""
    if rand is None:
        rand = dict(nchains=30, nper=1, arith=9) if tier == "quick" else dict(nchains=96, nper=5, arith=32)
    cfg = os.path.join(wd, "Gen.cfg")
    write_cfg(cfg, "SpecAll", seed, rand["nchains"], rand["nper"], rand["arith"], 4, 1, 2, invariants)
    a = vlib.run_tlc(module, cfg, wd, tag="gen", timeout=2400)
    rep.add_tlc(a)
    cases, seen = [], set()
    for c in a.payloads("CASE"):
        key = json.dumps([c["prog"], c["ityp"]], sort_keys=True)
        if key in seen:
            continue
        seen.add(key)
        c["src"] = "bfs" if c["chain"] < 0 else "rand"
        c["id"] = len(cases)
        cases.append(c)
    rep.extra["tlc_states"] = a.distinct
    rep.extra["cases_by_source"] = {k: sum(1 for c in cases if c["src"] == k) for k in ("bfs", "rand")}
    return cases


# ----------------------------------------------------------------------------------------------
# worker side
# ----------------------------------------------------------------------------------------------

def _tangents(t, k):
    from genjax._src.core.compiler.interpreters.incremental import NoChange, UnknownChange
    return tuple(UnknownChange if (t >> j) & 1 else NoChange for j in range(k))


def _observe(out):
    """Output pytree of incremental(f) -> (list of projected primals, list of 'N'/'U' per leaf).
    Tags are read with Diff.tree_tangent (non-Diff leaves count as NoChange, as it defines)."""
    import jax.tree_util as jtu
    from genjax._src.core.compiler.interpreters.incremental import Diff, NoChange
    prim = jtu.tree_leaves(Diff.tree_primal(out))
    tans = jtu.tree_leaves(Diff.tree_tangent(out), is_leaf=Diff.is_change_tangent)
    return [jaxir.project(p) for p in prim], ["N" if t == NoChange else "U" for t in tans]


def check_case(case, seed, n_eager):
    """All taggings x valuations of one program.  Returns dict(fails=[...], stats...)."""
    import jax
    from genjax._src.core.compiler.interpreters.incremental import incremental
    prog, kc, vals, ev, indep = case["prog"], case["kc"], case["vals"], case["ev"], case["indep"]
    k = len(case["ityp"])
    nout = len(prog["outs"])
    f = jaxir.build(prog, kc)
    inputs = [tuple(jaxir.to_input(v) for v in val) for val in vals]
    rng = random.Random(seed * 1000003 + case["id"])
    fails, machinery = [], []
    stats = dict(calls=0, nochange=0, unknown=0, nontrivial=[], precise=0, taggings=0, skipped_call=0)
    T = list(range(2 ** k))
    srcs = [jaxir.out_source(prog, j) for j in range(nout)]

    # ordinary evaluation (eager, one valuation): must agree with TLC, else the builder is wrong
    has_call = "call" in jaxir.ops_of(prog)

    def ordinary_bad(n, o, how):
        """Ordinary evaluation disagrees with TLC.  If the program contains genjax's initial-style primitive (`call`) and the
        same program with the wrapped function applied directly agrees with TLC, the primitive itself is broken -- that is
        C36's clause, not C09's: the program is skipped (counted).  Otherwise the builder / spec is wrong (exit 2)."""
        if has_call:
            fi = jaxir.build(prog, kc, inline_calls=True)
            if [jaxir.project(x) for x in fi(*inputs[n])] == ev[n]:
                stats["skipped_call"] = 1
                return
        machinery.append(f"builder/spec disagreement on {how} ordinary evaluation: {jaxir.show(prog)} val={vals[n]} jax={o} tlc={ev[n]}")

    n0 = rng.randrange(len(inputs))
    try:
        o = [jaxir.project(x) for x in f(*inputs[n0])]
    except Exception as e:  # noqa: BLE001
        o = "raised:" + repr(e)[:200]
    if o != ev[n0]:
        ordinary_bad(n0, o, "eager")
        return dict(fails=[], machinery=machinery, stats=stats)

    ordinary = {}

    def judge(mode, t, n, out):
        prim, tags = out
        stats["calls"] += 1
        if len(prim) != nout or len(tags) != nout:
            fails.append(dict(clause="C09.primal", mode=mode, t=t, n=n, why="shape", got=len(prim), want=nout))
            return
        for j in range(nout):
            if prim[j] != ev[n][j] or (n in ordinary and prim[j] != ordinary[n][j]):
                fails.append(dict(clause="C09.primal", mode=mode, t=t, n=n, out=j, got=prim[j], want=ev[n][j], src=srcs[j]))
            if tags[j] == "N" and indep[t][j] != 1:
                fails.append(dict(clause="C09.noninterf", mode=mode, t=t, n=n, out=j, src=srcs[j],
                                  why="tagged NoChange but EvalProg varies over the Unknown inputs"))

    tags_seen = {}
    # jit: every tagging x every valuation; one compilation per program (ordinary f and all taggings together)
    def everything(*a):
        return f(*a), tuple(incremental(f)(None, a, _tangents(t, k)) for t in T)

    def run_jit(fun, label_ts):
        jfun = jax.jit(fun)
        for n, inp in enumerate(inputs):
            ordn, outs = jax.device_get(jfun(*inp))
            if ordn is not None:
                ordinary[n] = [jaxir.project(x) for x in ordn]
                if ordinary[n] != ev[n]:
                    ordinary_bad(n, ordinary[n], "jit")
                    return
            for t, out in zip(label_ts, outs):
                ob = _observe(out)
                judge("jit", t, n, ob)
                tags_seen[t] = ob[1]

    try:
        run_jit(everything, T)
    except Exception:  # noqa: BLE001  -- localise: ordinary alone, then one jit per tagging
        try:
            run_jit(lambda *a: (f(*a), ()), [])
        except Exception as e:  # noqa: BLE001
            machinery.append(f"ordinary jit evaluation raised {e!r} on {jaxir.show(prog)}")
            return dict(fails=fails, machinery=machinery, stats=stats)
        for t in T:
            try:
                run_jit(lambda *a, _t=t: (None, (incremental(f)(None, a, _tangents(_t, k)),)), [t])
            except Exception as e:  # noqa: BLE001
                fails.append(dict(clause="C09.primal", mode="jit", t=t, n=-1, why="raised:" + type(e).__name__, error=repr(e)[:300]))
                stats["calls"] += 1
    if stats["skipped_call"] or machinery:
        return dict(fails=[], machinery=machinery, stats=stats)
    # eager: a seeded subset of (tagging, valuation)
    for t in (T if n_eager >= len(T) else rng.sample(T, n_eager)):
        n = rng.randrange(len(inputs))
        try:
            out = _observe(incremental(f)(None, inputs[n], _tangents(t, k)))
        except Exception as e:  # noqa: BLE001
            fails.append(dict(clause="C09.primal", mode="eager", t=t, n=n, why="raised:" + type(e).__name__, error=repr(e)[:300]))
            stats["calls"] += 1
            continue
        judge("eager", t, n, out)

    for t, ts in tags_seen.items():
        stats["taggings"] += 1
        if len(ts) != nout:
            continue
        nn = ts.count("N")
        stats["nochange"] += nn
        stats["unknown"] += nout - nn
        comp = [ts[j] for j in range(nout) if srcs[j] not in ("input", "literal", "const")]
        if "N" in comp and "U" in comp:
            stats["nontrivial"].append(t)
        if [0 if x == "N" else 1 for x in ts] == case["ref"][t]:
            stats["precise"] += 1
    return dict(fails=fails, machinery=machinery, stats=stats)


def _work(arg):
    cases, seed, n_eager = arg
    out = []
    for c in cases:
        try:
            r = check_case(c, seed, n_eager)
        except Exception as e:  # noqa: BLE001
            import traceback
            r = dict(fails=[], machinery=[f"driver exception on case {c['id']}: {e!r}\n{traceback.format_exc()[-1500:]}"], stats=None)
        out.append((c["id"], r))
    return out


def cost(case):
    k = len(case["ityp"])
    heavy = len([1 for e in case["prog"]["eqs"] if e["op"] in ("cond", "scan", "fori", "while", "call")])
    return (2 ** k) * (1 + 3 * heavy)


def balance(cases, nbuckets):
    """Greedy longest-processing-time split."""
    buckets = [[0, []] for _ in range(nbuckets)]
    for c in sorted(cases, key=cost, reverse=True):
        b = min(buckets, key=lambda x: x[0])
        b[0] += cost(c)
        b[1].append(c)
    return [b[1] for b in buckets if b[1]]


def run(prop_id, tier, seed, replay=None):
    replay_doc = None
    if replay:                      # read it first: it may live in the work dir that is recreated below
        with open(replay) as f:
            replay_doc = json.load(f)
    rep = vlib.Report(prop_id, tier, seed)
    wd = vlib.workdir(prop_id)
    rep.rule = ("cases = JaxIR programs built by TLC (Incremental.tla: SpecBfs one-equation family, SpecRand LCG chains, every "
                "prefix); per program every tagging (2^k) x every valuation (3^k) is run through genjax.incremental under jax.jit "
                "and a seeded subset eagerly; evaluations = interpreter calls compared with TLC; non-trivial = distinct "
                "(program, tagging) where the implementation tagged some computed outputs NoChange and others Unknown")
    if replay:
        cases = [replay_doc["detail"]["case"]]
    else:
        cases = generate("Incremental", wd, seed, tier, rep, ["RoleA", "EmitCase"])
        rep.exhaustive = False
        rep.extra["exhaustive_scope"] = ("SpecBfs: every one-equation program of SmallEqs over inputs (s,s,v), all taggings, all "
                                         "valuations (exhaustive); SpecRand: sampled")
    n_eager = 2 if tier == "quick" else 8
    jobs = [(b, seed, n_eager) for b in balance(cases, vlib.NCPU * 3)]
    with vlib.pinned_pool() as pool:
        results = pool.map(_work, jobs, chunksize=1)
    by_id = {c["id"]: c for c in cases}
    machinery = []
    tot = dict(calls=0, nochange=0, unknown=0, precise=0, taggings=0, skipped_call=0)
    opsseen, per_sig = {}, {}
    for chunk in results:
        for cid, r in chunk:
            c = by_id[cid]
            machinery += r["machinery"]
            if r["stats"] is None:
                continue
            st = r["stats"]
            for key in tot:
                tot[key] += st[key]
            for t in st["nontrivial"]:
                rep.nontrivial.add((cid, t))
            for op in jaxir.ops_of(c["prog"]):
                opsseen[op] = opsseen.get(op, 0) + 1
            for fl in r["fails"]:
                key = (fl["clause"], fl["mode"], fl.get("src", fl.get("why")))
                per_sig[key] = per_sig.get(key, 0) + 1
                if per_sig[key] > 3:       # keep the report readable: 3 replay files per (clause, mode, source)
                    continue
                sig = {"clause": fl["clause"], "mode": fl["mode"], "src": fl.get("src", fl.get("why")),
                       "program": jaxir.show(c["prog"]), "tagging": fl["t"]}
                rep.violation(sig, {"case": c, "fail": fl})
    if machinery:
        raise vlib.MachineryError("\n".join(machinery[:5]))
    rep.evaluations = tot["calls"]
    rep.traces = tot["calls"]
    for c in cases[:: max(1, len(cases) // 4)]:
        rep.sample({"program": jaxir.show(c["prog"]), "inputs": c["ityp"], "indep_by_tagging": c["indep"]})
    rep.extra.update(programs=len(cases), taggings=tot["taggings"], ops_covered=opsseen,
                     impl_nochange_leaves=tot["nochange"], impl_unknown_leaves=tot["unknown"],
                     taggings_where_impl_equals_reference_rule=tot["precise"],
                     programs_skipped_because_initial_style_primitive_misevaluates=tot["skipped_call"],
                     violations_by_kind={"/".join(map(str, k)): v for k, v in per_sig.items()})
    rep.assumptions = ["values are integers mod 3; the vector input ranges over 3 fixed vectors, scalars over 0..2",
                       "EvalProg (JaxIR.tla) is the oracle; the IR->JAX builder is validated against it on ordinary evaluation in every run",
                       "RefSound / IndepAntitone / TabTyped model-checked by TLC on every generated program (role A)"]
    return rep.finish()
