"""JaxIR term (spec/JaxIR.tla, printed by TLC with ToJson) -> a real Python function over jnp / lax.

This is the *builder* shared by the interpreter engines (C09, C36, C31): it only translates each IR
operator to the JAX call named in the header of JaxIR.tla.  The meaning of the built function is
whatever JAX computes; the expected values always come from TLC (EvalProg).  jax / genjax are
imported lazily (workers only).
"""

from __future__ import annotations

_CALL_P = None


def call_primitive():
    """One InitialStylePrimitive for the IR op `call` (genjax's own initial-style machinery)."""
    global _CALL_P
    if _CALL_P is None:
        from genjax._src.core.compiler.initial_style_primitive import InitialStylePrimitive
        _CALL_P = InitialStylePrimitive("verif_call")
    return _CALL_P


def to_input(v):
    """IR value (list of ints; length 1 = scalar) -> jnp int32 array."""
    import jax.numpy as jnp
    return jnp.int32(v[0]) if len(v) == 1 else jnp.array(v, dtype=jnp.int32)


def project(x):
    """Implementation value -> IR value (list of ints)."""
    import numpy as np
    if isinstance(x, (int, bool)):
        return [int(x)]
    a = np.asarray(x)
    return [int(t) for t in a.reshape(-1).tolist()]


def build(prog, kc, rec=None, tag=None, prims_only=False, inline_calls=False, close_calls=False):
    """Return f(*inputs) -> tuple of output leaves for the IR program `prog`.

    kc: the closed-over constants (KConsts of the spec, printed with the case).
    rec / tag: genjax.time_travel.rec / tag for `rec` equations (C31 only).
    close_calls: the function wrapped by `call` receives its FIRST operand through its closure instead of as an argument
    (same meaning; the operand becomes a hoisted constant of the initial-style primitive, a tracer of the enclosing staging pass).
    inline_calls: the IR op `call` applies the wrapped function directly instead of going through genjax's
    initial_style_bind (used only to tell a builder bug from a broken initial-style primitive).
    prims_only: arithmetic is written with lax primitives instead of the jit-wrapped jnp functions (same values; the
    time-travel interpreter re-stages and eagerly re-executes the program at every remix, and every eager pjit equation
    of a fresh jaxpr costs an XLA compilation)."""
    import jax.numpy as jnp
    from jax import lax

    consts = [to_input(c) for c in kc]

    def arr(x):
        return jnp.asarray(x, dtype=jnp.int32)

    def opnd(o, env):
        k = o["k"]
        if k == "v":
            return env[o["i"] - 1]
        if k == "l":
            return int(o["i"])          # a Python literal
        return consts[o["i"] - 1]       # closed-over jnp array

    def mk(p, as_arrays=False):
        def f(*inputs):
            env = list(inputs)
            for e in p["eqs"]:
                env.extend(eq(e, env))
            outs = tuple(opnd(o, env) for o in p["outs"])
            return tuple(arr(o) for o in outs) if as_arrays else outs
        return f

    def eq(e, env):
        op = e["op"]
        a = [opnd(o, env) for o in e["ins"]]
        if prims_only and op in ("add", "sub", "mul", "neg", "max", "lt", "where", "index"):
            a = [arr(x) for x in a]
            three = jnp.int32(3)
            if op == "add":
                return [lax.rem(lax.add(a[0], a[1]), three)]
            if op == "sub":
                return [lax.rem(lax.add(lax.sub(a[0], a[1]), three), three)]
            if op == "mul":
                return [lax.rem(lax.mul(a[0], a[1]), three)]
            if op == "neg":
                return [lax.rem(lax.sub(three, a[0]), three)]
            if op == "max":
                return [lax.max(a[0], a[1])]
            if op == "lt":
                return [lax.convert_element_type(lax.lt(a[0], a[1]), jnp.int32)]
            if op == "where":
                return [lax.select(lax.gt(a[0], jnp.int32(0)), a[1], a[2])]
            if op == "index":
                return [lax.dynamic_index_in_dim(a[0], lax.clamp(jnp.int32(0), a[1], jnp.int32(2)), 0, keepdims=False)]
        if op == "add":
            return [jnp.mod(a[0] + a[1], 3)]
        if op == "sub":
            return [jnp.mod(a[0] - a[1], 3)]
        if op == "mul":
            return [jnp.mod(a[0] * a[1], 3)]
        if op == "neg":
            return [jnp.mod(-a[0], 3)]
        if op == "max":
            return [jnp.maximum(a[0], a[1])]
        if op == "lt":
            return [jnp.less(a[0], a[1]).astype(jnp.int32)]
        if op == "where":
            return [jnp.where(jnp.greater(a[0], 0), a[1], a[2])]
        if op == "index":
            return [a[0][jnp.clip(a[1], 0, 2)]]
        if op == "cond":
            A, B = mk(e["sub"][0], True), mk(e["sub"][1], True)
            return list(lax.cond(jnp.greater(a[0], 0), A, B, *a[1:]))
        if op == "scan":
            body = mk(e["sub"][0], True)
            c, ys = lax.scan(lambda c, x: body(c, x), arr(a[0]), a[1])
            return [c, ys]
        if op == "fori":
            body = mk(e["sub"][0], True)
            return [lax.fori_loop(0, int(e["n"]), lambda i, c: body(i, c)[0], arr(a[0]))]
        if op == "while":
            body = mk(e["sub"][0], True)
            st = lax.while_loop(lambda s: s[0] > 0,
                                lambda s: (s[0] - 1,) + tuple(body(*s[1:])),
                                (jnp.minimum(arr(a[0]), 3),) + tuple(arr(x) for x in a[1:]))
            return list(st[1:])
        if op == "call" and inline_calls:
            return list(mk(e["sub"][0])(*a))
        if op == "call" and close_calls and len(a) >= 1:
            from genjax._src.core.compiler.initial_style_primitive import initial_style_bind
            sub, a0 = mk(e["sub"][0]), a[0]
            return list(initial_style_bind(call_primitive())(lambda *rest: sub(a0, *rest))(*a[1:]))
        if op == "call":
            from genjax._src.core.compiler.initial_style_primitive import initial_style_bind
            return list(initial_style_bind(call_primitive())(mk(e["sub"][0]))(*a))
        if op == "rec":
            g = e["sub"][0]
            t = None if e["tg"] == "none" else e["tg"]
            if tag is not None and not g["eqs"] and g["nin"] == 1 and g["outs"] == [{"k": "v", "i": 1}]:
                return [tag(a[0], t)]               # genjax.time_travel.tag(v, name)
            return list(rec(mk(g), t)(*a))
        raise ValueError(op)

    return mk(prog)


def ops_of(prog, acc=None):
    acc = set() if acc is None else acc
    for e in prog["eqs"]:
        acc.add(e["op"])
        for s in e["sub"]:
            ops_of(s, acc)
    return acc


def show(prog):
    """Compact one-line rendering of a program term (for evidence samples / signatures)."""
    def o(x):
        return {"v": "x", "l": "", "c": "K"}[x["k"]] + str(x["i"])

    def p(pr):
        eqs = []
        for e in pr["eqs"]:
            s = e["op"] + "(" + ",".join(o(x) for x in e["ins"]) + ")"
            if e["op"] == "fori":
                s += f"#{e['n']}"
            if e["op"] == "rec":
                s += f"@{e['tg']}"
            if e["sub"]:
                s += "[" + " | ".join(p(q) for q in e["sub"]) + "]"
            eqs.append(s)
        return f"\\{pr['nin']}. " + "; ".join(eqs) + " -> (" + ",".join(o(x) for x in pr["outs"]) + ")"
    return p(prog)


def out_source(prog, j):
    """Where output j of a top-level program comes from: input / literal / const / the producing op."""
    o = prog["outs"][j]
    if o["k"] == "l":
        return "literal"
    if o["k"] == "c":
        return "const"
    i = o["i"]
    if i <= prog["nin"]:
        return "input"
    pos = prog["nin"]
    for e in prog["eqs"]:
        n = 2 if e["op"] == "scan" else (len(e["sub"][0]["outs"]) if e["op"] in ("cond", "while", "call", "rec") else 1)
        if i <= pos + n:
            return e["op"]
        pos += n
    return "?"
