"""Property registry: engine, claimed level, notes.  tools/gen_manifest.py turns it into MANIFEST.json."""

PROPS = {
    "C18": dict(
        engine="eng_selections", spec="Selections",
        category="model_checking", design_ref="§5 C18",
        technique="TLA+ spec (Selections.tla) model-checked by TLC; TLC-enumerated terms replayed on the real Selection classes and compared with the TLC-computed denotation",
        text="Bounded-exhaustive: TLC enumerates every selection term up to depth 2 (thorough: 3) over 12 atoms plus LCG-generated depth-4 terms, checks Mem<=>Den, the sub-selection law and soundness of the simplifying constructors on the spec itself, and every term is replayed on the implementation for all 40 addresses of length <=3 (membership via [], in, and every prefix/suffix split of sel(a)[b]), both with public constructors and raw dataclasses.",
        note="Trusted: TLC, the Python term builder (public API calls only), address universe {a,b,c}^<=3.",
    ),
}
NOT_APPLICABLE = {}
