"""Property registry.  Every engine module harness/eng_*.py defines a module-level dict
PROPS = {"Cxx": dict(spec=..., category=..., design_ref=..., technique=..., text=..., note=...)}
and a function run(prop_id, tier, seed, replay=None) -> exit code.  Engine modules must be
import-light (no jax/genjax import at module level).  tools/gen_manifest.py turns this into
MANIFEST.json; harness/main.py dispatches on it."""
import glob
import importlib
import os
import sys

# properties deliberately not claimed, with the reason (goes to MANIFEST.not_applicable)
NOT_APPLICABLE = {}


def discover():
    props = {}
    here = os.path.dirname(os.path.abspath(__file__))
    for path in sorted(glob.glob(os.path.join(here, "eng_*.py"))):
        name = os.path.splitext(os.path.basename(path))[0]
        try:
            mod = importlib.import_module("harness." + name)
        except Exception as e:  # a broken engine must not take the others down
            print(f"registry: cannot import {name}: {e!r}", file=sys.stderr)
            continue
        for pid, p in getattr(mod, "PROPS", {}).items():
            q = dict(p)
            q["engine"] = name
            props[pid] = q
    return props


PROPS = discover()
