"""C04 -- simulate samples the program's distribution (dyadic categorical programs, Hoeffding bound decided by TLC)."""

from __future__ import annotations

import json
import math
import os

from . import vlib
from . import eng_gfi

RESAMPLE = ["CRepSw", "CVmSw"]      # update that changes every element's switch index: the fresh draws must be independent
PROGS = ["CChain", "CIndep", "CNest", "CVm", "CRep", "CSc", "CScI", "CScN", "CSw", "CMsk", "CMix", "CDm", "CSS", "CVmN", "CScR"]
DELTA = 1e-12

PROPS = {
    "C04": dict(spec="GFI, GFILaws, GFISample", category="model_checking", design_ref="§5 C04",
                technique="TLA+ denotational semantics gives the exact probability of every complete choice assignment; "
                          "counts from N simulated keys on the real genjax are validated by TLC against a non-asymptotic "
                          "Hoeffding bound in integer arithmetic (trace validation)",
                text="For 15 finite discrete programs over dyadic categoricals (static nesting, vmap, repeat, scan with and without "
                     "carry dependence and with a nested static call in the kernel, switch, mask, mix, dimap) N keys are simulated in one vmap; TLC enumerates the support "
                     "from Exec, checks every observed assignment is in it, every support cell's frequency is within the "
                     "Hoeffding bound (delta=1e-12 over all cells), every pairwise marginal (two addresses, value or absence) is within the same bound, the counts total N, the spec's probabilities sum to 1, and "
                     "the same keys reproduce the same traces (also through propose). Two further programs (repeat / vmap of a switch) are sampled through an UPDATE that changes every element's branch index: the redrawn elements must be independent draws (joint cells within the bound).",
                note="Detects deviations >= ~0.065 (quick) / ~0.03 (thorough) in a cell probability (key reuse between sites or "
                     "iterations moves cells by >= 0.125). Continuous programs' moments are not covered."),
}


def _sample(args):
    try:
        return _sample1(args)
    except Exception as ex:
        import traceback
        catalog, pid, ai, n, seed = args
        return {"pid": pid, "args": catalog[pid]["as"][ai], "error": type(ex).__name__, "msg": traceback.format_exc()[-1500:]}


def _sample1(args):
    catalog, pid, ai, n, seed = args
    via_update = ai < 0
    import jax
    import jax.numpy as jnp
    import numpy as np
    from . import gfi_build as gb
    e = catalog[pid]
    p = e["p"]
    gf = gb.build(p)
    argsV = e["as"][1 if via_update else ai]
    a = gb.call_args(p, argsV)
    keys = jax.random.split(jax.random.key(seed), n)
    from genjax import Mask
    if via_update:
        from genjax import Update, ChoiceMap
        from genjax._src.core.compiler.interpreters.incremental import Diff
        base = gf.simulate(jax.random.key(seed + 7), gb.call_args(p, e["as"][0]))

    def table(chm):
        vs, ps = [], []
        for path in e["addrs"]:
            pp = gb.path_py(path)
            v = (chm(*pp) if pp else chm).get_value()
            if v is None:
                vs.append(jnp.zeros((), jnp.int32)); ps.append(jnp.array(False))
            elif isinstance(v, Mask):
                vs.append(jnp.asarray(v.value, jnp.int32)); ps.append(jnp.asarray(v.flag, bool))
            else:
                vs.append(jnp.asarray(v, jnp.int32)); ps.append(jnp.array(True))
        return jnp.stack(vs), jnp.stack(ps)

    def sim(k):
        if via_update:      # the branch index of every element changes: the whole execution is redrawn
            tr, _, _, _ = Update(ChoiceMap.empty()).edit(k, base, Diff.unknown_change(a))
        else:
            tr = gf.simulate(k, a)
        v, pr = table(tr.get_choices())
        return v, pr, tr.get_score(), tr.get_args()

    def prop(k):
        ch, sc, rv = gf.propose(k, a)
        v, pr = table(ch)
        return v, pr, sc

    vals, pres, sc1, oargs = [np.asarray(x) if not isinstance(x, tuple) else x for x in jax.jit(jax.vmap(sim))(keys)]
    vals2, pres2, sc2, _ = jax.jit(jax.vmap(sim))(keys)
    vals3, pres3, sc3 = jax.jit(jax.vmap(prop))(keys) if not via_update else (vals, pres, sc1)
    vals2, pres2, vals3, pres3 = map(np.asarray, (vals2, pres2, vals3, pres3))
    det = bool(np.array_equal(vals * pres, vals2 * pres2) and np.array_equal(pres, pres2)
               and np.array_equal(vals * pres, vals3 * pres3) and np.array_equal(pres, pres3)
               and np.allclose(np.asarray(sc1), np.asarray(sc3)) and np.allclose(np.asarray(sc1), np.asarray(sc2)))
    enc = np.where(pres, vals, -1)
    uniq, counts = np.unique(enc, axis=0, return_counts=True)
    cells = []
    for row, c in zip(uniq, counts):
        cells.append({"choices": [[path, int(v)] for path, v in zip(e["addrs"], row) if v >= 0], "count": int(c)})
    one = jax.tree_util.tree_map(lambda x: x[0], oargs)
    return {"pid": pid, "args": argsV, "obsargs": gb.proj_args(p, one), "n": n, "cells": cells, "det": det}


REGEN_PROGS = ["CChain", "CIndep", "CNest", "CDm", "CSc", "CScI"]
DEPENDENT_ITER = {"CSc"}     # later iterations' parents are regenerated too: only the first selected address has parents fixed by the base trace


def _regen(args):
    """C07.prior: regenerate one selected leaf address of a fixed base trace under N keys; counts of its new value."""
    catalog, pid, ai, n, seed = args
    try:
        import jax
        import jax.numpy as jnp
        import numpy as np
        from . import gfi_build as gb
        from genjax import Selection
        from genjax._src.core.generative.requests import Regenerate
        from genjax._src.core.compiler.interpreters.incremental import Diff
        e = catalog[pid]
        p = e["p"]
        gf = gb.build(p)
        argsV = e["as"][ai]
        a = gb.call_args(p, argsV)
        base = gf.simulate(jax.random.key(seed), a)
        base_ch = gb.proj_chm(base.get_choices(), e["addrs"], decoys=False)
        keys = jax.random.split(jax.random.key(seed + 1), n)
        out = []
        for path, _ in base_ch:
            static = [c for c in path if not c.isdigit()]
            if len(static) != len(path):
                sel_paths = [q for q, _ in base_ch if [c for c in q if not c.isdigit()] == static]   # index levels are transparent
            else:
                sel_paths = [path]
            if path != sel_paths[0]:
                continue
            sel = Selection.at[tuple(static) if len(static) > 1 else static[0]]

            def f(k):
                new, w, _, _ = Regenerate(sel).edit(k, base, Diff.no_change(a))
                vals = []
                for q in e["addrs"]:
                    pp = gb.path_py(q)
                    v = (new.get_choices()(*pp) if pp else new.get_choices()).get_value()
                    vals.append(jnp.asarray(v, jnp.int32) if v is not None else jnp.array(-1, jnp.int32))
                return jnp.stack(vals), w, new.get_score()
            try:
                vals, w, sc = jax.jit(jax.vmap(f))(keys)
            except Exception as ex:
                out.append({"kind": "regen", "pid": pid, "args": argsV, "error": type(ex).__name__, "addr": path})
                continue
            vals = np.asarray(vals)
            col = {tuple(q): j for j, q in enumerate(e["addrs"])}
            basev = {tuple(q): v for q, v in base_ch}
            others = all(np.all(vals[:, col[q]] == v) for q, v in basev.items() if list(q) not in sel_paths)
            wok = bool(np.allclose(np.asarray(w), np.asarray(sc) - float(base.get_score()), atol=1e-3))
            for sp in (sel_paths[:1] if pid in DEPENDENT_ITER else sel_paths):
                c = vals[:, col[tuple(sp)]]
                out.append({"kind": "regen", "pid": pid, "args": argsV, "base": base_ch, "addr": sp, "n": n,
                            "counts": [int(np.sum(c == v)) for v in range(3)], "others_unchanged": bool(others), "weight_ok": wok})
        return out
    except Exception as ex:
        import traceback
        return [{"kind": "regen", "pid": pid, "args": catalog[pid]["as"][ai], "error": type(ex).__name__, "msg": traceback.format_exc()[-800:], "addr": []}]


def regen_prior(prop_id, rep, wd, catalog, tier, seed):
    """run the C07.prior sampling clause and add its verdicts to rep"""
    n = 4096 if tier == "quick" else 16384
    jobs = [(catalog, pid, ai, n, (seed * 9176 + 31 * j + 5) % (2 ** 31)) for j, pid in enumerate(REGEN_PROGS)
            for ai in range(min(2, len(catalog[pid]["as"])))]
    os.environ.setdefault("XLA_FLAGS", "--xla_cpu_multi_thread_eigen=false intra_op_parallelism_threads=1")
    import multiprocessing as mp
    with mp.get_context("spawn").Pool(min(8, len(jobs))) as pool:
        res = pool.map(_regen, jobs, chunksize=1)
    evs = [ev for r in res for ev in r]
    bound = math.ceil(math.sqrt(n * math.log(2 * 3 * max(1, len(evs)) / DELTA) / 2.0))
    good = []
    for ev in evs:
        if "error" in ev:
            rep.violation({"clause": f"{prop_id}.regen.run", "pid": ev["pid"], "error": ev["error"], "addr": ev["addr"]}, {"event": ev})
            continue
        ev["tid"] = len(good)
        ev["bound"] = bound
        good.append(ev)
    path = os.path.join(wd, "regen_events.json")
    vlib.write_json(path, good)
    with open(os.path.join(wd, "sample.cfg"), "w") as f:
        f.write("SPECIFICATION TSpec\nINVARIANT Report\nCHECK_DEADLOCK FALSE\n")
    r = vlib.run_tlc("GFISample", os.path.join(wd, "sample.cfg"), wd, workers=1, env={"TRACE_FILE": path}, tag="regenprior", jvm=["-Xss64m"])
    rep.add_tlc(r)
    verdicts = list(r.payloads("VERDICT"))
    if not verdicts or verdicts[0]["n"] != len(good):
        raise vlib.MachineryError("regen-prior validation did not consume the log")
    for f_ in verdicts[0]["fails"]:
        ev = good[f_["tid"]]
        for cl in f_["clauses"]:
            rep.violation({"clause": f"{prop_id}.{cl}", "pid": ev["pid"], "addr": ev["addr"]}, {"event": ev})
    rep.extra["regen_prior"] = {"events": len(good), "keys_per_event": n, "hoeffding_bound_counts": bound,
                                "sample": good[:2]}
    for ev in good:
        rep.nontrivial.add(("regen-prior", ev["pid"], json.dumps(ev["args"]), json.dumps(ev["addr"])))


def run(prop_id, tier, seed, replay=None):
    rep = vlib.Report(prop_id, tier, seed)
    replay_d = None
    if replay:
        with open(replay) as f:
            replay_d = json.load(f)["detail"]
    wd = vlib.workdir(prop_id)
    catalog = eng_gfi.load_catalog(wd, rep)
    n = 4096 if tier == "quick" else 16384
    jobs = []
    for pid in PROGS:
        for ai in range(len(catalog[pid]["as"])):
            jobs.append((catalog, pid, ai, n, (seed * 1000003 + len(jobs) * 7919 + 17) % (2 ** 31)))
    for pid in RESAMPLE:
        jobs.append((catalog, pid, -1, n, (seed * 1000003 + len(jobs) * 7919 + 17) % (2 ** 31)))
    if replay:
        d = replay_d
        jobs = [(catalog, d["pid"], d["ai"], n, d["key"])]
    os.environ.setdefault("XLA_FLAGS", "--xla_cpu_multi_thread_eigen=false intra_op_parallelism_threads=1")
    import multiprocessing as mp
    with mp.get_context("spawn").Pool(min(8, len(jobs))) as pool:
        evs = pool.map(_sample, jobs, chunksize=1)
    ncells = 729 + 15 * 16      # joint cells of the largest program (6 three-valued choices) + its pairwise marginal cells
    bound = math.ceil(math.sqrt(n * math.log(2 * ncells * len(jobs) / DELTA) / 2.0))
    good = []
    for j, ev in enumerate(evs):
        if "error" in ev:
            rep.violation({"clause": "C04.run", "pid": ev["pid"], "error": ev["error"]},
                          {"pid": ev["pid"], "ai": jobs[j][2], "key": jobs[j][4], "msg": ev["msg"]})
        else:
            ev["job"] = j
            good.append(ev)
    evs = good
    for tid, ev in enumerate(evs):
        ev["tid"] = tid
        ev["bound"] = bound
        ev["kind"] = "sim"
    vlib.write_json(os.path.join(wd, "events.json"), evs)
    with open(os.path.join(wd, "trace.cfg"), "w") as f:
        f.write("SPECIFICATION TSpec\nINVARIANT Report\nCHECK_DEADLOCK FALSE\n")
    # one TLC process per slice of the log (the support enumeration of a 6-choice program dominates): longest first
    order = sorted(range(len(evs)), key=lambda i: -len(catalog[evs[i]["pid"]]["addrs"]))
    nsl = min(6, max(1, len(evs)))
    slices = [[evs[i] for i in order[k::nsl]] for k in range(nsl)]

    def validate_slice(k):
        path = os.path.join(wd, f"events_{k}.json")
        vlib.write_json(path, slices[k])
        return vlib.run_tlc("GFISample", os.path.join(wd, "trace.cfg"), wd, workers=1, env={"TRACE_FILE": path}, tag=f"validate_{k}", jvm=["-Xss64m"])
    from concurrent.futures import ThreadPoolExecutor
    with ThreadPoolExecutor(nsl) as ex:
        results = list(ex.map(validate_slice, range(nsl)))
    fails = []
    for k, res in enumerate(results):
        rep.add_tlc(res)
        verdicts = list(res.payloads("VERDICT"))
        if not verdicts or verdicts[0]["n"] != len(slices[k]):
            raise vlib.MachineryError("sample validation did not consume the log")
        fails += verdicts[0]["fails"]
    for f in fails:
        ev = evs[f["tid"]]
        j = jobs[ev["job"]]
        for cl in f["clauses"]:
            rep.violation({"clause": f"C04.{cl}", "pid": ev["pid"], "args": json.dumps(ev["args"])[:80]},
                          {"pid": ev["pid"], "ai": j[2], "key": j[4], "event": ev})
    rep.evaluations = sum(e["n"] for e in evs)
    rep.traces = len(evs)
    for ev in evs:
        for c in ev["cells"]:
            rep.nontrivial.add((ev["pid"], json.dumps(ev["args"]), json.dumps(c["choices"])))
    for ev in evs[:3]:
        rep.sample({"pid": ev["pid"], "n": ev["n"], "cells": ev["cells"][:4], "det": ev["det"]})
    rep.rule = ("N keys per (program, argument sample) simulated in one jitted vmap; evaluations = simulated traces; "
                "non-trivial = distinct observed (program, args, complete assignment) cells")
    rep.extra.update({"hoeffding_bound_counts": bound, "N": n, "delta_total": DELTA, "program_ids": PROGS + RESAMPLE, "programs": len(PROGS + RESAMPLE)})
    rep.assumptions = ["dyadic categorical tables LTab identical in spec/GFIBase.tla and harness/gfi_build.py",
                       "Hoeffding bound with union over all cells of all programs: false-alarm probability <= 1e-12 per run"]
    return rep.finish()
