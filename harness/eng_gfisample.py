"""C04 -- simulate samples the program's distribution (dyadic categorical programs, Hoeffding bound decided by TLC)."""

from __future__ import annotations

import json
import math
import os

from . import vlib
from . import eng_gfi

PROGS = ["CChain", "CIndep", "CNest", "CVm", "CRep", "CSc", "CScI", "CSw", "CMsk", "CMix", "CDm"]
DELTA = 1e-12

PROPS = {
    "C04": dict(spec="GFI, GFILaws, GFISample", category="model_checking", design_ref="§5 C04",
                technique="TLA+ denotational semantics gives the exact probability of every complete choice assignment; "
                          "counts from N simulated keys on the real genjax are validated by TLC against a non-asymptotic "
                          "Hoeffding bound in integer arithmetic (trace validation)",
                text="For 11 finite discrete programs over dyadic categoricals (static nesting, vmap, repeat, scan with and without "
                     "carry dependence, switch, mask, mix, dimap) N keys are simulated in one vmap; TLC enumerates the support "
                     "from Exec, checks every observed assignment is in it, every support cell's frequency is within the "
                     "Hoeffding bound (delta=1e-12 over all cells), the counts total N, the spec's probabilities sum to 1, and "
                     "the same keys reproduce the same traces (also through propose).",
                note="Detects deviations >= ~0.065 (quick) / ~0.03 (thorough) in a cell probability (key reuse between sites or "
                     "iterations moves cells by >= 0.125). Continuous programs' moments are not covered."),
}


def _sample(args):
    try:
        return _sample1(args)
    except Exception as ex:
        import traceback
        catalog, pid, ai, n, seed = args
        return {"pid": pid, "args": catalog[pid]["as"][ai], "error": type(ex).__name__, "msg": traceback.format_exc()[-1500:]}


def _sample1(args):
    catalog, pid, ai, n, seed = args
    import jax
    import jax.numpy as jnp
    import numpy as np
    from . import gfi_build as gb
    e = catalog[pid]
    p = e["p"]
    gf = gb.build(p)
    argsV = e["as"][ai]
    a = gb.call_args(p, argsV)
    keys = jax.random.split(jax.random.key(seed), n)
    from genjax import Mask

    def table(chm):
        vs, ps = [], []
        for path in e["addrs"]:
            pp = gb.path_py(path)
            v = (chm(*pp) if pp else chm).get_value()
            if v is None:
                vs.append(jnp.zeros((), jnp.int32)); ps.append(jnp.array(False))
            elif isinstance(v, Mask):
                vs.append(jnp.asarray(v.value, jnp.int32)); ps.append(jnp.asarray(v.flag, bool))
            else:
                vs.append(jnp.asarray(v, jnp.int32)); ps.append(jnp.array(True))
        return jnp.stack(vs), jnp.stack(ps)

    def sim(k):
        tr = gf.simulate(k, a)
        v, pr = table(tr.get_choices())
        return v, pr, tr.get_score(), tr.get_args()

    def prop(k):
        ch, sc, rv = gf.propose(k, a)
        v, pr = table(ch)
        return v, pr, sc

    vals, pres, sc1, oargs = [np.asarray(x) if not isinstance(x, tuple) else x for x in jax.jit(jax.vmap(sim))(keys)]
    vals2, pres2, sc2, _ = jax.jit(jax.vmap(sim))(keys)
    vals3, pres3, sc3 = jax.jit(jax.vmap(prop))(keys)
    vals2, pres2, vals3, pres3 = map(np.asarray, (vals2, pres2, vals3, pres3))
    det = bool(np.array_equal(vals * pres, vals2 * pres2) and np.array_equal(pres, pres2)
               and np.array_equal(vals * pres, vals3 * pres3) and np.array_equal(pres, pres3)
               and np.allclose(np.asarray(sc1), np.asarray(sc3)) and np.allclose(np.asarray(sc1), np.asarray(sc2)))
    enc = np.where(pres, vals, -1)
    uniq, counts = np.unique(enc, axis=0, return_counts=True)
    cells = []
    for row, c in zip(uniq, counts):
        cells.append({"choices": [[path, int(v)] for path, v in zip(e["addrs"], row) if v >= 0], "count": int(c)})
    one = jax.tree_util.tree_map(lambda x: x[0], oargs)
    return {"pid": pid, "args": argsV, "obsargs": gb.proj_args(p, one), "n": n, "cells": cells, "det": det}


def run(prop_id, tier, seed, replay=None):
    rep = vlib.Report(prop_id, tier, seed)
    replay_d = None
    if replay:
        with open(replay) as f:
            replay_d = json.load(f)["detail"]
    wd = vlib.workdir(prop_id)
    catalog = eng_gfi.load_catalog(wd, rep)
    n = 4096 if tier == "quick" else 16384
    jobs = []
    for pid in PROGS:
        for ai in range(len(catalog[pid]["as"])):
            jobs.append((catalog, pid, ai, n, (seed * 1000003 + len(jobs) * 7919 + 17) % (2 ** 31)))
    if replay:
        d = replay_d
        jobs = [(catalog, d["pid"], d["ai"], n, d["key"])]
    os.environ.setdefault("XLA_FLAGS", "--xla_cpu_multi_thread_eigen=false intra_op_parallelism_threads=1")
    import multiprocessing as mp
    with mp.get_context("spawn").Pool(min(8, len(jobs))) as pool:
        evs = pool.map(_sample, jobs, chunksize=1)
    ncells = 81
    bound = math.ceil(math.sqrt(n * math.log(2 * ncells * len(jobs) / DELTA) / 2.0))
    good = []
    for j, ev in enumerate(evs):
        if "error" in ev:
            rep.violation({"clause": "C04.run", "pid": ev["pid"], "error": ev["error"]},
                          {"pid": ev["pid"], "ai": jobs[j][2], "key": jobs[j][4], "msg": ev["msg"]})
        else:
            ev["job"] = j
            good.append(ev)
    evs = good
    for tid, ev in enumerate(evs):
        ev["tid"] = tid
        ev["bound"] = bound
    path = os.path.join(wd, "events.json")
    vlib.write_json(path, evs)
    with open(os.path.join(wd, "trace.cfg"), "w") as f:
        f.write("SPECIFICATION TSpec\nINVARIANT Report\nCHECK_DEADLOCK FALSE\n")
    res = vlib.run_tlc("GFISample", os.path.join(wd, "trace.cfg"), wd, workers=1, env={"TRACE_FILE": path}, tag="validate", jvm=["-Xss64m"])
    rep.add_tlc(res)
    verdicts = list(res.payloads("VERDICT"))
    if not verdicts or verdicts[0]["n"] != len(evs):
        raise vlib.MachineryError("sample validation did not consume the log")
    for f in verdicts[0]["fails"]:
        ev = evs[f["tid"]]
        j = jobs[ev["job"]]
        for cl in f["clauses"]:
            rep.violation({"clause": f"C04.{cl}", "pid": ev["pid"], "args": json.dumps(ev["args"])[:80]},
                          {"pid": ev["pid"], "ai": j[2], "key": j[4], "event": ev})
    rep.evaluations = sum(e["n"] for e in evs)
    rep.traces = len(evs)
    for ev in evs:
        for c in ev["cells"]:
            rep.nontrivial.add((ev["pid"], json.dumps(ev["args"]), json.dumps(c["choices"])))
    for ev in evs[:3]:
        rep.sample({"pid": ev["pid"], "n": ev["n"], "cells": ev["cells"][:4], "det": ev["det"]})
    rep.rule = ("N keys per (program, argument sample) simulated in one jitted vmap; evaluations = simulated traces; "
                "non-trivial = distinct observed (program, args, complete assignment) cells")
    rep.extra.update({"hoeffding_bound_counts": bound, "N": n, "delta_total": DELTA, "programs": PROGS})
    rep.assumptions = ["dyadic categorical tables LTab identical in spec/GFIBase.tla and harness/gfi_build.py",
                       "Hoeffding bound with union over all cells of all programs: false-alarm probability <= 1e-12 per run"]
    return rep.finish()
