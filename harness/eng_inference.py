"""C25 / C26 / C27 — programmable inference layer (Marginal, Importance / ImportanceK / ChangeTarget,
Rejuvenate) against spec/Inference.tla.

Flow of one check:
  (B) TLC prints the catalogue (models, proposals) and the scenarios of Inference.tla as JSON;
  (A) TLC model-checks the laws of the definitions (E[2^lw] = Z, density sampler / estimator
      identities w.r.t. P_alg, ChangeTarget properness, Marginal unbiasedness, MH detailed balance);
  (C) worker processes build every scenario with the real genjax API from the JSON terms, run it
      under jax.vmap over keys, project the results to integers and write NDJSON events;
  (D) TLC (InferenceTrace.tla) judges every event against the definitions of Inference.tla and prints
      one VERDICT per failing event.  Python only relays verdicts.
jax / genjax are imported in the workers only.
"""

from __future__ import annotations

import json
import math
import os
import random
import threading

from . import vlib

PROPS = {
    "C25": dict(
        spec="Inference",
        category="model_checking", design_ref="§5 C25",
        technique="TLA+ spec (Inference.tla) of Marginal over dyadic discrete programs, laws model-checked by TLC; "
                  "weight tables w(s,u) logged from the real Marginal.random_weighted / estimate_logpdf and validated "
                  "by TLC (InferenceTrace.tla) with exact rational arithmetic",
        text="8 dyadic programs (independent pair, chain, common cause, nested address, 3-chain with leaf, program "
             "with an argument, child that ignores its parent) x every selection (all subsets of the sites, built as "
             "unions, Selection.all(), Selection.none()): 4096 keys in one vmap observe every cell (s,u) of the "
             "support; TLC checks exactly sum_u P(s,u) 2^-w(s,u) = 1 for every s (C25.unbiased), returned addresses "
             "= selected addresses (C25.sel), and w = log P(s) = estimate_logpdf(s) whenever the model says "
             "P(s|u)=P(s) for all u (C25.exact). With an algorithm (Importance, ImportanceK k=1,2): C25.sel and a "
             "Hoeffding bound on E[e^-w; S=s] = 1 with the range taken from the model.",
        note="Trusted: TLC, the JSON->genjax builder (public API only), 2^-k tables exact in float32. With an "
             "inference algorithm the clause is statistical (delta <= 2.6e-14 per cell).",
    ),
    "C26": dict(
        spec="Inference",
        category="model_checking", design_ref="§5 C26",
        technique="TLA+ spec (Inference.tla) of importance sampling / SIR / ChangeTarget with exact dyadic weight "
                  "algebra, model-checked by TLC (E[2^lw]=Z, density sampler and estimator identities w.r.t. the "
                  "sampler's own output distribution P_alg for K<=2); particles, log-weights and evidence estimates "
                  "logged from the real Importance / ImportanceK / ChangeTarget / random_weighted / run_csmc and "
                  "validated by TLC (InferenceTrace.tla)",
        text="Targets = 9 dyadic programs (one whose first call site is a nested function) x observation sets x observed values; proposals = none, harness-defined "
             "exact-density SampleDistributions (constant, observation-dependent, partial), and genjax.marginal of a "
             "generative function; algorithms Importance, ImportanceK k=1,2 (4 thorough). Pointwise exact clauses per "
             "particle: constraints, log-weight formula, lml in the linear domain, random_weighted returns only "
             "unconstrained addresses, K=1 density estimate = log P_alg, ChangeTarget ratio, CSMC retained particle "
             "last. Statistical (Hoeffding, 4096 keys): output distribution = P_alg, E[1/est;S=s]=1, E[2^lml]=Z.",
        note="Trusted: TLC, builder, float32 exactness of dyadic tables. Conjugate Gaussian targets not covered.",
    ),
    "C27": dict(
        spec="Inference",
        category="model_checking", design_ref="§5 C27",
        technique="TLA+ spec (Inference.tla) of the Metropolis-Hastings log ratio with argument-dependent proposals, "
                  "detailed balance and stationarity model-checked by TLC; weights logged from the real "
                  "Rejuvenate.edit for every (x, x') and validated by TLC (InferenceTrace.tla)",
        text="8 dyadic programs x every 3-valued site x proposals {random walk on Z_3 whose argument is the current "
             "value (asymmetric), constant, proposal whose argument is another site's value} x request forms "
             "{top-level Rejuvenate with a generative-function proposal, StaticRequest at the address with a "
             "distribution proposal}: every start state x, 128 keys each (all x' reached); TLC checks "
             "w = LP(x') + LPq(x | args(x')) - LP(x) - LPq(x' | args(x)) exactly for every observed (x, x').",
        note="Trusted: TLC, builder. Exact (dyadic) arithmetic.",
    ),
}

LN2 = math.log(2.0)
NSTAT = 4096
HB = 256          # HB*HB >= 16*NSTAT
TOL = 4
NPW = 16          # keys logged pointwise per scenario
NSTAT2 = 2 ** 18  # keys of the statistical fallback of C25.unbiased (HB2 = 2048, HB2^2 >= 16*NSTAT2)
HB2 = 2048


# ----------------------------------------------------------------------------
# worker side: building genjax objects from catalogue terms
# ----------------------------------------------------------------------------

class Builder:
    def __init__(self, cat):
        import jax.numpy as jnp
        import numpy as np
        self.cat = cat
        self.models = {m["name"]: m for m in cat["models"]}
        self.props = {p["name"]: p for p in cat["props"]}
        self.fams = {}
        for m in cat["models"]:
            self.fams.setdefault(m["fam"], []).append(m)
        for f in self.fams.values():
            f.sort(key=lambda m: m["arg"])
        self._gf = {}
        self.np = np
        self.jnp = jnp

    @staticmethod
    def addr(path):
        return path[0] if len(path) == 1 else tuple(path)

    def genfn(self, fam):
        """One static generative function per family; the argument (if any) selects the table."""
        if fam in self._gf:
            return self._gf[fam]
        import genjax
        jnp, np = self.jnp, self.np
        fm = self.fams[fam]
        sites = fm[0]["sites"]
        nargs = fm[0]["nargs"]
        tabs = [np.array([[[2.0 ** -e for e in row] for row in m["sites"][i]["t"]] for m in fm], dtype=np.float32)
                for i in range(len(sites))]

        def mk_sub(leaf):
            @genjax.gen
            def sub(p):
                v = genjax.categorical(probs=p) @ leaf
                return v
            return sub
        subs = {i: mk_sub(s["a"][1]) for i, s in enumerate(sites) if len(s["a"]) == 2}

        def run(a):
            vals = []
            for i, s in enumerate(sites):
                tab = jnp.asarray(tabs[i])[a]
                row = tab[0] if s["pa"] == 0 else tab[jnp.asarray(vals[s["pa"] - 1], dtype=jnp.int32)]
                if s["kind"] == "flip":
                    v = genjax.flip(row[1]) @ s["a"][0]
                elif len(s["a"]) == 2:
                    v = subs[i](row) @ s["a"][0]
                else:
                    v = genjax.categorical(probs=row) @ s["a"][0]
                vals.append(v)
            return vals[-1]

        if nargs == 0:
            @genjax.gen
            def model():
                return run(0)
        else:
            @genjax.gen
            def model(a):
                return run(a)
        self._gf[fam] = model
        return model

    def args(self, m):
        return (self.jnp.asarray(m["arg"], dtype=self.jnp.int32),) if m["nargs"] else ()

    def setval(self, site, v):
        """Choice map holding value v (python int or jnp int array) at the site's address."""
        from genjax import ChoiceMapBuilder as C
        jnp = self.jnp
        v = jnp.asarray(v)
        v = v.astype(bool) if site["kind"] == "flip" else v.astype(jnp.int32)
        return C[self.addr(site["a"])].set(v)

    def chm(self, m, vals):
        """Choice map of the sites whose entry in vals is not None / -1 (python level)."""
        from genjax import ChoiceMap
        out = ChoiceMap.empty()
        for s, v in zip(m["sites"], vals):
            if v is None or (isinstance(v, int) and v < 0):
                continue
            out = out | self.setval(s, v)
        return out

    def present(self, m, ch):
        return [0 if ch(*s["a"]).static_is_empty() else 1 for s in m["sites"]]

    def extra(self, ch):
        return 0 if ch("q9").static_is_empty() and ch("s", "q9").static_is_empty() else 1

    def project(self, m, ch, present=None):
        """int32 array (..., nsites) of the values in ch (-1 where absent)."""
        jnp = self.jnp
        present = present or self.present(m, ch)
        cols = []
        ref = None
        for s, p in zip(m["sites"], present):
            if p:
                v = jnp.asarray(ch[self.addr(s["a"])]).astype(jnp.int32)
                ref = v
                cols.append(v)
            else:
                cols.append(None)
        if ref is None:
            return None
        cols = [c if c is not None else jnp.full(ref.shape, -1, dtype=jnp.int32) for c in cols]
        return jnp.stack(cols, axis=-1)

    def selection(self, m, flags, kind):
        from genjax import Selection
        from genjax import SelectionBuilder as S
        if kind == "all":
            return Selection.all()
        if kind == "none":
            return Selection.none()
        sel = None
        for s, f in zip(m["sites"], flags):
            if f:
                one = S[self.addr(s["a"])]
                sel = one if sel is None else (sel | one)
        return sel

    # proposals -------------------------------------------------------------
    def proposal(self, m, name):
        if name == "none":
            return None
        import genjax
        import jax
        from genjax import ChoiceMap
        jnp, np = self.jnp, self.np
        p = self.props[name]
        sites = m["sites"]
        logt = [np.array(t, dtype=np.float32) * np.float32(-LN2) for t in p["t"]]
        dep = p["dep"]

        def row_of(target, j):
            if dep == 0:
                return jnp.asarray(logt[j])[0]
            ov = target[self.addr(sites[dep - 1]["a"])]
            return jnp.asarray(logt[j])[jnp.asarray(ov, dtype=jnp.int32)]

        if p["kind"] == "exact":
            def sample(key, target):
                out = ChoiceMap.empty()
                for j, i in enumerate(p["on"]):
                    key, sub = jax.random.split(key)
                    v = jax.random.categorical(sub, row_of(target, j))
                    out = out | self.setval(sites[i - 1], v)
                return out

            def logpdf(ch, target):
                tot = jnp.float32(0.0)
                for j, i in enumerate(p["on"]):
                    v = jnp.asarray(ch[self.addr(sites[i - 1]["a"])], dtype=jnp.int32)
                    tot = tot + row_of(target, j)[v]
                return jnp.asarray(tot, dtype=jnp.float32)

            return genjax.exact_density(sample, logpdf, name)

        # kind "marg": a generative function of the target, wrapped by genjax.marginal
        @genjax.gen
        def guide(target):
            for j, i in enumerate(p["on"]):
                _ = genjax.categorical(logits=row_of(target, j)) @ sites[i - 1]["a"][0]

        return guide.marginal()


def _fx(x, scale=256.0):
    """fixed point of a log-quantity in ln2 units"""
    import numpy as np
    return np.rint(np.asarray(x, dtype=np.float64) / LN2 * scale).astype(np.int64)


def _lin(x, f, cap=2 ** 28):
    """round(2^(x/ln2) * 2^f), capped"""
    import numpy as np
    v = np.exp(np.asarray(x, dtype=np.float64)) * (2.0 ** f)
    return np.minimum(np.rint(v), cap).astype(np.int64)


def _status(e):
    return "raised:" + type(e).__name__


# ----------------------------------------------------------------------------
# C26 scenarios
# ----------------------------------------------------------------------------

def _make_alg(name, K, T, q):
    from genjax.inference.smc import Importance, ImportanceK
    return Importance(T, q) if name == "imp" else ImportanceK(T, q, K)


def run_smc(b: Builder, sc, seed):
    import jax
    import numpy as np
    from genjax.inference import Target
    jnp = b.jnp
    m = b.models[sc["model"]]
    gf = b.genfn(m["fam"])
    o = sc["o"]
    T = Target(gf, b.args(m), b.chm(m, o))
    q = b.proposal(m, sc["prop"])
    keys = jax.random.split(jax.random.key(seed), NSTAT)
    base = dict(model=sc["model"], o=o, prop=sc["prop"],
                propkind=(b.props[sc["prop"]]["kind"] if sc["prop"] != "none" else "none"))
    events = []
    for algname, K in sc["algs"]:
        alg = _make_alg(algname, K, T, q)
        info = {}

        def f(key):
            pc = alg.run_smc(key)
            ch = pc.get_particles().get_choices()
            parts = b.project(m, ch)
            lw = pc.get_log_weights()
            lml = pc.get_log_marginal_likelihood_estimate()
            w, rch = alg.random_weighted(key, T)
            info["present"] = b.present(m, rch)
            info["extra"] = b.extra(rch)
            vals = b.project(m, rch, info["present"])
            if vals is None:
                vals = jnp.full((len(m["sites"]),), -1, dtype=jnp.int32)
            return parts, lw, lml, w, vals

        try:
            parts, lw, lml, w, vals = jax.jit(jax.vmap(f))(keys)
        except Exception as e:  # the operations C26 promises must not raise
            events.append(dict(base, op="smcfail", alg=algname, K=K, status=_status(e), msg=str(e)[:300]))
            continue
        parts = np.asarray(parts).reshape(NSTAT, K, -1)
        lw = np.asarray(lw).reshape(NSTAT, K)
        lml, w, vals = np.asarray(lml), np.asarray(w), np.asarray(vals)
        lw256, lwlin, lmllin, w256 = _fx(lw), _lin(lw, 16), _lin(lml, 16), _fx(w)
        for j in range(NPW):
            events.append(dict(base, op="smc", alg=algname, K=K, parts=parts[j].tolist(), lw=lw256[j].tolist(),
                               lwlin=lwlin[j].tolist(), lmllin=int(lmllin[j])))
            events.append(dict(base, op="rw", alg=algname, K=K, present=info["present"], extra=info["extra"],
                               vals=vals[j].tolist(), w=int(w256[j])))
        if K <= 2:
            ov = np.where(vals >= 0, vals, np.asarray(o)[None, :])
            inv8 = np.minimum(np.rint(np.exp(-w.astype(np.float64)) * 256.0), 2 ** 16).astype(np.int64)
            cells = {}
            for row, x in zip(map(tuple, ov.tolist()), inv8.tolist()):
                c = cells.setdefault(row, [0, 0])
                c[0] += 1
                c[1] += x
            lmlsum = int(np.minimum(np.rint(np.exp(lml.astype(np.float64)) * 256.0), 2 ** 16).sum())
            events.append(dict(base, op="rwstat", alg=algname, K=K, N=NSTAT, lmlsum=lmlsum,
                               cells=[list(k) + v for k, v in sorted(cells.items())]))
        # conditional SMC with a retained particle (all unconstrained sites)
        if sc.get("csmc"):
            rng = random.Random(seed)
            cards = [len(s["t"][0]) for s in m["sites"]]
            ret = [(-1 if o[i] >= 0 else rng.randrange(cards[i])) for i in range(len(cards))]
            ev = dict(base, op="csmc", alg=algname, K=K, ret=ret, parts=[], lw=[], status="ok")
            try:
                pc = jax.jit(jax.vmap(lambda k: alg.run_csmc(k, b.chm(m, ret))))(keys[:4])
                pp = np.asarray(b.project(m, pc.get_particles().get_choices())).reshape(4, K, -1)
                ll = _fx(np.asarray(pc.get_log_weights()).reshape(4, K))
                for j in range(4):
                    events.append(dict(ev, parts=pp[j].tolist(), lw=ll[j].tolist()))
            except Exception as e:
                events.append(dict(ev, status=_status(e), msg=str(e)[:200]))
    return events


_FIXED = []


def _fixed_alg_class():
    """An SMCAlgorithm that ignores the key it is given and runs `inner` with its own key."""
    if _FIXED:
        return _FIXED[0]
    from typing import Any
    from genjax import Pytree
    from genjax.inference.smc import SMCAlgorithm

    @Pytree.dataclass
    class FixedKey(SMCAlgorithm):
        inner: Any
        key0: Any

        def get_num_particles(self):
            return self.inner.get_num_particles()

        def get_final_target(self):
            return self.inner.get_final_target()

        def run_smc(self, key):
            return self.inner.run_smc(self.key0)

        def run_csmc(self, key, retained):
            return self.inner.run_csmc(self.key0, retained)
    _FIXED.append(FixedKey)
    return FixedKey


def run_change(b: Builder, sc, seed):
    import jax
    import numpy as np
    from genjax.inference import Target
    from genjax.inference.smc import ChangeTarget
    m, m2 = b.models[sc["model"]], b.models[sc["model2"]]
    gf = b.genfn(m["fam"])
    T = Target(gf, b.args(m), b.chm(m, sc["o"]))
    T2 = Target(gf, b.args(m2), b.chm(m2, sc["o2"]))
    q = b.proposal(m, sc["prop"])
    algname, K = [("imp", 1), ("k2", 2), ("k1", 1)][seed % 3]
    alg = _make_alg(algname, K, T, q)
    keys = jax.random.split(jax.random.key(seed), NPW)
    base = dict(model=sc["model"], o=sc["o"], prop=sc["prop"], model2=sc["model2"], o2=sc["o2"], alg=algname, K=K,
                grow=int(bool(sc.get("grow"))), shrink=int(bool(sc.get("shrink"))),
                propkind=(b.props[sc["prop"]]["kind"] if sc["prop"] != "none" else "none"))

    fixed_cls = _fixed_alg_class()

    def f(key):
        # the previous algorithm is pinned to its own key k0, so the comparison does not depend on how ChangeTarget
        # derives the key it hands to `prev` (an earlier version compared with alg.run_smc(key) and thereby assumed that
        # ChangeTarget passes its key on unchanged -- which was the key-reuse defect KF-C26-4)
        k0, k1 = jax.random.split(key)
        pc = alg.run_smc(k0)
        pc2 = ChangeTarget(fixed_cls(alg, k0), T2).run_smc(k1)
        return (b.project(m, pc.get_particles().get_choices()), pc.get_log_weights(),
                b.project(m2, pc2.get_particles().get_choices()), pc2.get_log_weights(),
                pc2.get_log_marginal_likelihood_estimate())

    try:
        p1, l1, p2, l2, ml2 = jax.jit(jax.vmap(f))(keys)
    except Exception as e:
        return [dict(base, op="smcfail", status=_status(e), msg=str(e)[:300])]
    p1 = np.asarray(p1).reshape(NPW, K, -1)
    p2 = np.asarray(p2).reshape(NPW, K, -1)
    l2lin, ml2lin = _lin(np.asarray(l2).reshape(NPW, K), 16), _lin(np.asarray(ml2), 16)
    l1, l2 = _fx(np.asarray(l1).reshape(NPW, K)), _fx(np.asarray(l2).reshape(NPW, K))
    return [dict(base, op="change", parts=p1[j].tolist(), lw=l1[j].tolist(), parts2=p2[j].tolist(),
                 lw2=l2[j].tolist(), lw2lin=l2lin[j].tolist(), lml2lin=int(ml2lin[j])) for j in range(NPW)]


# ----------------------------------------------------------------------------
# C25 scenarios
# ----------------------------------------------------------------------------

_FULL = {}


def run_marg(b: Builder, sc, seed):
    import jax
    import numpy as np
    from genjax.inference import Target
    jnp = b.jnp
    m = b.models[sc["model"]]
    gf = b.genfn(m["fam"])
    args = b.args(m)
    ns = len(m["sites"])
    flags = sc["sel"]
    keys = jax.random.split(jax.random.key(seed), NSTAT)
    # the full sample drawn for each key (Marginal with everything selected returns all choices)
    fkey = (sc["model"], seed)
    if fkey not in _FULL:
        _, chf = jax.jit(jax.vmap(lambda k: gf.marginal().random_weighted(k, *args)))(keys)
        pf = b.present(m, chf)
        _FULL[fkey] = np.asarray(b.project(m, chf, pf)) if all(pf) else None
    full = _FULL[fkey]
    kinds = ["union"] if 0 < sum(flags) else ["none"]
    if sum(flags) == ns:
        kinds.append("all")
    events = []
    selidx = [i for i in range(ns) if flags[i]]
    for kind in kinds:
        base = dict(op="marg", model=sc["model"], sel=flags, selkind=kind, alg="none", N=NSTAT,
                    indep=bool(sc["indep"]))
        sel = b.selection(m, flags, kind)
        mg = gf.marginal(selection=sel)
        info = {}

        def f(key):
            w, ch = mg.random_weighted(key, *args)
            info["present"] = b.present(m, ch)
            info["extra"] = b.extra(ch)
            vals = b.project(m, ch, info["present"])
            if vals is None:
                vals = jnp.full((ns,), -1, dtype=jnp.int32)
            return w, vals

        try:
            w, vals = jax.jit(jax.vmap(f))(keys)
        except Exception as e:
            events.append(dict(base, op="margfail", status=_status(e), msg=str(e)[:300]))
            continue
        w, vals = np.asarray(w), np.asarray(vals)
        retok = int(info["present"] == list(flags) and info["extra"] == 0)
        consistent = int(bool(np.all(vals[:, selidx] == full[:, selidx]))) if (retok and full is not None) else 0
        w256 = _fx(w)
        lin10 = np.minimum(np.rint(np.exp(-w.astype(np.float64)) * 1024.0), 2 ** 20).astype(np.int64)
        cells = {}
        for row, a, l in zip(map(tuple, (full if full is not None else vals).tolist()), w256.tolist(), lin10.tolist()):
            c = cells.get(row)
            if c is None:
                cells[row] = [1, a, a, l]
            else:
                c[0] += 1
                c[1] = min(c[1], a)
                c[2] = max(c[2], a)
        # estimate_logpdf of every distinct selected part, 4 keys each
        scells = sorted({tuple(r[i] if flags[i] else -1 for i in range(ns)) for r in cells})
        est, eststatus = [], "ok"
        if selidx:
            sv = jnp.asarray(np.array(scells, dtype=np.int32))
            ek = jax.random.split(jax.random.key(seed + 1), 4)

            def g(key, row):
                ch = b.chm(m, [row[i] if flags[i] else None for i in range(ns)])
                return mg.estimate_logpdf(key, ch, *args)

            try:
                e = np.asarray(jax.jit(jax.vmap(lambda row: jax.vmap(lambda k: g(k, row))(ek)))(sv))
                e256 = _fx(e)
                est = [list(c) + [int(e256[k].min()), int(e256[k].max())] for k, c in enumerate(scells)]
            except Exception as ex:
                eststatus = _status(ex)
        # weights that are NOT a function of the full sample (a legitimate but randomised weight): no exact
        # table exists; log the Hoeffding statistic sum_keys 2^-w 1[S=s] from NSTAT2 keys instead
        stat, n2 = [], 0
        if retok and any(c[2] - c[1] > TOL for c in cells.values()):
            n2 = NSTAT2
            w2, v2 = jax.jit(jax.vmap(f))(jax.random.split(jax.random.key(seed + 2), n2))
            inv8 = np.minimum(np.rint(np.exp(-np.asarray(w2, dtype=np.float64)) * 256.0), 2 ** 15).astype(np.int64)
            agg = {}
            for row, x in zip(map(tuple, np.asarray(v2).tolist()), inv8.tolist()):
                c = agg.setdefault(row, [0, 0])
                c[0] += 1
                c[1] += x
            stat = [list(k) + [v[0], min(v[1], 2 ** 30)] for k, v in sorted(agg.items())]
        events.append(dict(base, retok=retok, consistent=consistent, eststatus=eststatus, est=est, stat=stat, N2=n2,
                           cells=[list(k) + v for k, v in sorted(cells.items())]))
    # with an inference algorithm whose target constrains the selected addresses (placeholder values 0)
    if sc.get("algs") and selidx:
        o0 = [0 if flags[i] else -1 for i in range(ns)]
        T0 = Target(gf, args, b.chm(m, o0))
        sel = b.selection(m, flags, "union")
        for algname, K in sc["algs"]:
            base = dict(op="margalg", model=sc["model"], sel=flags, selkind="union", alg=algname, K=K, o0=o0,
                        N=NSTAT, cells=[], retok=1, status="ok")
            mg = gf.marginal(selection=sel, algorithm=_make_alg(algname, K, T0, None))
            info = {}

            def f2(key):
                w, ch = mg.random_weighted(key, *args)
                info["present"] = b.present(m, ch)
                info["extra"] = b.extra(ch)
                return w, b.project(m, ch, info["present"])

            try:
                w, vals = jax.jit(jax.vmap(f2))(keys)
            except Exception as e:
                events.append(dict(base, status=_status(e), msg=str(e)[:200]))
                continue
            w, vals = np.asarray(w), np.asarray(vals)
            inv8 = np.minimum(np.rint(np.exp(-w.astype(np.float64)) * 256.0), 2 ** 16).astype(np.int64)
            cells = {}
            for row, x in zip(map(tuple, vals.tolist()), inv8.tolist()):
                c = cells.setdefault(row, [0, 0])
                c[0] += 1
                c[1] += x
            events.append(dict(base, retok=int(info["present"] == list(flags) and info["extra"] == 0),
                               cells=[list(k) + v for k, v in sorted(cells.items())]))
    return events


# ----------------------------------------------------------------------------
# C27 scenarios
# ----------------------------------------------------------------------------

NMH = 128


def run_mh(b: Builder, sc, seed):
    import itertools

    import genjax
    import jax
    import numpy as np
    from genjax._src.generative_functions.static import StaticRequest
    from genjax.inference.requests import Rejuvenate
    from genjax import Diff
    jnp = b.jnp
    m = b.models[sc["model"]]
    gf = b.genfn(m["fam"])
    args = b.args(m)
    sites = m["sites"]
    ns = len(sites)
    at, dep, kind = sc["at"], sc["dep"], sc["mh"]
    site = sites[at - 1]
    cat = b.cat
    lrw = jnp.asarray(np.array(cat["rwt"], dtype=np.float32) * np.float32(-LN2))
    lct = jnp.asarray(np.array(cat["ctt"], dtype=np.float32) * np.float32(-LN2))
    ldp = jnp.asarray(np.array(cat["dpt"], dtype=np.float32) * np.float32(-LN2))
    i32 = lambda v: jnp.asarray(v, dtype=jnp.int32)
    if kind == "rw":
        dist = genjax.exact_density(lambda key, cur: (i32(cur) + jax.random.categorical(key, lrw)) % 3,
                                    lambda v, cur: lrw[(i32(v) - i32(cur)) % 3], "rw")
    elif kind == "const":
        dist = genjax.exact_density(lambda key: i32(jax.random.categorical(key, lct)),
                                    lambda v: lct[i32(v)], "ct")
    else:
        dist = genjax.exact_density(lambda key, yv: i32(jax.random.categorical(key, ldp[i32(yv)])),
                                    lambda v, yv: ldp[i32(yv)][i32(v)], "dp")
    path = b.addr(site["a"])
    dpath = b.addr(sites[dep - 1]["a"]) if dep else None

    # proposal as a generative function with the model's address structure
    if len(site["a"]) == 1:
        @genjax.gen
        def prop(*pa):
            _ = dist(*pa) @ site["a"][0]
    else:
        @genjax.gen
        def inner(*pa):
            _ = dist(*pa) @ site["a"][1]

        @genjax.gen
        def prop(*pa):
            _ = inner(*pa) @ site["a"][0]

    if kind == "rw":
        top_map = lambda ch: (ch[path],)
        leaf_map = lambda ch: (ch.get_value(),)
    elif kind == "const":
        top_map = lambda ch: ()
        leaf_map = lambda ch: ()
    else:
        top_map = lambda ch: (ch[dpath],)
        leaf_map = None
    variants = [("top", Rejuvenate(prop, top_map))]
    if leaf_map is not None and len(site["a"]) == 1:
        variants.append(("static", StaticRequest({site["a"][0]: Rejuvenate(dist, leaf_map)})))
    cards = [len(s["t"][0]) for s in sites]
    starts = np.array(list(itertools.product(*[range(c) for c in cards])), dtype=np.int32)
    keys = jax.random.split(jax.random.key(seed), NMH)
    m2 = b.models[sc.get("model2", sc["model"])]
    # the same edit may also change the model's arguments (model2 = same family, other argument)
    argd = Diff.no_change(args) if m2["name"] == m["name"] else Diff.unknown_change(b.args(m2))

    def f(row, key):
        k1, k2 = jax.random.split(key)
        tr, _ = gf.importance(k1, b.chm(m, [row[i] for i in range(ns)]), args)
        out = []
        for _, req in variants:
            new_tr, w, _, _ = req.edit(k2, tr, argd)
            a2 = jnp.asarray(new_tr.get_args()[0], dtype=jnp.int32) if m["nargs"] else jnp.int32(-1)
            out.append((w, b.project(m, new_tr.get_choices()), new_tr.get_score(), a2))
        return out

    base = dict(op="rejuv", model=sc["model"], model2=m2["name"], at=at, dep=dep, mh=kind, vec=0, arg2=-1,
                status="ok", cells=[])
    try:
        res = jax.jit(jax.vmap(lambda row: jax.vmap(lambda k: f(row, k))(keys)))(jnp.asarray(starts))
    except Exception as e:
        return [dict(base, variant=v, status=_status(e), msg=str(e)[:300]) for v, _ in variants]
    return [_rejuv_event(dict(base, variant=vname), starts, r, NMH) for (vname, _), r in zip(variants, res)]


def _rejuv_event(base, starts, res, nkeys):
    """Aggregate (w, new choices, score, arg) over keys into cells c + d + [wmin, wmax, n, smin, smax]."""
    import numpy as np
    w, d, sc_, a2 = (np.asarray(x) for x in res)
    if w.shape != (len(starts), nkeys):
        return dict(base, status="weight_not_scalar:shape" + "x".join(map(str, w.shape[2:])))
    w256, s256 = _fx(w), _fx(sc_)
    arg2 = sorted(set(a2.reshape(-1).tolist()))
    cells = {}
    for si in range(len(starts)):
        st = tuple(starts[si].tolist())
        for ki in range(nkeys):
            k = st + tuple(d[si, ki].tolist())
            a, sv = int(w256[si, ki]), int(s256[si, ki])
            c = cells.get(k)
            if c is None:
                cells[k] = [a, a, 1, sv, sv]
            else:
                c[0] = min(c[0], a)
                c[1] = max(c[1], a)
                c[2] += 1
                c[3] = min(c[3], sv)
                c[4] = max(c[4], sv)
    return dict(base, arg2=(arg2[0] if len(arg2) == 1 else -2), cells=[list(k) + v for k, v in sorted(cells.items())])


NMHV = 512


def run_mhvec(b: Builder, sc, seed):
    """Array-valued choice x ~ categorical(2x3 probs) @ "x" rejuvenated with a DISTRIBUTION OBJECT as proposal."""
    import itertools

    import genjax
    import jax
    import numpy as np
    from genjax import ChoiceMapBuilder as C
    from genjax._src.generative_functions.static import StaticRequest
    from genjax.inference.requests import Rejuvenate
    jnp = b.jnp
    m = {x["name"]: x for x in b.cat["vmodels"]}[sc["model"]]
    sites = m["sites"]
    vec = [i for i, s in enumerate(sites) if s["kind"] == "vec"]
    assert vec == [0, 1] and len(sites) == 3
    px = jnp.asarray(np.array([[2.0 ** -e for e in sites[i]["t"][0]] for i in vec], dtype=np.float32))
    ty = jnp.asarray(np.array([[2.0 ** -e for e in row] for row in sites[2]["t"]], dtype=np.float32))

    @genjax.gen
    def model():
        x = genjax.categorical(probs=px) @ "x"
        _ = genjax.categorical(probs=ty[x[sites[2]["pa"] - 1]]) @ "y"
        return x

    lrw = jnp.asarray(np.array(b.cat["rwt"], dtype=np.float32) * np.float32(-LN2))
    lct = jnp.asarray(np.array(b.cat["ctt"], dtype=np.float32) * np.float32(-LN2))
    i32 = lambda v: jnp.asarray(v, dtype=jnp.int32)
    if sc["mh"] == "rw":      # harness table distribution, element-wise log density (not summed by the harness)
        dist = genjax.exact_density(
            lambda key, cur: (i32(cur) + jax.random.categorical(key, lrw, shape=(2,))) % 3,
            lambda v, cur: lrw[(i32(v) - i32(cur)) % 3], "rwvec")
        amap = lambda ch: (ch.get_value(),)
    else:                     # TFP distribution with batch shape (2,)
        dist = genjax.categorical
        amap = lambda ch: (jnp.stack([lct, lct]),)
    req = StaticRequest({"x": Rejuvenate(dist, amap)})
    starts = np.array(list(itertools.product(range(3), range(3), range(len(sites[2]["t"][0])))), dtype=np.int32)
    keys = jax.random.split(jax.random.key(seed), NMHV)

    def f(row, key):
        k1, k2 = jax.random.split(key)
        tr, _ = model.importance(k1, C["x"].set(row[:2]) | C["y"].set(row[2]), ())
        new_tr, w, _, _ = req.edit(k2, tr, ())
        ch = new_tr.get_choices()
        d = jnp.concatenate([i32(ch["x"]), i32(ch["y"])[None]])
        return w, d, new_tr.get_score(), jnp.int32(-1)

    base = dict(op="rejuv", model=sc["model"], model2=sc["model"], at=0, dep=0, mh=sc["mh"], vec=1, arg2=-1,
                variant="static-dist", status="ok", cells=[])
    try:
        res = jax.jit(jax.vmap(lambda row: jax.vmap(lambda k: f(row, k))(keys)))(jnp.asarray(starts))
    except Exception as e:
        return [dict(base, status=_status(e), msg=str(e)[:300])]
    return [_rejuv_event(base, starts, res, NMHV)]


RUNNERS = {"smc": run_smc, "change": run_change, "marg": run_marg, "mh": run_mh, "mhv": run_mhvec}


def _work(payload):
    cat, jobs = payload
    os.environ.setdefault("JAX_PLATFORMS", "cpu")
    fl = os.environ.get("XLA_FLAGS", "--xla_cpu_multi_thread_eigen=false intra_op_parallelism_threads=1")
    if "xla_backend_optimization_level" not in fl:      # tiny programs: compile time dominates
        fl += " --xla_backend_optimization_level=0 --xla_llvm_disable_expensive_passes=true"
    os.environ["XLA_FLAGS"] = fl
    os.environ.setdefault("OMP_NUM_THREADS", "1")
    b = Builder(cat)
    out = []
    for idx, sc, seed in jobs:
        try:
            evs = RUNNERS[sc["kind"]](b, sc, seed)
        except Exception as e:  # builder failure = machinery
            import traceback
            evs = [dict(op="machinery", status=_status(e), msg=traceback.format_exc()[-1500:])]
        for e in evs:
            e["sc"] = idx
        out.extend(evs)
    return out


# ----------------------------------------------------------------------------
# driver side
# ----------------------------------------------------------------------------

ROLE_A = {
    "C25": (["marg"], ["TablesNormalized", "MarginalUnbiased", "MarginalExact", "MarginalGuardCoverage"]),
    "C26": (["smc", "change"], ["TablesNormalized", "SamplerNormalized", "WeightIsRatio", "EvidenceUnbiased",
                                "EvidenceUnbiasedK", "PAlgIsDistribution", "PAlgK1IsProposal", "DensitySampler",
                                "DensityEstimator", "PAlgApproachesPosterior", "ChangeProper", "ChangeGrowMass", "ChangeShrinkMass", "ChangeParticle"]),
    "C27": (["mh"], ["TablesNormalized", "MHAntisymmetric", "MHDetailedBalance", "MHStationary", "MHOldArgsDiffers", "MHArgsAntisymmetric", "MHVecLaws"]),
}


def _kinds(ks):
    return "{" + ", ".join('"%s"' % k for k in ks) + "}"


def _write_cfg(path, kinds, emit, invs, extra=""):
    with open(path, "w") as f:
        f.write(f"CONSTANTS Emit = {'TRUE' if emit else 'FALSE'}\n Kinds = {_kinds(kinds)}\n{extra}"
                "SPECIFICATION Spec\n" + "".join(f"INVARIANT {i}\n" for i in invs) + "CHECK_DEADLOCK FALSE\n")


def _select(prop_id, cases, tier, seed):
    """Deterministic (seeded) choice of the scenarios replayed in this tier."""
    rng = random.Random(seed * 7919 + 13)
    if prop_id == "C25":
        out = []
        for c in cases:
            c = dict(c)
            ns = len(c["sel"])
            k = sum(c["sel"])
            if k and (tier == "thorough" or k == ns or rng.random() < 0.34):
                c["algs"] = [("imp", 1), ("k1", 1), ("k2", 2)] if tier == "thorough" else \
                    [[("imp", 1)], [("k2", 2)], [("k1", 1)]][rng.randrange(3)]
            out.append(c)
        return out
    if prop_id == "C27":
        cs = [dict(c) for c in cases]
        if tier == "thorough":
            return cs
        rng.shuffle(cs)
        vecs = [c for c in cs if c["kind"] == "mhv"]
        argc = [c for c in cs if c["kind"] == "mh" and c["model2"] != c["model"]]
        cs = [c for c in cs if c["kind"] == "mh" and c["model2"] == c["model"]]
        seen, pick, rest = set(), [], []
        for c in cs:                      # every model with rw; every proposal kind on nested / 3-site programs
            k = (c["model"], c["mh"] == "rw")
            (pick if k not in seen else rest).append(c)
            seen.add(k)
        # + both array-valued scenarios + 3 argument-changing edits (both directions by seed)
        return (pick + rest[: max(0, 20 - len(pick))]) + vecs + argc[:3]
    smc = [dict(c) for c in cases if c["kind"] == "smc"]
    chg = [dict(c) for c in cases if c["kind"] == "change"]
    rng.shuffle(smc)
    rng.shuffle(chg)
    if tier == "quick":
        # stratified: every (model, proposal, K) class once (seeded choice of the observed values), then fill
        # a generative-function proposal is most interesting when the model's FIRST call site is sampled by the model
        # itself (shared keys between proposal and model show there): such scenarios represent their class
        smc.sort(key=lambda c: 0 if (c["prop"].endswith("_m") and c["o"][0] == -1) else 1)
        seen, pick, rest = set(), [], []
        for c in smc:
            k = (c["model"], c["prop"], c["K"])
            (pick if k not in seen else rest).append(c)
            seen.add(k)
        pick.sort(key=lambda c: 0 if c["prop"].endswith("_m") else 1)     # generative-function (Marginal) proposals first
        smc = (pick + rest)[:32]
        seen, pick, rest = set(), [], []
        for c in chg:
            k = (c["model"], c["prop"] != "none", c["model2"] != c["model"])
            (pick if k not in seen else rest).append(c)
            seen.add(k)
        same = [c for c in pick + rest if not c.get("grow") and not c.get("shrink")][:8]
        # "one more observation arrives": one per model, preferring scenarios whose proposal proposed the site
        grow, seen = [], set()
        for c in sorted((c for c in chg if c.get("grow")), key=lambda c: c["prop"] == "none"):
            if c["model"] not in seen:
                seen.add(c["model"])
                grow.append(c)
        # "an observation is withdrawn": the new target redraws it; one per model by seed
        shrink, seen = [], set()
        for c in (c for c in chg if c.get("shrink")):
            if c["model"] not in seen:
                seen.add(c["model"])
                shrink.append(c)
        chg = same + grow[:6] + shrink[:5]
    else:
        chg = ([c for c in chg if not c.get("grow") and not c.get("shrink")][:300] + [c for c in chg if c.get("grow")][:200]
               + [c for c in chg if c.get("shrink")][:200])
    for n, c in enumerate(smc):
        if tier == "quick":
            c["algs"] = [[("imp", 1), ("k1", 1)][n % 2]] if c["K"] == 1 else [("k2", 2)]
            c["csmc"] = (n % 3 == 0) and (c["prop"] == "none" or c["full"])
        else:
            c["algs"] = [("imp", 1), ("k1", 1)] if c["K"] == 1 else ([("k2", 2)] + ([("k4", 4)] if n % 3 == 0 else []))
            c["csmc"] = c["prop"] == "none" or c["full"]
    return smc + chg


def _sig(prop_id, ev, fl):
    s = {"clause": fl["clause"], "diag": fl["diag"], "op": ev.get("op")}
    for k in ("model", "model2", "prop", "propkind", "alg", "selkind", "mh", "variant"):
        if k in ev:
            s[k] = ev[k]
    return s


CLAUSE_PROP = {"C25": "C25", "C26": "C26", "C27": "C27"}


def run(prop_id, tier, seed, replay=None):
    import time
    rep = vlib.Report(prop_id, tier, seed)
    wd = vlib.workdir(prop_id)
    kinds, invs = ROLE_A[prop_id]
    phases = {}
    t0 = time.time()

    def mark(name):
        nonlocal t0
        phases[name] = round(time.time() - t0, 1)
        t0 = time.time()
    rep.rule = {
        "C25": "one evaluation = one (program, selection, selection form | algorithm) table built from 4096 keys; "
               "non-trivial = selection neither empty nor (for the no-algorithm table) lacking unselected sites, or any "
               "algorithm run",
        "C26": "one evaluation = one logged event (particle collection of one key, one random_weighted call, one "
               "ChangeTarget pair, one CSMC collection, or one 4096-key aggregate); non-trivial = distinct "
               "(op, model, observed sites, proposal, algorithm) class with at least one unconstrained site",
        "C27": "one evaluation = one (program, site, proposal, request form) table of all observed (x, x') pairs from "
               "128 keys per start state; non-trivial = table containing moves x' != x",
    }[prop_id]

    if replay:
        with open(replay) as f:
            rp = json.load(f)
        cat, jobs = rp["detail"]["catalogue"], [(0, rp["detail"]["scenario"], rp["detail"]["scenario_seed"])]
        events = _work((cat, jobs))
        thread = None
        resA = None
    else:
        # (B) catalogue and scenarios
        cfgB = os.path.join(wd, "Gen.cfg")
        _write_cfg(cfgB, kinds, True, ["EmitCase"])
        resB = vlib.run_tlc("Inference", cfgB, wd, tag="roleB", workers=4, timeout=600, jvm=["-Xmx3g", "-Xss64m"])
        rep.add_tlc(resB)
        cats = list(resB.payloads("CATALOG"))
        if len(cats) != 1:
            raise vlib.MachineryError("catalogue not printed exactly once")
        cat = cats[0]
        cases = list(resB.payloads("CASE"))
        cases.sort(key=lambda c: json.dumps(c, sort_keys=True))
        mark("roleB_tlc")
        chosen = _select(prop_id, cases, tier, seed)
        jobs = [(n, c, (seed * 1000003 + n * 101 + 7) % (2 ** 31)) for n, c in enumerate(chosen)]
        # (A) laws of the spec, in the background while the implementation is exercised
        cfgA = os.path.join(wd, "MC.cfg")
        _write_cfg(cfgA, kinds, False, invs)
        box = {}

        def roleA():
            try:
                box["res"] = vlib.run_tlc("Inference", cfgA, wd, tag="roleA", workers=6, timeout=1200,
                                          jvm=["-Xmx4g", "-Xss64m"])
            except Exception as e:  # re-raised in the main thread
                box["err"] = e
        thread = threading.Thread(target=roleA)
        thread.start()
        # (C) replay on the implementation
        if os.environ.get("VERIF_MAXSC"):          # development aid only
            jobs = jobs[:: max(1, len(jobs) // int(os.environ["VERIF_MAXSC"]))]
        # few processes: every worker pays ~10 CPU-s of jax/TFP warm-up
        nproc = max(2, min(vlib.NCPU - 4, (len(jobs) + 5) // 6))
        order = sorted(jobs, key=lambda j: -_cost(j[1]))
        buckets = [order[k::nproc * 2] for k in range(nproc * 2)]
        with vlib.pinned_pool(nproc) as pool:
            results = pool.map(_work, [(cat, bk) for bk in buckets if bk], chunksize=1)
        events = [e for r in results for e in r]
        events.sort(key=lambda e: e["sc"])
        mark("replay")

    mach = [e for e in events if e.get("op") == "machinery"]
    if mach:
        raise vlib.MachineryError("driver failure: " + mach[0]["msg"])
    for n, e in enumerate(events):
        e["id"] = n
    # operations the statements promise must not raise: report directly (TLC has nothing to judge)
    direct = [e for e in events if e["op"] in ("smcfail", "margfail")]
    judged = [e for e in events if e["op"] not in ("smcfail", "margfail")]
    trace = os.path.join(wd, "trace.ndjson")
    with open(trace, "w") as f:
        for e in judged:
            f.write(json.dumps({k: v for k, v in e.items() if k not in ("msg",)}) + "\n")
    # (D) validation
    verdicts = []
    if judged:
        cfgT = os.path.join(wd, "Trace.cfg")
        with open(cfgT, "w") as f:
            f.write(f"CONSTANTS Emit = FALSE\n Kinds = {{}}\n TOL = {TOL}\n HB = {HB}\n HB2 = {HB2}\n"
                    "SPECIFICATION TSpec\nCHECK_DEADLOCK FALSE\n")
        resT = vlib.run_tlc("InferenceTrace", cfgT, wd, tag="trace", workers=1, timeout=2400,
                            env={"TRACE_FILE": trace}, jvm=["-Xmx4g", "-Xss64m"])
        rep.add_tlc(resT)
        done = list(resT.payloads("DONE"))
        if len(done) != 1 or done[0]["events"] != len(judged) or done[0]["checked"] != len(judged):
            raise vlib.MachineryError(f"trace validation incomplete: {done} vs {len(judged)} events")
        verdicts = list(resT.payloads("VERDICT"))
        mark("validate_tlc")
    if not replay:
        thread.join()
        if "err" in box:
            raise box["err"]
        rep.add_tlc(box["res"])
        mark("roleA_wait")
        rep.extra["phases_s"] = phases
        rep.extra["roleA"] = {"invariants": invs, "states": box["res"].distinct, "wall_s": round(box["res"].wall, 1)}

    by_id = {e["id"]: e for e in events}
    scen = {j[0]: j for j in jobs}

    def detail(ev):
        j = scen.get(ev["sc"])
        return {"event": {k: (v if k != "cells" else v[:40]) for k, v in ev.items()}, "catalogue": cat,
                "scenario": j[1] if j else None, "scenario_seed": j[2] if j else None}

    for v in verdicts:
        ev = by_id[v["ev"]]
        for fl in v["fails"]:
            if fl["clause"] == "MACHINERY":
                raise vlib.MachineryError(f"trace spec cannot decide event {ev.get('op')}: {fl['diag']}")
            rep.violation(_sig(prop_id, ev, fl), detail(ev))
    for ev in direct:
        clause = {"C25": "C25.sel", "C26": "C26.constraints"}.get(prop_id, prop_id)
        rep.violation(_sig(prop_id, ev, {"clause": clause, "diag": ev["status"]}), detail(ev))

    # evidence
    rep.evaluations = len(events)
    rep.traces = len({e["sc"] for e in events})
    ops = {}
    rejected = 0
    for e in events:
        ops[e["op"]] = ops.get(e["op"], 0) + 1
        if e["op"] == "csmc" and e["status"] != "ok":
            rejected += 1
            continue
        if prop_id == "C25":
            if e["op"] == "margalg" or 0 < sum(e.get("sel", [])):
                rep.nontrivial.add((e["op"], e["model"], tuple(e["sel"]), e.get("selkind"), e.get("alg")))
        elif prop_id == "C26":
            if any(x < 0 for x in e["o"]):
                rep.nontrivial.add((e["op"], e["model"], tuple(int(x >= 0) for x in e["o"]), e["prop"], e.get("alg")))
        else:
            n = (len(e["cells"][0]) - 5) // 2 if e.get("cells") else 0
            if any(c[:n] != c[n:2 * n] for c in e.get("cells", [])):
                rep.nontrivial.add((e["model"], e.get("model2"), e["at"], e["mh"], e["variant"]))
    step = max(1, len(events) // 4)
    for e in events[::step]:
        rep.sample({k: (v if k != "cells" else v[:3]) for k, v in e.items() if k != "msg"})
    rep.extra["event_kinds"] = ops
    rep.extra["scenarios_replayed"] = rep.traces
    rep.extra["tolerance"] = f"w256 +-{TOL} (={TOL / 256:.4f} ln2); Hoeffding N={NSTAT}, HB={HB} (delta<=2.6e-14 per test)"
    if prop_id == "C26":
        rep.extra["csmc_rejected"] = rejected
    rep.exhaustive = (prop_id == "C25") or (prop_id == "C27" and tier == "thorough")
    if rep.exhaustive:
        rep.extra["exhaustive_scope"] = ("every scenario of Inference.tla for this property (all programs x all "
                                         "selections / all sites x proposals), every cell of the finite support")
    rep.assumptions = [
        "probabilities are powers of two, so log-weights are integer multiples of ln 2 (checked by TLC per event)",
        "TLC role A proved the identities on the same catalogue (invariants listed under roleA)",
        "Hoeffding clauses use ranges computed from the model; false-alarm probability <= 2.6e-14 per test",
    ]
    if prop_id == "C25":
        rep.assumptions.append("without an algorithm the weight is a function of the full sample; the full sample "
                               "of a key is read from Marginal(all).random_weighted with the same key (checked for "
                               "consistency per table)")
    return rep.finish()


def _cost(sc):
    k = sc["kind"]
    if k == "smc":
        return 5 * len(sc.get("algs", [1])) + (3 if sc.get("csmc") else 0)
    if k == "marg":
        return 4 + 4 * len(sc.get("algs", []))
    if k in ("mh", "mhv"):
        return 5
    return 4
