"""C30 — VI objective gradient estimators: the cases of spec/VI.tla are built as real
genjax model/guide pairs, vi.ELBO / IWELBO / PWake / QWake gradient estimates are logged in
fixed point and validated by TLC against the closed-form gradients of VI.tla."""

from __future__ import annotations

import json
import math
import multiprocessing as mp
import os
import threading
import time

from . import vlib

PROPS = {
    "C30": dict(
        spec="VI",
        category="model_checking", design_ref="§5 C30",
        technique="TLA+ spec (VI.tla: objectives as finite sums over exact rational dual numbers with a reference "
                  "table of logarithms; Gaussian pathwise laws) model-checked by TLC; gradient estimates of the real "
                  "genjax.vi objectives validated by TLC against the closed-form gradients (trace validation)",
        text="16 discrete model/guide cases (flip_enum, categorical_enum and plain flip guides through genjax.marginal; "
             "ELBO, IWELBO N=1,2, PWake, QWake) on the 3x3 parameter grid {1/4,1/2,3/4}^2 and 6 conjugate-Gaussian "
             "normal_reparam cases on a 3x3 grid. Role A: TLC checks on the spec that the weights normalise, "
             "-ln p(y) <= L_IW2 <= L_IW1 = L_ELBO, the hand-derived ELBO gradient, tightness at the exact posterior, "
             "and the Gaussian pathwise laws exactly over rationals. Conformance: enumerable guides give a "
             "deterministic estimate that must equal the exact gradient; plain (sampled) guides must give the "
             "pointwise gradient for some x with frequencies within a Hoeffding bound; Gaussian guides must satisfy "
             "the pathwise law relating d/da and d/db with the noise inferred from d/da.",
        note="Trusted: TLC, math.log for the table of logarithms of the rationals the spec asks for, the case builder "
             "(public genjax API only), fixed point 2^-12. Closed-form Gaussian expectations are not compared statistically.",
    ),
}

SV = 4096
GRID = [(a, b) for a in (1, 2, 3) for b in (1, 2, 3)]


def fpv(x):
    v = float(x)
    if not math.isfinite(v):
        return 2 ** 30
    return int(max(-2 ** 30, min(2 ** 30, round(v * SV))))


def show_expr(t):
    op = t["op"]
    if op == "c":
        n, d = t["q"]
        return str(n) if d == 1 else f"{n}/{d}"
    if op in ("ph", "w"):
        return op
    s = {"add": "+", "sub": "-", "mul": "*"}[op]
    return "(" + show_expr(t["k"][0]) + s + show_expr(t["k"][1]) + ")"


def show_case(c):
    return (f"{c['obj']}{c['n'] if c['obj'] == 'IWELBO' else ''}[{c['gk']}] q={show_expr(c['qe'])} p={show_expr(c['pe'])} "
            f"r={show_expr(c['re'])} lik={c['lik'][0][0]}/{c['lik'][0][1]},{c['lik'][1][0]}/{c['lik'][1][1]} y={c['y']}")


# ----------------------------------------------------------------------------
# case -> real genjax objects (public API only)
# ----------------------------------------------------------------------------

def build_discrete(c):
    import jax.numpy as jnp
    import genjax
    from genjax import ChoiceMapBuilder as C

    lik0, lik1 = [n / d for n, d in c["lik"]]
    cat = c["gk"] == "cat_enum"

    def ev(t, ph, w):
        op = t["op"]
        if op == "c":
            return t["q"][0] / t["q"][1]
        if op == "ph":
            return ph
        if op == "w":
            return w
        a, b = ev(t["k"][0], ph, w), ev(t["k"][1], ph, w)
        return a + b if op == "add" else a - b if op == "sub" else a * b

    def f32(x):
        return jnp.asarray(x, dtype=jnp.float32)

    @genjax.gen
    def model(ph, w):
        p1 = f32(ev(c["pe"], ph, w))
        if cat:   # categorical index 0 plays the role of x = 1
            x = genjax.categorical(jnp.log(jnp.stack([p1, 1.0 - p1]))) @ "x"
            genjax.flip(jnp.where(x == 0, lik1, lik0)) @ "y"
        else:
            x = genjax.flip(p1) @ "x"
            genjax.flip(jnp.where(x, lik1, lik0)) @ "y"

    def mkguide(expr, kind):
        @genjax.gen
        def guide(target):
            ph, w = target.args
            p1 = f32(ev(expr, ph, w))
            if kind == "flip_enum":
                genjax.vi.flip_enum(p1) @ "x"
            elif kind == "cat_enum":
                genjax.vi.categorical_enum(jnp.stack([p1, 1.0 - p1])) @ "x"
            else:
                genjax.flip(p1) @ "x"
        return genjax.marginal()(guide)

    def mk(ph, w):
        return genjax.Target(model, (ph, w), C["y"].set(bool(c["y"])))

    obj = c["obj"]
    if obj == "ELBO":
        return genjax.vi.ELBO(mkguide(c["qe"], c["gk"]), mk)
    if obj == "IWELBO":
        return genjax.vi.IWELBO(mkguide(c["qe"], c["gk"]), mk, c["n"])
    if obj == "PWAKE":
        return genjax.vi.PWake(mkguide(c["re"], c["gk"]), mk)
    if obj == "QWAKE":
        return genjax.vi.QWake(mkguide(c["qe"], "cat_enum" if cat else "flip_enum"), mkguide(c["re"], c["gk"]), mk)
    raise ValueError(obj)


def build_gauss(g):
    import genjax
    from genjax import ChoiceMapBuilder as C

    s0 = 1.0 / math.sqrt(g["i0q"] / 4.0)
    sy = 1.0 / math.sqrt(g["iyq"] / 4.0)
    y = g["yq"] / 4.0

    @genjax.gen
    def model(a, b):
        mu = genjax.normal(0.0, s0) @ "mu"
        genjax.normal(mu, sy) @ "y"

    def mkguide(shift):
        @genjax.gen
        def guide(target):
            a, b = target.args
            genjax.vi.normal_reparam(shift * a, b) @ "mu"
        return genjax.marginal()(guide)

    def mk(a, b):
        return genjax.Target(model, (a, b), C["y"].set(y))

    obj = g["obj"]
    if obj == "ELBO":
        return genjax.vi.ELBO(mkguide(1.0), mk)
    if obj == "IWELBO1":
        return genjax.vi.IWELBO(mkguide(1.0), mk, 1)
    if obj == "PWAKE":
        return genjax.vi.PWake(mkguide(1.0), mk)
    if obj == "QWAKE":        # sample from N(2a, b), score under the proposal N(a, b)
        return genjax.vi.QWake(mkguide(1.0), mkguide(2.0), mk)
    if obj == "QWAKE0":
        return genjax.vi.QWake(mkguide(1.0), mkguide(1.0), mk)
    raise ValueError(obj)


def _status(e):
    return "raised:" + type(e).__name__


def run_job(job):
    import jax
    import jax.numpy as jnp
    import numpy as np

    events, err = [], None
    keys = jax.random.split(jax.random.key(job["seed"]), job["nkeys"])
    if "c" in job:
        c = job["c"]
        p1 = jnp.array([a / 4.0 for a, _ in GRID], dtype=jnp.float32)
        p2 = jnp.array([b / 4.0 for _, b in GRID], dtype=jnp.float32)
        build = build_discrete
    else:
        c = job["g"]
        p1 = jnp.array([a / 4.0 for a, _ in GRID], dtype=jnp.float32)
        p2 = jnp.array([2 * b / 4.0 for _, b in GRID], dtype=jnp.float32)
        build = build_gauss
    try:
        est = build(c)

        def one(k, x1, x2):
            g1, g2 = est(k, (x1, x2))
            return g1, g2

        G1, G2 = jax.jit(jax.vmap(jax.vmap(one, in_axes=(0, None, None)), in_axes=(None, 0, 0)))(keys, p1, p2)
        G1, G2 = np.asarray(G1), np.asarray(G2)
        status = "ok"
    except Exception as e:
        status = _status(e)
        err = repr(e)[:400]
    for gi, (a, b) in enumerate(GRID):
        if "c" in job:
            kind = "plain" if (c["gk"] == "plain") else "enum"
            ev = dict(id=f"{job['id']}/{a}/{b}", kind=kind, c=c, phn=a, wn=b, n=job["nkeys"], hb=job["hb"], status=status, outs=[])
        else:
            ev = dict(id=f"{job['id']}/{a}/{b}", kind="gauss", c=c, an=a, bn=2 * b, status=status, outs=[])
        if status == "ok":
            if ev["kind"] == "plain":
                cls = {}
                for x, y in zip(G1[gi], G2[gi]):
                    k = (fpv(x), fpv(y))
                    cls[k] = cls.get(k, 0) + 1
                ev["outs"] = [[x, y, n] for (x, y), n in sorted(cls.items())]
            else:
                ev["outs"] = [[fpv(x), fpv(y)] for x, y in zip(G1[gi], G2[gi])]
        events.append(ev)
        if status != "ok":
            break
    return events, err


def _work(jobs):
    out = []
    for job in jobs:
        evs, err = run_job(job)
        out.append((job["id"], evs, err))
    return out


def hoeffding_bound(n, cells, delta=1e-9):
    return int(math.ceil(math.sqrt(n * math.log(2.0 * cells / delta) / 2.0)))


def _cfg(path, text):
    with open(path, "w") as f:
        f.write(text)
    return path


def run(prop_id, tier, seed, replay=None):
    rep = vlib.Report(prop_id, tier, seed)
    wd = vlib.workdir(prop_id)
    quick = tier == "quick"
    jvm = ["-XX:ParallelGCThreads=2", "-Xmx3g", "-Xss64m"]
    rep.rule = ("cases of spec/VI.tla (printed by TLC) built with the public genjax API (genjax.gen models, "
                "genjax.marginal guides with vi.flip_enum / vi.categorical_enum / flip / vi.normal_reparam, genjax.Target) "
                "and run through vi.ELBO/IWELBO/PWake/QWake on the whole parameter grid with keys from the seed; TLC "
                "judges each logged gradient pair (fixed point 2^-12) against the closed-form gradient / pointwise "
                "law of VI.tla. non-trivial = distinct (case, grid point) with a nonzero logged gradient")
    # 1. cases and the rationals whose logarithm the spec needs
    cfgN = _cfg(os.path.join(wd, "Need.cfg"), "SPECIFICATION Spec\nINVARIANT EmitNeed\nCHECK_DEADLOCK FALSE\n")
    lnfile = os.path.join(wd, "ln.json")
    vlib.write_json(lnfile, [])
    need = vlib.run_tlc("VI", cfgN, wd, tag="need", workers=4, jvm=jvm, env={"LN_FILE": lnfile, "TRACE_FILE": lnfile}, timeout=600)
    rep.add_tlc(need)
    rats = set()
    for p in need.payloads("NEED"):
        for n, d in p["need"]:
            rats.add((n, d))
    vlib.write_json(lnfile, [dict(n=n, d=d, v=int(round(SV * math.log(n / d)))) for n, d in sorted(rats)])
    cases = {p["ci"]: p["c"] for p in need.payloads("CASE")}
    gcases = {p["gi"]: p["c"] for p in need.payloads("GCASE")}
    # 2. role A (concurrently with the replay)
    roleA = {}

    def role_a():
        cfg = _cfg(os.path.join(wd, "MC.cfg"),
                   "SPECIFICATION Spec\nINVARIANT Normalised\nINVARIANT ProbsOk\nINVARIANT Bounds\nINVARIANT ElboClosedForm\n"
                   "INVARIANT Tight\nINVARIANT GaussExact\nCHECK_DEADLOCK FALSE\n")
        try:
            roleA["res"] = vlib.run_tlc("VI", cfg, wd, tag="roleA", workers=4, jvm=jvm,
                                        env={"LN_FILE": lnfile, "TRACE_FILE": lnfile}, timeout=900)
        except Exception as e:
            roleA["err"] = e

    th_a = threading.Thread(target=role_a)
    th_a.start()
    # 3. replay
    nplain = 2048 if quick else 16384
    jobs = []
    for ci, c in sorted(cases.items()):
        jobs.append(dict(id=f"D{ci}", c=c, seed=(seed * 1000003 + ci) % (2 ** 31),
                         nkeys=nplain if c["gk"] == "plain" else 2, hb=0))
    for gi, g in sorted(gcases.items()):
        jobs.append(dict(id=f"G{gi}", g=g, seed=(seed * 1000003 + 100 + gi) % (2 ** 31), nkeys=8 if quick else 64))
    if replay:
        with open(replay) as f:
            jobs = [json.load(f)["detail"]["job"]]
    cells = 2 * 9 * max(1, len(jobs))
    for jb in jobs:
        if "c" in jb:
            jb["hb"] = hoeffding_bound(jb["nkeys"], cells)
    rep.extra["hoeffding"] = {"delta": 1e-9, "cells": cells, "n": nplain, "bound": hoeffding_bound(nplain, cells)}
    nproc = min(11, vlib.NCPU, len(jobs))
    shards = [jobs[w::nproc] for w in range(nproc)]
    t0 = time.time()
    # keep each worker single-threaded (16 XLA/Eigen threads per worker only add contention)
    os.environ.setdefault("XLA_FLAGS", "--xla_cpu_multi_thread_eigen=false intra_op_parallelism_threads=1")
    os.environ.setdefault("OMP_NUM_THREADS", "1")
    ctx = mp.get_context("spawn")
    with ctx.Pool(nproc) as pool:
        results = pool.map(_work, shards)
    rep.extra["replay_wall_s"] = round(time.time() - t0, 1)
    events, errors = [], {}
    for chunk in results:
        for jid, evs, err in chunk:
            events += evs
            if err:
                errors[jid] = err
    job_of = {jb["id"]: jb for jb in jobs}
    trace = os.path.join(wd, "trace.json")
    vlib.write_json(trace, events)
    cfgT = _cfg(os.path.join(wd, "Trace.cfg"), "SPECIFICATION SpecT\nCHECK_DEADLOCK FALSE\n")
    t = vlib.run_tlc("VI", cfgT, wd, tag="trace", workers=1, jvm=jvm, env={"LN_FILE": lnfile, "TRACE_FILE": trace}, timeout=900)
    rep.add_tlc(t)
    verdicts = {v["id"]: v for v in t.payloads("VERDICT")}
    if len(verdicts) != len(events):
        raise vlib.MachineryError(f"trace validation returned {len(verdicts)} verdicts for {len(events)} events")
    rep.traces = len(events)
    counts = {}
    for ev in events:
        jid = ev["id"].split("/")[0]
        jb = job_of[jid]
        v = verdicts[ev["id"]]
        counts[ev["kind"]] = counts.get(ev["kind"], 0) + 1
        rep.evaluations += max(1, sum(o[2] if len(o) == 3 else 1 for o in ev["outs"]))
        if ev["status"] == "ok" and any(o[0] != 0 or o[1] != 0 for o in ev["outs"]):
            rep.nontrivial.add(ev["id"])
        if v["clause"] == "ok":
            continue
        c = ev["c"]
        sig = {"clause": v["clause"], "status": ev["status"], "diag": v["diag"], "objective": c["obj"],
               "guide": c.get("gk", "normal_reparam"),
               "case": show_case(c) if "c" in jb else f"gauss {c}", "point": ev["id"].split("/", 1)[1]}
        rep.violation(sig, {"job": jb, "event": ev, "error": errors.get(jid)})
    for jb in jobs[:: max(1, len(jobs) // 4)]:
        rep.sample({"id": jb["id"], "case": show_case(jb["c"]) if "c" in jb else jb["g"]})
    rep.extra["events_by_kind"] = counts
    rep.extra["ln_table_entries"] = len(rats)
    th_a.join()
    if "err" in roleA:
        raise roleA["err"]
    rep.add_tlc(roleA["res"])
    rep.extra["roleA"] = {"states": roleA["res"].distinct, "wall_s": round(roleA["res"].wall, 1),
                          "invariants": ["Normalised", "ProbsOk", "Bounds", "ElboClosedForm", "Tight", "GaussExact"]}
    rep.exhaustive = True
    rep.extra["exhaustive_scope"] = "every case of the VI.tla catalogue at every grid point (the catalogue itself is a sample of model/guide pairs)"
    rep.assumptions = [
        "logarithms of the rationals requested by the spec come from math.log (reference input)",
        "enumerable guides: estimate compared with the exact gradient (tolerance 24/4096 + 0.4%)",
        "plain guides: exists x with the pointwise gradient, frequencies within Hoeffding at delta=1e-9",
        "Gaussian guides: pathwise law between d/da and d/db with the noise inferred from d/da; the noise distribution is not tested",
    ]
    return rep.finish()
