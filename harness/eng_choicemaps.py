"""C17 / C33 — choice maps: replay TLC-enumerated construction terms on the real ChoiceMap API.

TLC (spec/ChoiceMaps.tla) enumerates construction terms, gives each its finite-map meaning and prints
the expected observation table (probe path -> value | none | skip, membership, get_selection bits,
emptiness).  This driver only builds the term through the public API (several spellings, three
modes), performs the lookups, projects them to ints and compares for equality.
"""

from __future__ import annotations

import json
import multiprocessing as mp
import os
import warnings

from . import vlib

PROPS = {
    "C17": dict(
        spec="ChoiceMaps",
        category="model_checking", design_ref="§5 C17",
        technique="TLA+ spec (ChoiceMaps.tla): finite-map meaning of every ChoiceMap construction operator, laws "
                  "model-checked by TLC; TLC-enumerated terms with TLC-computed observation tables replayed on the "
                  "real ChoiceMap API in concrete / array / jit modes",
        text="Bounded-exhaustive: every construction term of depth <=2 (entry/d/kw/extend/at.set/|/switch/mask/filter/"
             "get_submap/vmapped builders/array and scalar index levels) plus LCG-generated depth-4 terms; 23 probe paths "
             "(value, `in`, []), get_selection over 40 static addresses, static_is_empty; left-biased union, mask, "
             "filter, switch, index-transparency laws checked by TLC on the spec itself.",
        note="Trusted: TLC, the Python term builder (public API calls only). Terms the API documents as errors are "
             "outside the grammar (WFT in the spec).",
    ),
    "C33": dict(
        spec="ChoiceMaps",
        category="model_checking", design_ref="§5 C33",
        technique="TLA+ spec (ChoiceMaps.tla, InvalidSubsetM over a catalogue of model shapes) model-checked by TLC; "
                  "TLC-enumerated choice maps (valid sub-maps + 0-2 untraceable addresses, six index-nesting wrappers) "
                  "replayed through ChoiceMap.invalid_subset on nine real genjax models",
        text="Bounded-exhaustive over the catalogue: every sub-map of <=3 addresses with <=2 untraceable ones, each plain, "
             "under a scalar index, vmapped (array leaves), under an array index and as a union of two index levels; "
             "result compared by None-ness and by public lookups with the TLC-computed invalid sub-map.",
        note="Trusted: TLC, the hand-built model catalogue matches ShapeSets in the spec (static/vmap/scan/switch/mask/"
             "repeat/map/static-calling-switch/mixed str+tuple addresses).",
    ),
}

ALPHA = ["a", "b", "c"]
ADDRS = [()] + [(x,) for x in ALPHA] + [(x, y) for x in ALPHA for y in ALPHA] + \
        [(x, y, z) for x in ALPHA for y in ALPHA for z in ALPHA]

PROBES = [(), ("a",), ("b",), ("a", "a"), ("a", "b"), ("b", "a"), ("a", "b", "a"),
          ("0",), ("1",), ("0", "a"), ("1", "a"), ("0", "b"), ("1", "a", "b"), ("0", "b", "a"),
          ("a", "0"), ("a", "1"), ("b", "1"), ("a", "b", "0"), ("2", "a"), ("0", "0", "a"),
          ("c",), ("a", "c"), ("0", "c")]

JS = [[0, 1], [1, 0], [2, 0], [1, 2]]
SELCAT = None  # built lazily from Selections terms


def _selcat():
    T = lambda t, p=(), k=(): {"t": t, "p": list(p), "k": list(k)}
    at = lambda *p: T("at", p)
    return [T("all"), T("none"), at("a"), at("b"), at("a", "b"), T("not", (), [at("a")]),
            T("or", (), [at("a"), at("b", "a")]), at("*", "b"), T("lf", ("a",)),
            T("and", (), [at("a"), T("not", (), [at("a", "b")])]), T("leaf")]


def show(t):
    k = t["t"]
    ch = [show(c) for c in t["k"]]
    p = ",".join(t["p"])
    if k == "emp":
        return "{}"
    if k == "ent":
        return f"[{p}]={t['v']}"
    if k == "ext":
        return f"ext[{p}]({ch[0]})"
    if k == "msk":
        return f"mask{'T' if t['f'] else 'F'}({ch[0]})"
    if k == "flt":
        return f"filter{t['v']}({ch[0]})"
    if k == "sub":
        return f"({ch[0]})({p})"
    if k == "or":
        return f"({ch[0]} | {ch[1]})"
    if k == "sw":
        return f"switch{t['v']}({ch[0]}, {ch[1]})"
    if k == "set":
        return f"({ch[0]}).at[{p}].set({t['v']})"
    if k == "dm":
        return f"from_mapping({ch[0]}; {ch[1]})"
    if k == "vm":
        return f"vmap({ch[0]} ; {ch[1]})"
    if k == "ixa":
        return f"C[{JS[t['v'] - 1]}]({ch[0]})"
    raise ValueError(k)


def top_ops(t, depth=2):
    if depth == 0 or not t["k"]:
        return t["t"]
    return t["t"] + "(" + ",".join(top_ops(c, depth - 1) for c in t["k"]) + ")"


def tags(t, acc=None):
    acc = set() if acc is None else acc
    acc.add(t["t"])
    for c in t["k"]:
        tags(c, acc)
    return acc


# ----------------------------------------------------------------------------------------------
# parameters of a term (values, flags, indices) in traversal order; a "vm" node contributes the
# parameters of its first lane paired with those of the second lane
# ----------------------------------------------------------------------------------------------

def _own_slots(t):
    k = t["t"]
    out = []
    if k in ("ent",):
        out.append(("val", t["v"]))
    elif k == "set":
        for c in t["p"]:
            if c.isdigit():
                out.append(("idx", int(c)))
        out.append(("val", t["v"]))
    elif k == "msk":
        out.append(("flag", bool(t["f"])))
    elif k == "sw":
        out.append(("sw", t["v"]))
    elif k == "ext" and t["p"][0].isdigit():
        out.append(("idx", int(t["p"][0])))
    return out


def collect(t):
    """Slots of t in build order.  vm nodes yield ('vm', [(kind, (x0, x1)), ...])."""
    out = list(_own_slots(t))
    if t["t"] == "vm":
        a, b = collect(t["k"][0]), collect(t["k"][1])
        assert len(a) == len(b) and all(x[0] == y[0] for x, y in zip(a, b)), "vm lanes differ in shape"
        out.append(("vm", [(x[0], (x[1], y[1])) for x, y in zip(a, b)]))
        return out
    for c in t["k"]:
        out += collect(c)
    return out


class Params:
    """Hands the runtime value of each slot to the builder, in order."""

    def __init__(self, values):
        self.values = list(values)
        self.i = 0

    def next(self):
        v = self.values[self.i]
        self.i += 1
        return v


def runtime_values(slots, mode):
    """Python / jnp values for the slots in the given mode (concrete | array)."""
    import jax.numpy as jnp
    out = []
    for kind, x in slots:
        if kind == "vm":
            lanes = []
            for k2, (x0, x1) in x:
                dt = jnp.bool_ if k2 == "flag" else jnp.int32
                lanes.append(jnp.array([x0, x1], dtype=dt))
            out.append(lanes)
        elif mode == "concrete":
            out.append(x)
        else:
            out.append(jnp.array(x, dtype=jnp.bool_ if kind == "flag" else jnp.int32))
    return out


# ----------------------------------------------------------------------------------------------
# building a term through the public API (spelling variants chosen by `sp`)
# ----------------------------------------------------------------------------------------------

def _nest(p, v):
    d = v
    for c in reversed(p):
        d = {c: d}
    return d


def build(t, P, sp):
    """t: term, P: Params, sp: spelling selector (int)."""
    import jax
    import jax.numpy as jnp
    from genjax import ChoiceMap
    from genjax import ChoiceMapBuilder as C
    k = t["t"]
    sp2 = sp // 3 + 1
    if k == "emp":
        return [ChoiceMap.empty(), C.n(), ChoiceMap.d({}), ChoiceMap.kw()][sp % 4]
    if k == "ent":
        v = P.next()
        p = tuple(t["p"])
        if not p:
            return ChoiceMap.choice(v)
        s = sp % 7
        if s == 0:
            return ChoiceMap.entry(v, *p)
        if s == 1:
            return ChoiceMap.choice(v).extend(*p)
        if s == 2:
            return C[p].set(v)
        if s == 3:
            return ChoiceMap.d({p if len(p) > 1 else p[0]: v})
        if s == 4:
            return ChoiceMap.kw(**_nest(p, v))
        if s == 5:
            return C[p[0]].set(C[p[1:]].set(v)) if len(p) > 1 else C[p[0]].v(v)
        return ChoiceMap.d(_nest(p, v))
    if k == "ext":
        c = t["p"][0]
        if c.isdigit():
            i = P.next()
            x = build(t["k"][0], P, sp2)
            return [x.extend(i), C[i].set(x), ChoiceMap.entry(x, i)][sp % 3]
        x = build(t["k"][0], P, sp2)
        return [x.extend(c), C[c].set(x), ChoiceMap.entry(x, c), ChoiceMap.d({c: x}), ChoiceMap.kw(**{c: x})][sp % 5]
    if k == "msk":
        f = P.next()
        return build(t["k"][0], P, sp2).mask(f)
    if k == "flt":
        from .eng_selections import build_smart
        sel = build_smart(_selcat()[t["v"] - 1])
        x = build(t["k"][0], P, sp2)
        return x.filter(sel) if sp % 2 == 0 else sel.filter(x)
    if k == "sub":
        x = build(t["k"][0], P, sp2)
        c = t["p"][0]
        c = int(c) if c.isdigit() else c
        return x(c) if sp % 2 == 0 else x.get_submap(c)
    if k == "or":
        x = build(t["k"][0], P, sp2)
        y = build(t["k"][1], P, sp2 + 1)
        s = sp % 4
        if s == 0:
            return x | y
        if s == 1:
            return x ^ y
        if s == 2:
            return x + y
        return x.merge(y)
    if k == "sw":
        i = P.next()
        x = build(t["k"][0], P, sp2)
        y = build(t["k"][1], P, sp2 + 1)
        return ChoiceMap.switch(i, [x, y]) if sp % 2 == 0 else C.switch(i, [x, y])
    if k == "set":
        p = tuple(P.next() if c.isdigit() else c for c in t["p"])
        v = P.next()
        x = build(t["k"][0], P, sp2)
        return x.at[p].set(v)
    if k == "dm":
        a, b = t["k"]
        va, vb = P.next(), P.next()
        pa, pb = tuple(a["p"]), tuple(b["p"])
        if sp % 2 == 0:
            return ChoiceMap.from_mapping([(pa, va), (pb, vb)])
        ka = pa if len(pa) > 1 else pa[0]
        kb = pb if (len(pb) > 1 or pb == pa) else pb[0]
        return ChoiceMap.d({ka: va, kb: vb})
    if k == "vm":
        lanes = P.next()
        child = t["k"][0]
        return jax.vmap(lambda *xs: build(child, Params(xs), sp2))(*lanes) if lanes else build(child, Params([]), sp2)
    if k == "ixa":
        js = jnp.array(JS[t["v"] - 1], dtype=jnp.int32)
        child = t["k"][0]
        if child["t"] == "vm" and sp % 2 == 1:
            lanes = P.next()
            return jax.vmap(lambda j, *xs: build(child["k"][0], Params(xs), sp2).extend(j))(js, *lanes)
        x = build(child, P, sp2)
        return [x.extend(js), C[js].set(x), ChoiceMap.entry(x, js)][(sp // 2) % 3]
    raise ValueError(k)


def _path(p):
    return tuple(int(c) if c.isdigit() else c for c in p)


def lookup_raw(chm, p, getitem=True):
    """(get_value() result, `in`, [] raised?) through public lookups only."""
    from genjax._src.core.generative.choice_map import ChoiceMapNoValueAtAddress
    path = _path(p)
    sub = chm(*path) if len(path) % 2 == 0 else chm.get_submap(path)
    v = sub.get_value()
    isin = path in chm
    if not getitem:          # `[]` is exercised in concrete mode only (a third traversal per probe)
        return v, isin, not isin
    try:
        chm[path]
        raised = False
    except ChoiceMapNoValueAtAddress:
        raised = True
    return v, isin, raised


def project(v):
    """None -> 0 ; Mask(v, f) -> v if f else 0 ; raw -> v.  Returns (val, structurally_present)."""
    import numpy as np
    from genjax import Mask
    if v is None:
        return 0, 0
    if isinstance(v, Mask):
        f = np.asarray(v.primal_flag())
        x = np.asarray(v.value)
        if f.shape != () or x.shape != ():
            return ("vec", x.tolist(), f.tolist()), 1
        return (int(x) if bool(f) else 0), 1
    x = np.asarray(v)
    if x.shape != ():
        return ("vec", x.tolist()), 1
    return int(x), 1


def observe(chm, tab, want_sel=True, getitem=True):
    """Observation of a real choice map over the non-skipped probes."""
    vals, ins, errs = [], [], []
    for p, exp in zip(PROBES, tab):
        if exp[0] == 9:
            vals.append(9)
            ins.append(9)
            continue
        v, isin, raised = lookup_raw(chm, p, getitem)
        val, st = project(v)
        vals.append(val)
        ins.append(1 if isin else 0)
        if bool(isin) != (v is not None) or raised != (not isin):
            errs.append({"probe": list(p), "in": bool(isin), "getitem_raised": raised, "has_value": v is not None})
    sel = None
    if want_sel:
        s = chm.get_selection()
        sel = [1 if (s[a] and (a in s)) else 0 for a in ADDRS]
    return vals, ins, errs, sel, bool(chm.static_is_empty())


def compare(case, mode, obs, fails):
    vals, ins, errs, sel, empty = obs
    tab = case["tab"]
    traced = mode != "concrete"
    bad = []
    for i, exp in enumerate(tab):
        if exp[0] == 9:
            continue
        if vals[i] != exp[0]:
            bad.append((i, "val", exp[0], vals[i]))
        want_in = exp[1] if traced else exp[2]
        if want_in != 9 and ins[i] != want_in:
            bad.append((i, "in", want_in, ins[i]))
    if bad:
        feature = "-"
        fw = case.get("tabFW") or []
        if fw and all((vals[i] == e[0] or e[0] == 9) for i, e in enumerate(fw)) and all(b[1] == "val" for b in bad):
            feature = "from_mapping-first-pair-wins"
        i, what, want, got = bad[0]
        fails.append({"clause": "C17.lookup" if what == "val" else "C17.in", "mode": mode, "feature": feature,
                      "probe": list(PROBES[i]), "want": want, "got": got, "n_bad": len(bad)})
    for e in errs[:1]:
        fails.append({"clause": "C17.getitem", "mode": mode, "feature": "-", **e})
    if sel is not None:
        want = case["selT"] if traced else case["selC"]
        diff = [i for i, w in enumerate(want) if w != 9 and sel[i] != w]
        if diff:
            feature = "-"
            na = case["selNA"] if traced else case["selNAC"]
            if all(sel[i] == na[i] for i, w in enumerate(want) if w != 9):
                feature = "addresses-under-anchored-index-not-selected"
            fails.append({"clause": "C17.get_selection", "mode": mode, "feature": feature,
                          "addr": list(ADDRS[diff[0]]), "want": want[diff[0]], "got": sel[diff[0]], "n_bad": len(diff)})
    want_e = case["emT"] if traced else case["emC"]
    if want_e != 9:
        if empty and want_e == 0:
            fails.append({"clause": "C17.static_is_empty", "mode": mode, "feature": "claims-empty", "want": 0, "got": 1})
        if (not empty) and want_e == 1 and (case["nsw"] or (not traced and not case["swvm"])):
            fails.append({"clause": "C17.static_is_empty", "mode": mode, "feature": "not-empty", "want": 1, "got": 0})


def run_mode(case, mode, sp):
    """Build + observe in one mode; returns list of failures."""
    import jax
    t = case["term"]
    fails = []
    slots = collect(t)
    try:
        with warnings.catch_warnings():
            warnings.simplefilter("ignore")
            if mode in ("concrete", "array"):
                vals = runtime_values(slots, mode)
                chm = build(t, Params(vals), sp)
                obs = observe(chm, case["tab"], getitem=(mode == "concrete"))
            else:  # jit: every flag / index / value is an argument of the jitted function
                vals = runtime_values(slots, "array")
                side = {}

                def f(args):
                    chm = build(t, Params(args), sp)
                    outs = []
                    ins, errs = [], []
                    from genjax._src.core.generative.choice_map import ChoiceMapNoValueAtAddress
                    for p, exp in zip(PROBES, case["tab"]):
                        if exp[0] == 9:
                            ins.append(9)
                            continue
                        v, isin, raised = lookup_raw(chm, p, False)
                        outs.append(v)
                        ins.append(1 if isin else 0)
                        if bool(isin) != (v is not None) or raised != (not isin):
                            errs.append({"probe": list(p), "in": bool(isin), "getitem_raised": raised,
                                         "has_value": v is not None})
                    side["ins"], side["errs"] = ins, errs
                    side["empty"] = bool(chm.static_is_empty())
                    s = chm.get_selection()
                    side["sel"] = [1 if s[a] else 0 for a in ADDRS]
                    return outs

                outs = jax.jit(f)(vals)
                it = iter(outs)
                pv = [9 if exp[0] == 9 else project(next(it))[0] for exp in case["tab"]]
                obs = (pv, side["ins"], side["errs"], side["sel"], side["empty"])
            compare(case, mode, obs, fails)
    except Exception as e:  # every term of the grammar must build and answer the in-scope lookups
        fails.append({"clause": "C17.raised", "mode": mode, "feature": type(e).__name__, "error": repr(e)[:300]})
    return fails


def check_case_c17(item):
    idx, case, do_jit = item
    fails = []
    fails += run_mode(case, "concrete", idx)
    fails += run_mode(case, "array", idx + 1)
    if do_jit:
        fails += run_mode(case, "jit", idx + 2)
    return fails


def _work_c17(items):
    out = []
    for it in items:
        f = check_case_c17(it)
        if f:
            out.append((it[1], f, it[0]))
    return out


# ----------------------------------------------------------------------------------------------
# C33
# ----------------------------------------------------------------------------------------------

_MODELS = None


def models():
    """The hand-built catalogue; static address sets must equal ShapeSets in spec/ChoiceMaps.tla."""
    global _MODELS
    if _MODELS is not None:
        return _MODELS
    import genjax
    import jax.numpy as jnp

    @genjax.gen
    def inner(x):                                   # S2 = {a, b.a}
        a = genjax.normal(x, 1.0) @ ("a",)
        b = genjax.normal(a, 1.0) @ ("b", "a")
        return a + b

    @genjax.gen
    def outer(x):                                   # S1 = {a, b.a, b.b.a}
        y = inner(x) @ ("b",)
        z = genjax.normal(y, 1.0) @ ("a",)
        return y + z

    @genjax.gen
    def br1():
        return genjax.normal(0.0, 1.0) @ ("a",)

    @genjax.gen
    def br2():
        x = genjax.normal(0.0, 1.0) @ ("b",)
        y = genjax.normal(x, 1.0) @ ("a", "b")
        return x + y

    sw = genjax.switch(br1, br2)                    # S4 = {a} u {b, a.b}

    @genjax.gen
    def outer_sw(i):                                # S8 = {b.a, b.b, b.a.b}
        return sw(i, (), ()) @ ("b",)

    @genjax.gen
    def mixed(x):                                   # S2 with str and tuple addresses in one function
        a = genjax.normal(x, 1.0) @ "a"
        b = genjax.normal(a, 1.0) @ ("b", "a")
        return a + b

    @genjax.gen
    def kernel(c, _):
        y = inner(c) @ ("q",)
        return y, y

    _MODELS = {
        "static": (outer, (0.0,)),
        "vmap": (outer.vmap(in_axes=(0,)), (jnp.zeros(2),)),
        "scan": (inner.iterate(n=2), (0.0,)),
        "switch": (sw, (jnp.array(1), (), ())),
        "mask": (outer.mask(), (jnp.array(True), 0.0)),
        "repeat": (outer.repeat(n=2), (0.0,)),
        "map": (inner.map(lambda r: r + 1.0), (0.0,)),
        "static_switch": (outer_sw, (jnp.array(0),)),
        "static_mixed": (mixed, (0.0,)),
    }
    return _MODELS


def check_case_c33(item):
    idx, case, modes = item
    fails = []
    t = case["term"]
    model, args = models()[case["shape"]]
    sig0 = {"shape": case["shape"], "wrap": case["wrap"]}
    for mode in modes:
        try:
            with warnings.catch_warnings():
                warnings.simplefilter("ignore")
                chm = build(t, Params(runtime_values(collect(t), mode)), idx + (mode == "array"))
                res = chm.invalid_subset(model, args)
                if (res is None) != bool(case["isnone"]):
                    fails.append({"clause": "C33.none", "mode": mode, **sig0, "want_none": bool(case["isnone"]),
                                  "got_none": res is None})
                    continue
                if res is None:
                    continue
                bad = []
                for p, exp in case["tab"]:
                    if exp == 9:
                        continue
                    path = _path(p)
                    val, _ = project(res(*path).get_value())
                    if val != exp:
                        bad.append((list(p), exp, val))
                if bad:
                    fails.append({"clause": "C33.submap", "mode": mode, **sig0, "probe": bad[0][0], "want": bad[0][1],
                                  "got": bad[0][2], "n_bad": len(bad),
                                  "kind": "extra" if any(b[1] == 0 for b in bad) else "missing"})
        except Exception as e:
            fails.append({"clause": "C33.raised", "mode": mode, **sig0, "feature": type(e).__name__,
                          "error": repr(e)[:300]})
    return fails


def _work_c33(items):
    out = []
    for it in items:
        f = check_case_c33(it)
        if f:
            out.append((it[1], f))
    return out


# ----------------------------------------------------------------------------------------------
# engine entry
# ----------------------------------------------------------------------------------------------

LAWS_C17 = ["LawOrLeft", "LawSet", "LawMask", "LawSwitch", "LawFilter", "LawSel", "LawIdxTransparent", "LawExtSub",
            "LawVm", "LawWF", "LawMeaning"]


def _cfg(path, spec, maxdepth, seed, nchains, nper, emit, level, invs):
    with open(path, "w") as f:
        f.write(f"CONSTANTS MaxDepth = {maxdepth}\n Seed = {seed}\n NChains = {nchains}\n NPerChain = {nper}\n"
                f" Emit = {'TRUE' if emit else 'FALSE'}\n Level = {level}\nSPECIFICATION {spec}\n")
        for i in invs:
            f.write(f"INVARIANT {i}\n")
        f.write("CHECK_DEADLOCK FALSE\n")
    return path


def _tlc(cfg, wd, tag):
    """vlib.run_tlc; with VERIF_TLC_CACHE=1 (opt-in, used for mutant self-tests only: the spec side does not depend
    on the genjax tree) an output produced by identical spec + cfg text is reused."""
    if os.environ.get("VERIF_TLC_CACHE") != "1":
        return vlib.run_tlc("ChoiceMaps", cfg, wd, tag=tag, timeout=2400)
    import hashlib
    import shutil
    h = hashlib.sha256()
    for path in (os.path.join(vlib.SPEC, "ChoiceMaps.tla"), os.path.join(vlib.SPEC, "Selections.tla"),
                 os.path.join(vlib.SPEC, "Rand.tla"), cfg):
        with open(path, "rb") as f:
            h.update(f.read())
    cdir = os.path.join(vlib.WORK, "_tlc_cache_choicemaps")
    os.makedirs(cdir, exist_ok=True)
    cached = os.path.join(cdir, h.hexdigest()[:24] + ".out")
    if not os.path.exists(cached):
        res = vlib.run_tlc("ChoiceMaps", cfg, wd, tag=tag, timeout=2400)
        shutil.copy(res.out_path, cached)
        return res
    res = vlib.TLCResult()
    res.out_path, res.rc, res.cmd = cached, 0, "cached:" + cached
    for line in res.lines():
        m = vlib._STATS.search(line)
        if m:
            res.generated, res.distinct = int(m.group(1)), int(m.group(2))
    return res


def _pool_map(fn, items, est_seconds):
    """est_seconds: estimated total steady-state CPU seconds of the items.  Every worker process pays ~20 CPU-s of
    start-up (jax/genjax import, first-use compilation of eager primitives; measured), a steady C17 case costs
    ~8 ms per mode: use only as many workers as the work amortises."""
    # one XLA thread per worker process: the work is thousands of tiny eager ops
    os.environ.setdefault("XLA_FLAGS", "--xla_cpu_multi_thread_eigen=false intra_op_parallelism_threads=1")
    os.environ.setdefault("OMP_NUM_THREADS", "1")
    # tracing allocates and frees many small blocks: keep freed memory in the process instead of mmap/munmap-ing it
    # (measured: halves user+sys time of a worker; the workers are fresh interpreters and inherit this)
    for k, v in (("PYTHONMALLOC", "malloc"), ("MALLOC_TRIM_THRESHOLD_", "2000000000"),
                 ("MALLOC_MMAP_THRESHOLD_", "1000000000"), ("MALLOC_TOP_PAD_", "268435456")):
        os.environ.setdefault(k, v)
    nproc = max(2, min(vlib.NCPU, int(est_seconds / 15) + 1))
    ctx = mp.get_context("spawn")
    with ctx.Pool(nproc) as pool:
        return pool.map(fn, vlib.chunks(items, nproc * 8))


def run_c17(rep, wd, tier, seed, replay):
    rep.rule = ("construction terms enumerated by TLC from spec/ChoiceMaps.tla (BFS through CMNext to depth 2, plus LCG-"
                "generated depth-4 terms seeded by VERIF_SEED); each built through the public ChoiceMap API (rotating "
                "spellings: entry/choice.extend/C[..].set/d/kw/at.set, | ^ + merge, switch, mask, filter, get_submap, "
                "jax.vmap-ed builders, scalar/array index levels) in mode concrete (python ints/bools), array (jnp "
                "flags/indices) and, for a deterministic subset, jit (flags/indices/values are arguments of a jax.jit-ed "
                "function returning the looked-up values); 23 probe paths: get_value/in/[] compared with the TLC table, "
                "get_selection over 40 static addresses, static_is_empty. non-trivial = distinct term with >=1 present "
                "and >=1 absent in-scope probe")
    if replay:
        cases = [replay["detail"]["case"]]
        jit_every = 1
    else:
        level = 0 if tier == "quick" else 1
        a = _tlc(_cfg(os.path.join(wd, "MC.cfg"), "CMSpec", 2, 0, 1, 1, True, level, LAWS_C17 + ["CMEmit"]), wd, "roleAB")
        rep.add_tlc(a)
        per = 15 if tier == "quick" else 400
        s = _tlc(_cfg(os.path.join(wd, "Rand.cfg"), "CMSpecRand", 4, seed % 60000, 16, per, True, level,
                      ["CMEmitR", "LawWF", "LawSelR"]), wd, "rand")
        rep.add_tlc(s)
        seen = {}
        for res in (a, s):
            for c in res.payloads():
                key = json.dumps(c["term"], sort_keys=True)
                if key not in seen:
                    seen[key] = c
        cases = [seen[k] for k in sorted(seen)]      # TLC's print order depends on thread scheduling
        rep.exhaustive = True
        rep.extra["exhaustive_scope"] = f"all well-formed terms of CMNext up to depth 2 at Level {level}"
        rep.extra["roleA_states"] = a.distinct
        rep.extra["wall_tlc_s"] = [round(a.wall, 1), round(s.wall, 1)]
        rep.extra["random_terms"] = s.distinct
        jit_every = 47 if tier == "quick" else 23
    if replay:
        items = [(replay["detail"].get("sp", 0), cases[0], True)]
    else:
        # the number i selects the API spellings used for the term (rotating, shifted by the seed)
        items = [(i + seed % 1000, c, (i % jit_every == 0)) for i, c in enumerate(cases)]
    import time
    t0 = time.time()
    results = _pool_map(_work_c17, items, 0.016 * len(items) + 0.7 * sum(1 for it in items if it[2]))
    rep.extra["wall_replay_s"] = round(time.time() - t0, 1)
    rep.evaluations = len(cases) * 2 + sum(1 for it in items if it[2])
    rep.traces = len(cases)
    for c in cases:
        vs = [e[0] for e in c["tab"] if e[0] != 9]
        if any(v > 0 for v in vs) and any(v == 0 for v in vs):
            rep.nontrivial.add(show(c["term"]))
    for c in cases[:: max(1, len(cases) // 4)]:
        rep.sample({"term": show(c["term"]), "tab": [e[0] for e in c["tab"]]})
    rep.extra["tags_covered"] = sorted(set().union(*[tags(c["term"]) for c in cases])) if cases else []
    rep.extra["jit_terms"] = sum(1 for it in items if it[2])
    for chunk in results:
        for c, fails, sp in chunk:
            for f in fails[:4]:
                sig = {"clause": f["clause"], "mode": f["mode"], "feature": f.get("feature", "-"),
                       "ops": top_ops(c["term"]), "term": show(c["term"])}
                rep.violation(sig, {"case": c, "fail": f, "sp": sp})
    rep.assumptions = [
        "alphabet {a,b}(+c decoys), indices {0,1,2}, values 1..3, vectors of length 2; terms the API documents as "
        "errors are outside the grammar (WFT): Choice|non-Choice, two switches meeting in an Or, index lookups where "
        "no index level exists, partial slices",
        "probes marked skip by TLC (index applied to a scalar leaf, ambiguous floating/anchored overlap, array-valued "
        "leaf not fully indexed, index hoisted over a traced switch) are not evaluated",
        "get_selection / `in` / static_is_empty are structural: with traced flags masked-out entries count as present "
        "(TLC prints both expectations)",
    ]


def run_c33(rep, wd, tier, seed, replay):
    rep.rule = ("choice maps enumerated by TLC (InvSpec: ordered subsets of 12 candidate addresses, <=2 entries quick / "
                "<=3 thorough, <=2 untraceable, for each of 9 model shapes) x 6 index-nesting wrappers; built with the "
                "public API in concrete and array modes; chm.invalid_subset(model, args) on the real genjax model "
                "compared with InvalidSubsetM computed by TLC: None-ness, and public lookups of the returned map at the map's own addresses and three decoys (plain, under index 0/1, indexed at the leaf). "
                "non-trivial = case with >=1 valid and >=1 invalid address")
    if replay:
        cases = [replay["detail"]["case"]]
    else:
        md = 2 if tier == "quick" else 3
        # NChains = 0 makes TLC print all six wrappers of every map; 1 = one wrapper per map rotating with Seed
        a = _tlc(_cfg(os.path.join(wd, "Inv.cfg"), "InvSpec", md, seed % 60000, 1 if tier == "quick" else 0, 1, True, 0,
                      ["LawInv", "InvEmit"]), wd, "roleAB")
        rep.add_tlc(a)
        cases = sorted(a.payloads(), key=lambda c: (c["shape"], json.dumps(c["term"], sort_keys=True)))
        rep.extra["wall_tlc_s"] = [round(a.wall, 1)]
    both = ("concrete", "array")
    if tier == "quick" and not replay:
        # invalid_subset re-traces the model on every call (0.1-0.4 s): one wrapper (chosen by TLC, rotating with
        # the seed) and one mode per enumerated map; maps with <=1 entry additionally in plain form
        items = [(i, c, (both[(i + seed) % 2],)) for i, c in enumerate(cases)]
        rep.exhaustive = False
        rep.extra["scope"] = (f"TLC enumerates and model-checks every map with <= {md} entries (<=2 invalid) x 9 shapes x 6 "
                              "wrappers; the quick tier replays one wrapper and one mode per map")
    else:
        items = [(i, c, both) for i, c in enumerate(cases)]
        if not replay:
            rep.exhaustive = True
            rep.extra["exhaustive_scope"] = "all ordered candidate subsets with <= 3 entries, <=2 invalid, 9 shapes, 6 wrappers, 2 modes"
    cases = [it[1] for it in items]
    import time
    t0 = time.time()
    # measured: ~0.1-0.4 s per call alone, but concurrent workers slow each other down (system time): 6 workers
    # were the optimum for the 700 quick calls
    results = _pool_map(_work_c33, items, 0.12 * sum(len(it[2]) for it in items))
    rep.extra["wall_replay_s"] = round(time.time() - t0, 1)
    rep.evaluations = sum(len(it[2]) for it in items)
    rep.traces = len(cases)
    for c in cases:
        if c["ninv"] > 0 and c["nent"] > c["ninv"]:
            rep.nontrivial.add(c["shape"] + ":" + c["wrap"] + ":" + show(c["term"]))
    for c in cases[:: max(1, len(cases) // 4)]:
        rep.sample({"shape": c["shape"], "wrap": c["wrap"], "term": show(c["term"]), "none": c["isnone"]})
    rep.extra["shapes"] = sorted({c["shape"] for c in cases})
    for chunk in results:
        for c, fails in chunk:
            for f in fails[:2]:
                sig = {"clause": f["clause"], "mode": f["mode"], "shape": f["shape"], "wrap": f["wrap"],
                       "feature": f.get("feature", f.get("kind", "-")), "term": show(c["term"])}
                rep.violation(sig, {"case": c, "fail": f})
    rep.assumptions = [
        "model shapes in the spec (ShapeSets) were transcribed by hand from the nine driver models",
        "'can trace' = static part of the address is a leaf address of the model (switch: union of branches); a "
        "deeper or shallower address than a model leaf is untraceable",
    ]


def run(prop_id, tier, seed, replay=None):
    if replay:        # read it first: the replay file usually lives in the work directory that is recreated below
        with open(replay) as f:
            replay = json.load(f)
    rep = vlib.Report(prop_id, tier, seed)
    wd = vlib.workdir(prop_id)
    if prop_id == "C17":
        run_c17(rep, wd, tier, seed, replay)
    else:
        run_c33(rep, wd, tier, seed, replay)
    return rep.finish()
