"""Hand-written valid-parameter table for C24 (no jax import here).

One row per exported wrapper of genjax.generative_functions.distributions:

    name: dict(
        tfd   = name of the tfp.distributions class the wrapper is documented to wrap,
        kw    = keyword names of the positional parameters, in TFP constructor order
                (None: the wrapper's positional parameter has a different keyword form, see `fix`),
        fix   = how a positional argument tuple is turned into the *oracle's* constructor kwargs when
                that is not simply dict(zip(kw, args))  ("logits": bare positional == logits=,
                "flip": probs= with dtype=bool),
        dtype = documented dtype of a sample,
        pts   = [a, b, c, d]: a, b "scalar" points (smallest parameter shapes), c, d batched points.
                Supports are nested: supp(a) <= supp(b), supp(c) <= supp(d), because the histories keep
                a value sampled under a (c) while the arguments change to b (d),
        kwonly = optional list of keyword-only points (alternative parameterisations: probs=, log_rate=)
    )

All numbers are Python floats / nested lists; the driver converts them with jnp.asarray(.., float32).
"""

V3a = [0.1, -0.5, 1.0]
V3b = [1.0, 1.0, -1.0]
M23a = [[0.1, -0.5, 1.0], [0.0, 0.3, -0.3]]
M23b = [[1.0, 1.0, -1.0], [0.5, -1.0, 0.2]]
C3a = [1.0, 2.0, 3.0]
C3b = [0.8, 1.2, 2.0]
CM23a = [[1.0, 2.0, 3.0], [2.0, 2.0, 0.7]]
CM23b = [[0.8, 1.2, 2.0], [1.5, 0.9, 3.0]]
B3a = [1.0, 2.0, 3.0]
B3b = [2.0, 2.0, 0.5]
B3c = [2.0, 1.0, 1.5]
B3d = [1.0, 3.0, 2.0]
L3a = [0.0, 0.5, -0.5]
L3b = [-1.0, 0.2, 1.0]
S3a = [1.0, 0.5, 2.0]
S3b = [1.5, 1.0, 0.7]
U1 = [0.6, 0.8]
U2 = [0.0, 1.0]
U3a = [0.0, 0.6, 0.8]
U3b = [1.0, 0.0, 0.0]
UM23a = [[0.0, 0.6, 0.8], [1.0, 0.0, 0.0]]
UM23b = [[0.6, 0.0, -0.8], [0.0, 1.0, 0.0]]


def _loc_scale(tfd_name, kw=("loc", "scale")):
    return dict(tfd=tfd_name, kw=list(kw), dtype="float32",
                pts=[(0.0, 1.0), (0.5, 2.0), (L3a, S3a), (L3b, S3b)])


TABLE = {
    "bernoulli": dict(tfd="Bernoulli", kw=["logits"], fix="logits", dtype="int32",
                      pts=[(0.3,), (-1.2,), ([0.5, -0.5, 2.0],), ([-1.0, 0.0, 1.0],)],
                      kwonly=[dict(probs=0.3), dict(probs=[0.2, 0.5, 0.9])]),
    "beta": dict(tfd="Beta", kw=["concentration1", "concentration0"], dtype="float32",
                 pts=[(2.0, 3.0), (0.7, 1.5), (B3a, B3b), (B3c, B3d)]),
    "beta_binomial": dict(tfd="BetaBinomial", kw=["total_count", "concentration1", "concentration0"], dtype="float32",
                          pts=[(10.0, 2.0, 3.0), (10.0, 1.0, 1.5), ([5.0, 10.0, 20.0], B3a, B3b), ([5.0, 10.0, 20.0], B3c, B3d)]),
    "beta_quotient": dict(tfd="BetaQuotient",
                          kw=["concentration1_numerator", "concentration0_numerator",
                              "concentration1_denominator", "concentration0_denominator"], dtype="float32",
                          pts=[(2.0, 3.0, 2.0, 2.0), (1.5, 2.0, 3.0, 1.5), (B3a, B3b, B3c, B3d), (B3c, B3d, B3a, B3b)]),
    "binomial": dict(tfd="Binomial", kw=["total_count", "logits"], dtype="float32",
                     pts=[(10.0, 0.3), (10.0, -0.8), ([5.0, 10.0, 20.0], L3a), ([5.0, 10.0, 20.0], L3b)],
                     kwonly=[dict(total_count=10.0, probs=0.3), dict(total_count=[5.0, 10.0, 20.0], probs=[0.2, 0.5, 0.9])]),
    "categorical": dict(tfd="Categorical", kw=["logits"], fix="logits", dtype="int32",
                        pts=[(V3a,), (V3b,), (M23a,), (M23b,)],
                        kwonly=[dict(probs=[0.2, 0.3, 0.5]), dict(probs=[[0.2, 0.3, 0.5], [0.6, 0.3, 0.1]])]),
    "cauchy": _loc_scale("Cauchy"),
    "chi": dict(tfd="Chi", kw=["df"], dtype="float32", pts=[(3.0,), (5.5,), ([1.0, 2.0, 4.0],), ([3.0, 1.5, 2.5],)]),
    "chi2": dict(tfd="Chi2", kw=["df"], dtype="float32", pts=[(3.0,), (5.5,), ([1.0, 2.0, 4.0],), ([3.0, 1.5, 2.5],)]),
    "dirichlet": dict(tfd="Dirichlet", kw=["concentration"], dtype="float32", pts=[(C3a,), (C3b,), (CM23a,), (CM23b,)]),
    "dirichlet_multinomial": dict(tfd="DirichletMultinomial", kw=["total_count", "concentration"], dtype="float32",
                                  pts=[(8.0, C3a), (8.0, C3b), ([8.0, 5.0], CM23a), ([8.0, 5.0], CM23b)]),
    "double_sided_maxwell": _loc_scale("DoublesidedMaxwell"),
    "exp_gamma": dict(tfd="ExpGamma", kw=["concentration", "rate"], dtype="float32",
                      pts=[(2.0, 1.5), (3.0, 0.5), (B3a, B3b), (B3c, B3d)],
                      kwonly=[dict(concentration=2.0, log_rate=0.3)]),
    "exp_inverse_gamma": dict(tfd="ExpInverseGamma", kw=["concentration", "scale"], dtype="float32",
                              pts=[(2.0, 1.5), (3.0, 0.5), (B3a, B3b), (B3c, B3d)],
                              kwonly=[dict(concentration=2.0, log_scale=0.3)]),
    "exponential": dict(tfd="Exponential", kw=["rate"], dtype="float32",
                        pts=[(1.5,), (0.4,), (S3a,), (S3b,)]),
    "flip": dict(tfd="Bernoulli", kw=["p"], fix="flip", dtype="bool",
                 pts=[(0.3,), (0.8,), ([0.2, 0.5, 0.9],), ([0.6, 0.1, 0.5],)]),
    "gamma": dict(tfd="Gamma", kw=["concentration", "rate"], dtype="float32",
                  pts=[(2.0, 1.5), (3.0, 0.5), (B3a, B3b), (B3c, B3d)],
                  kwonly=[dict(concentration=2.0, log_rate=0.3)]),
    "geometric": dict(tfd="Geometric", kw=["logits"], dtype="float32",
                      pts=[(0.3,), (-0.5,), (L3a,), (L3b,)],
                      kwonly=[dict(probs=0.3), dict(probs=[0.2, 0.5, 0.9])]),
    "gumbel": _loc_scale("Gumbel"),
    "half_cauchy": dict(tfd="HalfCauchy", kw=["loc", "scale"], dtype="float32",
                        pts=[(0.5, 1.0), (0.5, 2.5), (L3a, S3a), (L3a, S3b)]),
    "half_normal": dict(tfd="HalfNormal", kw=["scale"], dtype="float32", pts=[(1.0,), (2.5,), (S3a,), (S3b,)]),
    "half_student_t": dict(tfd="HalfStudentT", kw=["df", "loc", "scale"], dtype="float32",
                           pts=[(3.0, 0.5, 1.0), (5.0, 0.5, 2.5), ([3.0, 4.0, 5.0], L3a, S3a), ([2.5, 6.0, 3.0], L3a, S3b)]),
    "inverse_gamma": dict(tfd="InverseGamma", kw=["concentration", "scale"], dtype="float32",
                          pts=[(2.0, 1.5), (3.0, 0.5), (B3a, B3b), (B3c, B3d)]),
    "kumaraswamy": dict(tfd="Kumaraswamy", kw=["concentration1", "concentration0"], dtype="float32",
                        pts=[(2.0, 3.0), (0.7, 1.5), (B3a, B3b), (B3c, B3d)]),
    "lambert_w_normal": dict(tfd="LambertWNormal", kw=["loc", "scale", "tailweight"], dtype="float32",
                             pts=[(0.0, 1.0, 0.2), (0.5, 2.0, 0.1), (L3a, S3a, [0.1, 0.2, 0.3]), (L3b, S3b, [0.3, 0.05, 0.15])]),
    "laplace": _loc_scale("Laplace"),
    "log_normal": _loc_scale("LogNormal"),
    "logit_normal": _loc_scale("LogitNormal"),
    "moyal": _loc_scale("Moyal"),
    "multinomial": dict(tfd="Multinomial", kw=["total_count", "logits"], dtype="float32",
                        pts=[(8.0, V3a), (8.0, V3b), ([8.0, 5.0], M23a), ([8.0, 5.0], M23b)],
                        kwonly=[dict(total_count=8.0, probs=[0.2, 0.3, 0.5])]),
    "mv_normal": dict(tfd="MultivariateNormalFullCovariance", kw=["loc", "covariance_matrix"], dtype="float32",
                      pts=[([0.0, 1.0], [[1.0, 0.3], [0.3, 2.0]]), ([0.5, -1.0], [[2.0, -0.5], [-0.5, 1.0]]),
                           ([[0.0, 1.0], [1.0, 2.0], [-1.0, 0.0]], [[1.0, 0.3], [0.3, 2.0]]),
                           ([[0.5, -1.0], [0.0, 0.0], [2.0, 1.0]], [[2.0, -0.5], [-0.5, 1.0]])]),
    "mv_normal_diag": dict(tfd="MultivariateNormalDiag", kw=["loc", "scale_diag"], dtype="float32",
                           pts=[(L3a, S3a), (L3b, S3b), (M23a, [[1.0, 0.5, 2.0], [0.7, 1.0, 1.5]]), (M23b, [[1.5, 1.0, 0.7], [2.0, 0.4, 1.0]])]),
    "negative_binomial": dict(tfd="NegativeBinomial", kw=["total_count", "logits"], dtype="float32",
                              pts=[(5.0, 0.3), (3.0, -0.8), ([5.0, 2.0, 8.0], L3a), ([4.0, 3.0, 6.0], L3b)],
                              kwonly=[dict(total_count=5.0, probs=0.3)]),
    "non_central_chi2": dict(tfd="NoncentralChi2", kw=["df", "noncentrality"], dtype="float32",
                             pts=[(3.0, 1.0), (5.5, 2.0), ([1.0, 2.0, 4.0], [0.5, 1.0, 2.0]), ([3.0, 1.5, 2.5], [1.0, 0.3, 0.7])]),
    "normal": _loc_scale("Normal"),
    "poisson": dict(tfd="Poisson", kw=["rate"], dtype="float32", pts=[(3.0,), (0.7,), ([1.0, 4.0, 9.0],), ([2.0, 0.5, 6.0],)],
                    kwonly=[dict(log_rate=0.5)]),
    "power_spherical": dict(tfd="PowerSpherical", kw=["mean_direction", "concentration"], dtype="float32",
                            pts=[(U3a, 2.0), (U3b, 5.0), (UM23a, [2.0, 5.0]), (UM23b, [1.0, 3.0])]),
    "skellam": dict(tfd="Skellam", kw=["rate1", "rate2"], dtype="float32",
                    pts=[(3.0, 1.5), (0.7, 2.0), ([1.0, 4.0, 2.0], [2.0, 0.5, 2.0]), ([2.0, 0.5, 6.0], [1.0, 1.0, 3.0])]),
    "student_t": dict(tfd="StudentT", kw=["df", "loc", "scale"], dtype="float32",
                      pts=[(3.0, 0.0, 1.0), (5.0, 0.5, 2.0), ([3.0, 4.0, 5.0], L3a, S3a), ([2.5, 6.0, 3.0], L3b, S3b)]),
    "truncated_cauchy": dict(tfd="TruncatedCauchy", kw=["loc", "scale", "low", "high"], dtype="float32",
                             pts=[(0.0, 1.0, -1.0, 2.0), (0.5, 2.0, -1.5, 2.5),
                                  (L3a, S3a, [-1.0, -1.0, -2.0], [2.0, 1.0, 1.0]), (L3b, S3b, [-1.0, -1.5, -2.0], [2.0, 1.0, 3.0])]),
    "truncated_normal": dict(tfd="TruncatedNormal", kw=["loc", "scale", "low", "high"], dtype="float32",
                             pts=[(0.0, 1.0, -1.0, 2.0), (0.5, 2.0, -1.5, 2.5),
                                  (L3a, S3a, [-1.0, -1.0, -2.0], [2.0, 1.0, 1.0]), (L3b, S3b, [-1.0, -1.5, -2.0], [2.0, 1.0, 3.0])]),
    "uniform": dict(tfd="Uniform", kw=["low", "high"], dtype="float32",
                    pts=[(0.0, 2.0), (-1.0, 3.0), ([0.0, 1.0, -2.0], [1.0, 3.0, 2.0]), ([-0.5, 0.0, -2.0], [1.0, 4.0, 2.5])]),
    "von_mises": dict(tfd="VonMises", kw=["loc", "concentration"], dtype="float32",
                      pts=[(0.0, 1.0), (0.5, 2.0), (L3a, S3a), (L3b, S3b)]),
    "von_mises_fisher": dict(tfd="VonMisesFisher", kw=["mean_direction", "concentration"], dtype="float32",
                             pts=[(U3a, 2.0), (U3b, 5.0), (UM23a, [2.0, 5.0]), (UM23b, [1.0, 3.0])]),
    "weibull": dict(tfd="Weibull", kw=["concentration", "scale"], dtype="float32",
                    pts=[(2.0, 1.5), (3.0, 0.5), (B3a, B3b), (B3c, B3d)]),
    "zipf": dict(tfd="Zipf", kw=["power"], dtype="int32", pts=[(2.5,), (3.0,), ([2.0, 3.0, 4.0],), ([2.5, 2.2, 3.5],)]),
}
