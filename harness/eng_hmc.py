"""C28 — HMC proposals follow leapfrog dynamics (spec/HMC.tla, spec/HMCTrace.tla).

(A) TLC explores the integer leapfrog state machine of HMC.tla: exact reversibility, alpha
    antisymmetry, only selected coordinates move.
(B) TLC prints the model catalogue.
(C) workers build each model with genjax.normal / genjax.flip, constrain every choice to a start state,
    run HMC(selection, eps, L=k).edit for k = 1..4 with the SAME key (same initial momentum) and log the
    positions and alphas as fixed point (unit 2^-16).
(D) TLC (HMCTrace.tla) infers p0 from q_1 and checks q_2..q_4, alpha_1..alpha_4 against Leap, and that
    unselected / discrete choices are unchanged.
"""

from __future__ import annotations

import itertools
import json
import os
import random
import threading

from . import vlib

PROPS = {
    "C28": dict(
        spec="HMC",
        category="model_checking", design_ref="§5 C28",
        technique="TLA+ state machine (HMC.tla) of the leapfrog integrator over dyadic fixed point, reversibility and "
                  "alpha antisymmetry model-checked by TLC; trajectories logged from the real HMC.edit (L=1..4, same "
                  "key) validated by TLC (HMCTrace.tla), the unobserved momentum inferred from the first position",
        text="4 programs with affine gradients (x~normal(1.5,1); x~normal(1,1), y~normal(x,0.5); x,y,z normal chain "
             "with an unselected flip; array-valued v~normal([.5,-1],1), y~normal(v[0],1)) x every non-empty selection of the continuous addresses x eps in {1/2,1/4} x "
             "start states on a quarter grid x keys: HMC(sel,eps,L=k) for k=1..4 with the same key gives prefixes of "
             "one trajectory; TLC infers p0 from q1 and checks q2..q4 and alpha1..alpha4 against Leap (fixed point "
             "2^-16, tolerance 2^-10 on positions, 2^-7 on alpha) and that unselected / discrete choices are unchanged; the momenta of "
             "different coordinates inferred over 256 keys must be independent in sign (Hoeffding, decided by TLC).",
        note="Trusted: TLC, builder, float32 vs fixed point within the stated tolerance. Invariance of the target is "
             "the textbook consequence of reversibility + volume preservation + alpha, not tested statistically.",
    ),
}

U16 = 65536
TOLQ = 64
TOLA = 1024
NKEY = 6
NIND = 256       # keys of the momentum-independence clause (HBI = 64, HBI^2 >= 16*NIND)
HBI = 64


def _fx(x):
    import numpy as np
    return np.rint(np.asarray(x, dtype=np.float64) * U16).astype(np.int64)


def _groups(sites):
    """Addresses in order with the coordinate indices they hold (len > 1: array-valued choice)."""
    out = []
    for j, s in enumerate(sites):
        if out and out[-1][0] == s["a"]:
            out[-1][1].append(j)
        else:
            out.append((s["a"], [j]))
    return out


def _build(m):
    import genjax
    import jax.numpy as jnp
    sites = m["sites"]
    groups = _groups(sites)

    @genjax.gen
    def model():
        vals = [None] * len(sites)
        for gi, (a, idx) in enumerate(groups):
            s0 = sites[idx[0]]
            if len(idx) == 1:
                mean = jnp.float32(s0["mu4"] / 4.0) if s0["pa"] == 0 else vals[s0["pa"] - 1]
                vals[idx[0]] = genjax.normal(mean, jnp.float32(1.0 / s0["sinv"])) @ a
            else:       # array-valued choice: elements with constant means, common sigma
                mean = jnp.asarray([sites[j]["mu4"] / 4.0 for j in idx], dtype=jnp.float32)
                v = genjax.normal(mean, jnp.float32(1.0 / s0["sinv"])) @ a
                for n, j in enumerate(idx):
                    vals[j] = v[n]
            if m["disc"] and gi == 0:
                _ = genjax.flip(0.25) @ "b"
        return vals[-1]
    return model


def run_case(cat, case, seed):
    """case = dict(model, sel flags, e).  Returns one event per (start state, key)."""
    import jax
    import jax.numpy as jnp
    import numpy as np
    from genjax import ChoiceMap
    from genjax import ChoiceMapBuilder as C
    from genjax import SelectionBuilder as S
    from genjax.inference.requests import HMC
    m = {x["name"]: x for x in cat["models"]}[case["model"]]
    gf = _build(m)
    sites = m["sites"]
    nd = len(sites)
    groups = _groups(sites)
    sel = None
    for a, idx in groups:
        if case["sel"][idx[0]]:
            sel = S[a] if sel is None else (sel | S[a])
    if case.get("with_disc"):
        sel = sel | S["b"]
    rng = random.Random(seed)
    starts = np.array([[rng.randrange(-8, 9) / 4.0 for _ in range(nd)] for _ in range(case["nstart"])],
                      dtype=np.float32)
    discs = np.array([rng.randrange(2) for _ in range(case["nstart"])], dtype=np.int32)
    keys = jax.random.split(jax.random.key(seed), NKEY)
    ikeys = jax.random.split(jax.random.key(seed + 1), NIND)
    eps = jnp.array(2.0 ** -case["e"], dtype=jnp.float32)
    base = dict(op="hmc", model=case["model"], sel=case["sel"], e=case["e"], with_disc=int(bool(case.get("with_disc"))))
    nsel = sum(case["sel"])

    def trace_of(row, d, key):
        ch = ChoiceMap.empty()
        for a, idx in groups:
            ch = ch | C[a].set(row[idx[0]] if len(idx) == 1 else jnp.stack([row[j] for j in idx]))
        if m["disc"]:
            ch = ch | C["b"].set(d.astype(bool))
        tr, _ = gf.importance(key, ch, ())
        return tr

    def positions(nch):
        return jnp.concatenate([jnp.atleast_1d(nch[a]) for a, _ in groups])

    def f(row, d, key):
        tr = trace_of(row, d, key)
        outs = []
        for L in (1, 2, 3, 4):
            new_tr, alpha, _, _ = HMC(sel, eps, L).edit(key, tr, ())
            nch = new_tr.get_choices()
            db = nch["b"].astype(jnp.int32) if m["disc"] else jnp.int32(-1)
            outs.append((positions(nch), alpha, db))
        return outs

    def g(row, d, key):      # one leapfrog step only: first positions for the momentum-independence clause
        new_tr, _, _, _ = HMC(sel, eps, 1).edit(key, trace_of(row, d, key), ())
        return positions(new_tr.get_choices())

    def both(st, ds):
        main = jax.vmap(lambda row, d: jax.vmap(lambda k: f(row, d, k))(keys))(st, ds)
        ind = jax.vmap(lambda k: g(st[0], ds[0], k))(ikeys) if nsel >= 2 and not case.get("with_disc") else None
        return main, ind

    try:
        res, ind = jax.jit(both)(jnp.asarray(starts), jnp.asarray(discs))
    except Exception as e:
        return [dict(base, status="raised:" + type(e).__name__, msg=str(e)[:300], q0=[], qs=[], alphas=[], disc0=-1,
                     discs=[])]
    qs = np.stack([_fx(r[0]) for r in res], axis=2)          # (start, key, L, nd)
    al = np.stack([_fx(r[1]) for r in res], axis=2)          # (start, key, L)
    db = np.stack([np.asarray(r[2]) for r in res], axis=2)
    q0 = _fx(starts)
    events = []
    for a in range(len(starts)):
        for b in range(NKEY):
            events.append(dict(base, status="ok", q0=q0[a].tolist(), qs=qs[a, b].tolist(), alphas=al[a, b].tolist(),
                               disc0=int(discs[a]) if m["disc"] else -1, discs=db[a, b].tolist()))
    if ind is not None:
        events.append(dict(base, op="hmcind", status="ok", q0=q0[0].tolist(), q1=_fx(ind).tolist(), qs=[], alphas=[],
                           disc0=-1, discs=[]))
    return events


def _work(payload):
    cat, jobs = payload
    fl = os.environ.get("XLA_FLAGS", "")
    if "xla_backend_optimization_level" not in fl:
        os.environ["XLA_FLAGS"] = (fl + " --xla_backend_optimization_level=0 "
                                   "--xla_llvm_disable_expensive_passes=true").strip()
    out = []
    for idx, case, seed in jobs:
        try:
            evs = run_case(cat, case, seed)
        except Exception as e:
            import traceback
            evs = [dict(op="machinery", msg=traceback.format_exc()[-1500:])]
        for e in evs:
            e["sc"] = idx
        out.extend(evs)
    return out


def _cases(cat, tier, seed):
    rng = random.Random(seed * 31 + 5)
    out = []
    for m in cat["models"]:
        nd = len(m["sites"])
        groups = _groups(m["sites"])
        sels = []
        for gf_ in itertools.product([0, 1], repeat=len(groups)):      # selections are over addresses
            if any(gf_):
                flags = [0] * nd
                for on, (_, idx) in zip(gf_, groups):
                    for j in idx:
                        flags[j] = on
                sels.append(tuple(flags))
        if tier == "quick" and len(sels) > 3:          # seeded subset, always including "everything selected"
            rest = [f for f in sels if not all(f)]
            rng.shuffle(rest)
            sels = [tuple([1] * nd)] + rest[:2]
        if tier == "quick" and len(groups) < nd:       # array-valued choice: the vector alone and everything
            sels = [f for f in sels if f[groups[0][1][0]]][:2]
        for n, flags in enumerate(sels):
            es = (1, 2) if tier != "quick" else ((1, 2)[(n + seed) % 2],)
            for e in es:
                out.append(dict(model=m["name"], sel=list(flags), e=e, nstart=4 if tier == "quick" else 16))
        if m["disc"]:
            # a selection that also names the discrete address: optional behaviour, logged as rejected if it raises
            out.append(dict(model=m["name"], sel=[1] + [0] * (nd - 1), e=2, nstart=2, with_disc=True))
    return out


def run(prop_id, tier, seed, replay=None):
    import time
    rep = vlib.Report(prop_id, tier, seed)
    wd = vlib.workdir(prop_id)
    rep.rule = ("one evaluation = one (program, selection, eps, start state, key): positions and alphas of "
                "HMC(L=1..4) with that key; non-trivial = distinct (program, selection, eps, start) whose trajectory "
                "moves by more than 2^-6 between L=1 and L=2")
    phases = {}
    t0 = [time.time()]

    def mark(name):
        phases[name] = round(time.time() - t0[0], 1)
        t0[0] = time.time()

    box = {}
    thread = None
    if replay:
        with open(replay) as f:
            rp = json.load(f)
        cat = rp["detail"]["catalogue"]
        jobs = [(0, rp["detail"]["case"], rp["detail"]["case_seed"])]
        events = _work((cat, jobs))
    else:
        cfgB = os.path.join(wd, "Gen.cfg")
        with open(cfgB, "w") as f:
            f.write("CONSTANTS Emit = TRUE\n GridMax = 0\nSPECIFICATION Spec\nINVARIANT EmitCase\nCHECK_DEADLOCK FALSE\n")
        resB = vlib.run_tlc("HMC", cfgB, wd, tag="roleB", workers=2, timeout=600, jvm=["-Xmx2g", "-Xss64m"])
        rep.add_tlc(resB)
        cats = list(resB.payloads("CATALOG"))
        if len(cats) != 1:
            raise vlib.MachineryError("catalogue not printed exactly once")
        cat = cats[0]
        mark("roleB_tlc")
        cfgA = os.path.join(wd, "MC.cfg")
        with open(cfgA, "w") as f:
            f.write(f"CONSTANTS Emit = FALSE\n GridMax = {1 if tier == 'quick' else 2}\nSPECIFICATION Spec\n"
                    "INVARIANT Reversible\nINVARIANT AlphaAntisymmetric\nINVARIANT OnlySelectedMove\n"
                    "INVARIANT EnergyBounded\nCHECK_DEADLOCK FALSE\n")

        def roleA():
            try:
                box["res"] = vlib.run_tlc("HMC", cfgA, wd, tag="roleA", workers=4, timeout=2400, jvm=["-Xmx4g", "-Xss64m"])
            except Exception as e:
                box["err"] = e
        thread = threading.Thread(target=roleA)
        thread.start()
        cases = _cases(cat, tier, seed)
        jobs = [(n, c, (seed * 1000003 + n * 977 + 11) % (2 ** 31)) for n, c in enumerate(cases)]
        nproc = min(10, len(jobs))
        with vlib.pinned_pool(nproc) as pool:
            results = pool.map(_work, [(cat, jobs[k::nproc]) for k in range(nproc)], chunksize=1)
        events = sorted((e for r in results for e in r), key=lambda e: e["sc"])
        mark("replay")
    mach = [e for e in events if e.get("op") == "machinery"]
    if mach:
        raise vlib.MachineryError("driver failure: " + mach[0]["msg"])
    for n, e in enumerate(events):
        e["id"] = n
    # a selection naming a discrete address is optional behaviour: raising = rejected, not a violation
    rejected = [e for e in events if e["with_disc"] and e["status"] != "ok"]
    judged = [e for e in events if not (e["with_disc"] and e["status"] != "ok")]
    trace = os.path.join(wd, "trace.ndjson")
    with open(trace, "w") as f:
        for e in judged:
            f.write(json.dumps({k: v for k, v in e.items() if k != "msg"}) + "\n")
    verdicts = []
    if judged:
        cfgT = os.path.join(wd, "Trace.cfg")
        with open(cfgT, "w") as f:
            f.write(f"CONSTANTS Emit = FALSE\n GridMax = 0\n TOLQ = {TOLQ}\n TOLA = {TOLA}\n HBI = {HBI}\n"
                    "SPECIFICATION TSpec\nCHECK_DEADLOCK FALSE\n")
        resT = vlib.run_tlc("HMCTrace", cfgT, wd, tag="trace", workers=1, timeout=2400,
                            env={"TRACE_FILE": trace}, jvm=["-Xmx4g", "-Xss64m"])
        rep.add_tlc(resT)
        done = list(resT.payloads("DONE"))
        if len(done) != 1 or done[0]["checked"] != len(judged):
            raise vlib.MachineryError(f"trace validation incomplete: {done} vs {len(judged)} events")
        verdicts = list(resT.payloads("VERDICT"))
        mark("validate_tlc")
    if thread is not None:
        thread.join()
        if "err" in box:
            raise box["err"]
        rep.add_tlc(box["res"])
        rep.extra["roleA"] = {"invariants": ["Reversible", "AlphaAntisymmetric", "OnlySelectedMove", "EnergyBounded"],
                              "states": box["res"].distinct, "wall_s": round(box["res"].wall, 1)}
        mark("roleA_wait")
    rep.extra["phases_s"] = phases
    by_id = {e["id"]: e for e in events}
    scen = {j[0]: j for j in jobs}
    for v in verdicts:
        ev = by_id[v["ev"]]
        j = scen[ev["sc"]]
        for fl in v["fails"]:
            sig = {"clause": fl["clause"], "diag": fl["diag"], "model": ev["model"],
                   "sel": "".join(map(str, ev["sel"])), "e": ev["e"]}
            rep.violation(sig, {"event": ev, "catalogue": cat, "case": j[1], "case_seed": j[2]})
    rep.evaluations = len(events)
    rep.traces = len(judged)
    for e in judged:
        if e["op"] == "hmcind":
            rep.nontrivial.add(("ind", e["model"], tuple(e["sel"]), e["e"]))
        elif e["status"] == "ok" and any(abs(a - b) > U16 // 64 for a, b in zip(e["qs"][0], e["qs"][1])):
            rep.nontrivial.add((e["model"], tuple(e["sel"]), e["e"], tuple(e["q0"])))
    for e in judged[:: max(1, len(judged) // 4)]:
        rep.sample({k: v for k, v in e.items() if k != "msg"})
    rep.extra["rejected_selection_with_discrete_address"] = len(rejected)
    if rejected:
        rep.extra["rejected_status"] = rejected[0]["status"]
    rep.extra["tolerance"] = f"positions +-{TOLQ}/65536, 2*alpha +-{TOLA}/65536"
    rep.assumptions = ["HMC(L=k) for k=1..4 with the same key share the initial momentum (prefixes of one trajectory)",
                       "p0 is inferred from q1; the first step is therefore only checked through alpha_1",
                       "float32 implementation vs truncating fixed point: differences far below the tolerance"]
    return rep.finish()
