"""C20 — staging helpers: replay the TLC-enumerated input grid of FlagOp / tree_choose / multi_switch on the
real functions (eager, and under jit where an input can be traced) and compare with the TLC-computed result."""

from __future__ import annotations

import json
import multiprocessing as mp
import os

from . import vlib

PROPS = {
    "C20": dict(
        spec="Staging",
        category="model_checking", design_ref="§5 C20",
        technique="TLA+ spec (Staging.tla) of FlagOp, tree_choose and multi_switch on a finite input grid, its laws "
                  "model-checked by TLC; every grid point replayed on the real helpers (eager and jit) and compared "
                  "with the TLC-computed result",
        text="Exhaustive over the grid: FlagOp.and_/or_/xor_/not_ on all pairs of {Python bool, scalar array, length-2 "
             "vector} flags; where on all flags x {python scalar, scalar array, vector} x {int32,float32}; cond on all "
             "scalar flags x 0..2 operands; tree_choose for idx in -4..6 (int and array, and index vectors), 1..3 "
             "choices, every dtype assignment over {bool,int32,float32}, python-scalar and array leaves, tuple and "
             "dict pytrees; multi_switch for idx in -2..4 (int and array), every sequence of 1..3 branches over four "
             "branch kinds with different output structures. Value, dtype and shape compared with Staging.tla.",
        note="Trusted: TLC, the case builder, numpy conversion of results. Branch functions only rearrange their arguments.",
    ),
}

FAMILIES = ("flag", "where", "cond", "choose", "choosev", "switch")
ROLE_A = ("FlagLaws", "WhereLaws", "ChooseLaws", "SwitchLaws")


# ----------------------------------------------------------------------------
# building inputs from the abstract case, observing results
# ----------------------------------------------------------------------------

def mk_flag(f, traced_ok=True):
    import jax.numpy as jnp
    if f["k"] == "py":
        return bool(f["b"][0])
    if f["k"] == "arr":
        return jnp.array(bool(f["b"][0]), dtype=bool)
    return jnp.array([bool(x) for x in f["b"]], dtype=bool)


def h2py(h, dt):
    """halves -> Python value of dtype dt (bool: 0/2, int k: 2k, float k+1/2: 2k+1)."""
    if dt == "bool":
        return h == 2
    if dt == "int32":
        assert h % 2 == 0
        return h // 2
    return h / 2.0


def mk_leaf(dt, hs, form="arr"):
    """hs: list of halves (length 1: scalar, 2: vector)."""
    import jax.numpy as jnp
    vals = [h2py(h, dt) for h in hs]
    if form == "py":
        assert len(vals) == 1
        return vals[0]
    np_dt = {"bool": jnp.bool_, "int32": jnp.int32, "float32": jnp.float32}[dt]
    return jnp.array(vals[0] if len(vals) == 1 else vals, dtype=np_dt)


def obs_leaf(x):
    """(dtype name, list of halves, shape)"""
    import numpy as np
    import jax.numpy as jnp
    a = np.asarray(jnp.asarray(x))
    return str(a.dtype), [int(round(float(v) * 2)) for v in a.reshape(-1)], list(a.shape)


def obs_bools(x):
    import numpy as np
    a = np.asarray(x)
    return [bool(v) for v in a.reshape(-1)], list(a.shape)


BRANCHES = {
    "A": lambda x: x,
    "B": lambda x, y: {"r": x, "e": [x, y]},
    "C": lambda v: (v,),
    "D": lambda b, x: (x, b),
}
BRANCH_OBS = {
    "A": lambda o: [o],
    "B": lambda o: [o["r"], o["e"][0], o["e"][1]],
    "C": lambda o: [o[0]],
    "D": lambda o: [o[0], o[1]],
}


def build_tree(shape, leaves):
    if shape == "leaf":
        return leaves[0]
    if shape == "pair":
        return (leaves[0], leaves[1])
    if shape == "nest":
        return {"a": leaves[0], "b": (leaves[1], leaves[2])}
    raise ValueError(shape)


def tree_obs(shape, r):
    if shape == "leaf":
        return [r]
    if shape == "pair":
        return [r[0], r[1]]
    return [r["a"], r["b"][0], r["b"][1]]


def struct_key(c):
    fam = c["fam"]
    if fam == "flag":
        return "flag/%s/%s/%s" % (c["op"], c["x"]["k"], c["y"]["k"])
    if fam == "where":
        return "where/%s/%s/%s" % (c["f"]["k"], c["vf"], c["dt"])
    if fam == "cond":
        return "cond/%s/%d" % (c["f"]["k"], len(c["args"]))
    if fam == "choose":
        return "choose/%s/%s/%s/%s" % (c["ik"], c["form"], c["shape"], json.dumps([[l["dt"] for l in v] for v in c["vs"]]))
    if fam == "choosev":
        return "choosev/%d" % len(c["vs"])
    return "switch/%s/%s" % (c["ik"], "".join(c["kds"]))


# ----------------------------------------------------------------------------
# one case -> list of failures
# ----------------------------------------------------------------------------

def run_case(c, jcache, stats):
    import jax
    import jax.numpy as jnp
    from genjax._src.core.compiler.staging import FlagOp, multi_switch, tree_choose
    fam = c["fam"]
    fails = []
    key = struct_key(c)

    def bad(clause, mode, what, got):
        fails.append({"clause": clause, "mode": mode, "what": what, "got": got})

    def guarded(mode, clause, thunk, check):
        stats["evals"] += 1
        try:
            r = thunk()
        except Exception as e:
            bad(clause, mode, "raised:" + type(e).__name__, str(e)[:200])
            return
        check(mode, r)

    def jitted(tag, make):
        k = key + "/" + tag
        if k not in jcache:
            jcache[k] = jax.jit(make())
        return jcache[k]

    if fam == "flag":
        op = {"and": FlagOp.and_, "or": FlagOp.or_, "xor": FlagOp.xor_, "not": FlagOp.not_}[c["op"]]
        x, y = mk_flag(c["x"]), mk_flag(c["y"])
        unary = c["op"] == "not"

        def check(mode, r):
            got, shape = obs_bools(r)
            if got != c["exp"] or shape != ([] if len(c["exp"]) == 1 else [2]):
                bad("C20.flag", mode, "value", [got, shape])
        guarded("eager", "C20.flag", (lambda: op(x)) if unary else (lambda: op(x, y)), check)
        xt, yt = c["x"]["k"] != "py", c["y"]["k"] != "py"
        if unary and xt:
            guarded("jit", "C20.flag", lambda: jitted("", lambda: (lambda a: op(a)))(x), check)
        elif not unary and xt and yt:
            guarded("jit", "C20.flag", lambda: jitted("", lambda: (lambda a, b: op(a, b)))(x, y), check)
        elif not unary and xt:
            guarded("jit", "C20.flag", lambda: jitted(str(y), lambda: (lambda a: op(a, y)))(x), check)
        elif not unary and yt:
            guarded("jit", "C20.flag", lambda: jitted(str(x), lambda: (lambda b: op(x, b)))(y), check)

    elif fam == "where":
        f = mk_flag(c["f"])
        form = "py" if c["vf"] == "py" else "arr"
        tf, ff = mk_leaf(c["dt"], c["tf"], form), mk_leaf(c["dt"], c["ff"], form)

        def check(mode, r):
            dt, got, shape = obs_leaf(r)
            if got != c["exp"] or shape != ([] if len(c["exp"]) == 1 else [2]):
                bad("C20.where", mode, "value", [got, shape])
        guarded("eager", "C20.where", lambda: FlagOp.where(f, tf, ff), check)
        if c["f"]["k"] != "py":
            if form == "py":
                guarded("jit", "C20.where", lambda: jitted("", lambda: (lambda p: FlagOp.where(p, tf, ff)))(f), check)
            else:
                guarded("jit", "C20.where", lambda: jitted("", lambda: (lambda p, a, b: FlagOp.where(p, a, b)))(f, tf, ff), check)

    elif fam == "cond":
        f = mk_flag(c["f"])
        args = tuple(mk_leaf("int32", [h]) for h in c["args"])

        def branch(tag):
            return lambda *a: (jnp.asarray(tag // 2, dtype=jnp.int32),) + tuple(a)
        tfn, ffn = branch(c["tagT"]), branch(c["tagF"])

        def check(mode, r):
            got = [obs_leaf(x)[1][0] for x in r]
            if got != c["exp"]:
                bad("C20.cond", mode, "value", got)
        guarded("eager", "C20.cond", lambda: FlagOp.cond(f, tfn, ffn, *args), check)
        if c["f"]["k"] != "py":
            guarded("jit", "C20.cond", lambda: jitted("", lambda: (lambda p, *a: FlagOp.cond(p, tfn, ffn, *a)))(f, *args), check)

    elif fam == "choose":
        vs = [build_tree(c["shape"], [mk_leaf(l["dt"], [l["v"]], c["form"]) for l in v]) for v in c["vs"]]
        idx = c["idx"] if c["ik"] == "int" else jnp.array(c["idx"], dtype=jnp.int32)

        def check(mode, r):
            try:
                leaves = tree_obs(c["shape"], r)
            except Exception as e:
                bad("C20.choose", mode, "structure", repr(e)[:100])
                return
            for l, (lf, want) in enumerate(zip(leaves, c["exp"])):
                dt, got, shape = obs_leaf(lf)
                if got != [want["v"]] or shape != []:
                    bad("C20.choose", mode, "value", [l, got, shape])
                elif dt != want["dt"]:
                    bad("C20.choose.dtype", mode, "dtype", [l, dt])
        guarded("eager", "C20.choose", lambda: tree_choose(idx, vs), check)
        if c["ik"] == "arr":
            if c["form"] == "py":
                guarded("jit", "C20.choose", lambda: jitted("", lambda: (lambda i: tree_choose(i, vs)))(idx), check)
            else:
                guarded("jit", "C20.choose", lambda: jitted("", lambda: (lambda i, v: tree_choose(i, v)))(idx, vs), check)

    elif fam == "choosev":
        vs = [mk_leaf("int32", v) for v in c["vs"]]
        idx = jnp.array(c["idx"], dtype=jnp.int32)

        def check(mode, r):
            dt, got, shape = obs_leaf(r)
            if got != c["exp"] or shape != [2]:
                bad("C20.choose", mode, "value", [got, shape])
        guarded("eager", "C20.choose", lambda: tree_choose(idx, vs), check)
        guarded("jit", "C20.choose", lambda: jitted("", lambda: (lambda i, v: tree_choose(i, v)))(idx, vs), check)

    elif fam == "switch":
        brs = [BRANCHES[k] for k in c["kds"]]
        args = [tuple(mk_leaf(a["dt"], a["v"]) for a in aa) for aa in c["args"]]
        idx = c["idx"] if c["ik"] == "int" else jnp.array(c["idx"], dtype=jnp.int32)

        def check(mode, r):
            if not isinstance(r, (list, tuple)) or len(r) != len(brs):
                bad("C20.switch", mode, "structure", str(type(r)))
                return
            for j, (o, kd, want) in enumerate(zip(r, c["kds"], c["exp"])):
                try:
                    leaves = BRANCH_OBS[kd](o)
                except Exception as e:
                    bad("C20.switch", mode, "structure", [j, repr(e)[:100]])
                    continue
                for l, (lf, w) in enumerate(zip(leaves, want)):
                    dt, got, shape = obs_leaf(lf)
                    if got != w["v"] or shape != ([] if len(w["v"]) == 1 else [2]):
                        bad("C20.switch", mode, "value", [j, l, got, shape])
                    elif dt != w["dt"]:
                        bad("C20.switch", mode, "dtype", [j, l, dt])
        guarded("eager", "C20.switch", lambda: multi_switch(idx, brs, args), check)
        if c["ik"] == "arr":
            guarded("jit", "C20.switch", lambda: jitted("", lambda: (lambda i, a: multi_switch(i, brs, a)))(idx, args), check)
    else:
        raise ValueError(fam)
    return fails


def _work(cases):
    jcache = {}
    stats = {"evals": 0}
    out = []
    for c in cases:
        f = run_case(c, jcache, stats)
        if f:
            out.append((c, f))
    return out, stats


def label(c):
    fam = c["fam"]
    if fam == "flag":
        return "%s(%s%s,%s%s)" % (c["op"], c["x"]["k"], c["x"]["b"], c["y"]["k"], c["y"]["b"])
    if fam == "where":
        return "where(%s%s,%s,%s)" % (c["f"]["k"], c["f"]["b"], c["vf"], c["dt"])
    if fam == "cond":
        return "cond(%s%s,%d args)" % (c["f"]["k"], c["f"]["b"], len(c["args"]))
    if fam == "choose":
        return "tree_choose(%s %d, %s %s %s)" % (c["ik"], c["idx"], c["form"], c["shape"],
                                                  "/".join(",".join(l["dt"][0] for l in v) for v in c["vs"]))
    if fam == "choosev":
        return "tree_choose(%s, %d vectors)" % (c["idx"], len(c["vs"]))
    return "multi_switch(%s %d, %s)" % (c["ik"], c["idx"], "".join(c["kds"]))


def _cfg(path, emit, invs):
    with open(path, "w") as f:
        f.write("CONSTANTS Emit = %s\n Families = {%s}\nSPECIFICATION Spec\n" % (emit, ",".join('"%s"' % x for x in FAMILIES)))
        for i in invs:
            f.write("INVARIANT %s\n" % i)
        f.write("CHECK_DEADLOCK FALSE\n")
    return path


def run(prop_id, tier, seed, replay=None):
    rep = vlib.Report(prop_id, tier, seed)
    wd = vlib.workdir(prop_id)
    rep.rule = ("every point of the input grid of spec/Staging.tla (one TLC state per case, expected result computed by TLC) "
                "replayed on FlagOp.and_/or_/xor_/not_/where/cond, tree_choose and multi_switch, eagerly and under jax.jit "
                "whenever a flag or index is an array; value (in halves), dtype and shape compared. evaluations = case x mode. "
                "non-trivial = case with >=2 choices/branches, or a flag/where/cond case")
    if replay:
        with open(replay) as f:
            cases = [json.load(f)["detail"]["case"]]
    else:
        a = vlib.run_tlc("Staging", _cfg(os.path.join(wd, "MC.cfg"), "FALSE", ROLE_A), wd, tag="roleA", workers=4)
        rep.add_tlc(a)
        b = vlib.run_tlc("Staging", _cfg(os.path.join(wd, "Gen.cfg"), "TRUE", ("EmitCase",)), wd, tag="roleB", workers=4)
        rep.add_tlc(b)
        cases = list(b.payloads())
        if len(cases) < 3000 or len(cases) > b.distinct:
            raise vlib.MachineryError("TLC printed %d cases for %d states" % (len(cases), b.distinct))
        rep.exhaustive = True
        rep.extra["exhaustive_scope"] = "the whole input grid defined in Staging.tla (identical in both tiers)"
        rep.extra["roleA_states"] = a.distinct
        rep.extra["roleA_invariants"] = list(ROLE_A)
    # seed: only permutes the order of evaluation (the grid is exhaustive)
    cases.sort(key=lambda c: (struct_key(c), json.dumps(c, sort_keys=True)))
    nchunk = vlib.NCPU * 3
    # keep cases of one structure together (they share a jitted function), balance by rotating the start with the seed
    keys = sorted({struct_key(c) for c in cases})
    rot = seed % max(1, len(keys))
    keys = keys[rot:] + keys[:rot]
    bucket = {k: i % nchunk for i, k in enumerate(keys)}
    chunks = [[] for _ in range(nchunk)]
    for c in cases:
        chunks[bucket[struct_key(c)]].append(c)
    chunks = [c for c in chunks if c]
    os.environ.setdefault("XLA_FLAGS", "--xla_cpu_multi_thread_eigen=false intra_op_parallelism_threads=1")
    with vlib.pinned_pool(min(vlib.NCPU, len(chunks))) as pool:
        results = pool.map(_work, chunks, chunksize=1)
    fam_count = {}
    for c in cases:
        fam_count[c["fam"]] = fam_count.get(c["fam"], 0) + 1
        if c["fam"] in ("flag", "where", "cond", "choosev") or (c["fam"] == "choose" and len(c["vs"]) >= 2) or \
                (c["fam"] == "switch" and len(c["kds"]) >= 2):
            rep.nontrivial.add(label(c) + json.dumps(c.get("exp"))[:40])
    for fam in FAMILIES:
        ex = [c for c in cases if c["fam"] == fam]
        if ex:
            c = ex[(seed + 7) % len(ex)]
            rep.sample({"case": label(c), "expected": c["exp"]}, limit=6)
    for out, st in results:
        rep.evaluations += st["evals"]
        for c, fails in out:
            for f in fails[:3]:
                sig = {"clause": f["clause"], "mode": f["mode"], "what": f["what"], "fam": c["fam"], "case": label(c)}
                rep.violation(sig, {"case": c, "fail": f})
    rep.traces = len(cases)
    rep.extra["cases_by_family"] = fam_count
    rep.assumptions = [
        "numbers are compared in halves (value*2): bool 0/2, int k -> 2k, float k+1/2 -> 2k+1; all exactly representable",
        "FlagOp result kind (Python bool vs array) is not compared, only truth values and shape",
        "multi_switch branch functions only rearrange their arguments; placeholders are compared for value 0, dtype and shape",
    ]
    return rep.finish()
