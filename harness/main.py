"""Entry point: ./check <ID> [--tier quick|thorough] [--replay path]."""
import argparse
import importlib
import os
import sys
import traceback

from . import vlib

from .registry import PROPS

ENGINES = {pid: p["engine"] for pid, p in PROPS.items()}


def main():
    ap = argparse.ArgumentParser()
    ap.add_argument("prop")
    ap.add_argument("--tier", default=os.environ.get("VERIF_TIER", "quick"), choices=["quick", "thorough"])
    ap.add_argument("--replay", default=None)
    a = ap.parse_args()
    seed = int(os.environ.get("VERIF_SEED", "0") or 0)
    if a.prop not in ENGINES:
        print(f"unknown property {a.prop}", file=sys.stderr)
        sys.exit(2)
    try:
        mod = importlib.import_module("harness." + ENGINES[a.prop])
        rc = mod.run(a.prop, a.tier, seed, replay=a.replay)
    except vlib.MachineryError as e:
        print("MACHINERY FAILURE:", e, file=sys.stderr)
        sys.exit(2)
    except Exception:
        traceback.print_exc()
        print("MACHINERY FAILURE (unexpected exception)", file=sys.stderr)
        sys.exit(2)
    sys.exit(rc)


if __name__ == "__main__":
    main()
