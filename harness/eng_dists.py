"""C24 — distribution wrappers agree with their TFP densities.

Role A: TLC model-checks spec/DistGFI.tla (one distribution as a state machine over an abstract
log-density table) — invariants in every reachable state, -coverage shows every action fires.
Role D: for every exported wrapper x the hand-written valid-parameter table (harness/dists_table.py)
the driver runs histories of GFI operations through the real genjax API (keys derived from the seed),
logs fixed-point ints of every score / weight, and supplies, per event, the oracle log densities
LP(args, value) = sum tfd.<Dist>(params).log_prob(value) computed DIRECTLY with
tensorflow_probability.substrates.jax.  TLC (spec/DistGFITrace.tla) validates every event against the
corresponding DistGFI action with the logged nondeterminism and prints one verdict per failing clause.
"""

from __future__ import annotations

import json
import multiprocessing as mp
import os
import time

from . import vlib
from .dists_table import TABLE

PROPS = {
    "C24": dict(
        spec="DistGFI",
        category="model_checking", design_ref="§5 C24",
        technique="TLA+ spec of one distribution as a GFI state machine over an abstract log-density table (DistGFI.tla), "
                  "model-checked by TLC; events logged from the real wrappers are validated by TLC (DistGFITrace.tla) "
                  "against the spec actions with log densities supplied directly by TensorFlow Probability",
        text="Every exported TFP wrapper (46) x 4 hand-written valid parameter points (2 scalar, 2 batched) plus keyword-only "
             "parameterisations (probs=, log_rate=, log_scale=) and a sample_shape=(2,) point: histories simulate / assess / "
             "generate(None|value|Mask T|Mask F) / update(None|value|Mask T|Mask F, changed and unchanged args) / Trace.update / "
             "importance / regenerate / project through the public GFI, the density-only operations and simulate also through the "
             "keyword-argument form ((), {kw}) with the same key. TLC checks score = LP(args,value), generate weight = LP if "
             "effectively constrained else 0 and value = constraint, update weight = LP(new)-LP(old), support / dtype / shape of "
             "every fresh sample, positional == keyword. Tolerance 8/256 nat (+ 2^-14 relative). Quick tier: generate-with-Mask "
             "events on 28 representative wrappers and jax_disable_jit elsewhere; thorough tier: everything with compiled control flow.",
        note="Trusted: TFP log_prob / validate_args support assertions as the oracle the property names; TLC; the "
             "hand-written table (wrapper name -> documented tfd class, parameter order, dtype). Regenerate weight, project and "
             "the discard are validated as auxiliary observations (C07/C10/C05 own them), not as C24 clauses.",
    ),
}

SCALE = 256
NINF = -(2 ** 30)


# ----------------------------------------------------------------------------
# worker (imports jax)
# ----------------------------------------------------------------------------

def _fx(x):
    import math
    x = float(x)
    if math.isnan(x):
        return None
    if x == float("-inf"):
        return None
    if abs(x) * SCALE >= 2 ** 30:
        return None
    return int(round(x * SCALE))


class _Hist:
    """One history for one wrapper: runs ops on the real distribution, logs abstract events."""

    def __init__(self, name, row, hid, key, tag):
        import jax.numpy as jnp
        import tensorflow_probability.substrates.jax as tfp
        import genjax
        self.jnp = jnp
        self.tfd = tfp.distributions
        self.name = name
        self.row = row
        self.hid = hid
        self.tag = tag
        self.dist = getattr(genjax, name)
        self.key = key
        self.nkey = 0
        self.vals = {}      # bytes key -> id
        self.valobj = {}    # id -> array
        self.events = []
        self.lpcache = {}

    # -- helpers -------------------------------------------------------------
    def k(self):
        import jax
        self.nkey += 1
        return jax.random.fold_in(self.key, self.nkey)

    def vid(self, v):
        import numpy as np
        a = np.asarray(v)
        kk = (str(a.dtype), a.shape, a.tobytes())
        if kk not in self.vals:
            self.vals[kk] = len(self.vals) + 1
            self.valobj[self.vals[kk]] = v
        return self.vals[kk]

    def conv(self, x):
        return self.jnp.asarray(x, dtype=self.jnp.float32)

    def oracle_dist(self, spec, validate=False):
        """spec = ("pos", args tuple) | ("kw", dict) -> a TFP distribution built directly."""
        ctor = getattr(self.tfd, self.row["tfd"])
        kind, p = spec[0], spec[1]
        fix = self.row.get("fix")
        if kind == "pos":
            if fix == "logits":
                kw = {"logits": self.conv(p[0])}
            elif fix == "flip":
                kw = {"probs": self.conv(p[0]), "dtype": self.jnp.bool_}
            else:
                kw = {n: self.conv(a) for n, a in zip(self.row["kw"], p)}
        else:
            kw = {n: self.conv(a) for n, a in p.items()}
        return ctor(validate_args=validate, **kw)

    def lp(self, ai, specs, v_id):
        """Oracle: summed TFP log_prob of value id under argument point ai; fixed point or None."""
        if v_id == 0:
            return 0
        kk = (ai, v_id)
        if kk not in self.lpcache:
            d = self.oracle_dist(specs[ai])
            self.lpcache[kk] = _fx(self.jnp.sum(d.log_prob(self.valobj[v_id])))
        return self.lpcache[kk]

    def support(self, ai, specs, v, sample_shape=()):
        import math
        d = self.oracle_dist(specs[ai], validate=True)
        try:
            x = float(self.jnp.sum(d.log_prob(v)))
            ok = math.isfinite(x)
        except ValueError:          # TFP's support assertion failed
            ok = False
        except Exception:           # TFP's assertion code cannot handle the dtype (bool): finite density instead
            self.fallback = getattr(self, "fallback", 0) + 1
            try:
                ok = math.isfinite(float(self.jnp.sum(self.oracle_dist(specs[ai]).log_prob(v))))
            except Exception:
                ok = False
        shp = list(sample_shape) + list(d.batch_shape) + list(d.event_shape)
        return ok, shp

    def gargs(self, spec, kwform=False, extra_kw=None):
        """genjax argument tuple for a point: positional, or the ((), {kw}) keyword form."""
        kind, p = spec[0], spec[1]
        if kind == "pos" and not kwform:
            a = tuple(self.conv(x) for x in p)
            if extra_kw:
                return (a, dict(extra_kw))
            return a
        if kind == "pos":
            kw = {n: self.conv(x) for n, x in zip(self.row["kw"], p)}
        else:
            kw = {n: self.conv(x) for n, x in p.items()}
        if extra_kw:
            kw.update(extra_kw)
        return ((), kw)


def _run_history(name, row, hid, key, tag, specs, kwtwin, sample_shape=None, ops="full"):
    """specs = {1: spec_a, 2: spec_b}; returns list of event dicts.

    kwtwin: also run every op through the keyword form with the same key and log the twin observation.
    """
    import contextlib
    import warnings
    import jax
    import jax.numpy as jnp
    from genjax import ChoiceMap, Diff, Regenerate, Selection, Update, Mask
    H = _Hist(name, row, hid, key, tag)
    dist = H.dist
    extra = None
    ss = ()
    if sample_shape is not None:
        from genjax import Const
        extra = {"sample_shape": Const(tuple(sample_shape))}
        ss = tuple(sample_shape)
    forms = [False] + ([True] if kwtwin else [])

    def args_of(ai, kwform):
        return H.gargs(specs[ai], kwform=kwform, extra_kw=extra)

    def chm_of(kind, vc):
        if kind == "none":
            return ChoiceMap.empty()
        if kind == "value":
            return ChoiceMap.choice(vc)
        return ChoiceMap.choice(vc).mask(jnp.array(kind == "maskT"))

    pools = {}

    def draw(ai):
        """A constraint value drawn directly from TFP (never through genjax); one TFP call per point."""
        if ai not in pools:
            d = H.oracle_dist(specs[ai])
            pools[ai] = [d.sample(seed=H.k(), sample_shape=(6,) + ss), 0]
        p = pools[ai]
        p[1] += 1
        return p[0][p[1] - 1]

    def disc_id(bwd):
        try:
            if isinstance(bwd, Update):
                bwd = bwd.constraint
            if not isinstance(bwd, ChoiceMap):   # Trace.update returns the discard choice map itself
                return -1
            x = bwd.get_value()
            if x is None:
                return 0
            if isinstance(x, Mask):
                f = x.primal_flag() if hasattr(x, "primal_flag") else x.flag
                return H.vid(x.value) if bool(f) else 0
            return H.vid(x)
        except Exception:
            return -1

    traces = {False: None, True: None}     # current trace per form
    cur = dict(a=0, v=0, s=0)

    def emit(op, cons, sel, a1, vc_id, fresh, results, status, via=""):
        """results: list (per form) of dict(v1, s1, w, disc, dt, shp)"""
        prim = results[0] if results else None
        e = dict(h=hid, i=len(H.events) + 1, dist=name, tag=tag, op=op, cons=cons, sel=int(sel),
                 a0=cur["a"], a1=a1, v0=cur["v"], vc=vc_id, s0=cur["s"], status=status,
                 raised=status.startswith("raised:"),
                 v1=0, s1=0, w=0, disc=0, ar=a1, via=via, fresh=bool(fresh), lp1=0, lp0=0, lpc=0, fin=True, big=0,
                 sup=True, dt=row["dtype"], dtdoc=row["dtype"], shp=[], shpdoc=[], twins=[])
        if prim is not None:
            e.update(v1=prim["v1"], s1=prim["s1"], w=prim["w"], disc=prim["disc"], ar=prim.get("ar", a1))
            lps = [H.lp(a1, specs, prim["v1"]), H.lp(cur["a"], specs, cur["v"]) if cur["a"] else 0,
                   H.lp(a1, specs, vc_id)]
            e["fin"] = all(x is not None for x in lps) and all(x is not None for x in (prim["s1"], prim["w"]))
            if not e["fin"]:
                e["nonfinite_oracle"] = [x is None for x in lps]
            e["lp1"], e["lp0"], e["lpc"] = [0 if x is None else x for x in lps]
            e["s1"] = 0 if prim["s1"] is None else prim["s1"]
            e["w"] = 0 if prim["w"] is None else prim["w"]
            e["big"] = max(abs(e["lp1"]), abs(e["lp0"]), abs(e["lpc"]))
            if fresh:
                ok, shp = H.support(a1, specs, H.valobj[prim["v1"]], ss)
                e["sup"] = bool(ok)
                e["dt"] = prim["dt"]
                e["shp"] = prim["shp"]
                e["shpdoc"] = shp
            e["twins"] = [[r["v1"], 0 if r["s1"] is None else r["s1"], 0 if r["w"] is None else r["w"]]
                          for r in results[1:]]
        H.events.append(e)
        if prim is not None and op in ("simulate", "generate", "update", "regenerate"):
            cur.update(a=a1, v=prim["v1"], s=e["s1"])

    def args_ix(tr, form, prefer):
        """Which argument point the trace RECORDS (tr.get_args()): index, or 0 if none matches."""
        import numpy as np
        try:
            got = jax.tree_util.tree_leaves(tr.get_args())
            for ai in [prefer] + [i for i in specs if i != prefer]:
                want = jax.tree_util.tree_leaves(args_of(ai, form))
                if len(got) == len(want) and all(np.shape(g) == np.shape(x) and np.allclose(np.asarray(g), np.asarray(x))
                                                 for g, x in zip(got, want)):
                    return ai
        except Exception:
            pass
        return 0

    def obs(tr, w=None, bwd=None, form=False, a1=0):
        import numpy as np
        v = tr.get_retval()
        return dict(v1=H.vid(v), s1=_fx(tr.get_score()), w=0 if w is None else _fx(w),
                    disc=0 if bwd is None else disc_id(bwd), ar=args_ix(tr, form, a1),
                    dt=str(np.asarray(v).dtype), shp=list(np.asarray(v).shape))

    def closure_of(a):
        """dist(*args, **kwargs): the closure spelling, parameters bound in the closure."""
        if len(a) == 2 and isinstance(a[0], tuple) and isinstance(a[1], dict):
            return dist(*a[0], **a[1])
        return dist(*a)

    def step(op, cons="none", sel=0, a1=None, vc=None, changed=True, twin_ok=True):
        a1 = a1 if a1 is not None else cur["a"]
        vc_id = H.vid(vc) if vc is not None else 0
        key = H.k()
        results = []
        status = "ok"
        fresh = False
        starts = op in ("simulate", "generate", "importance")
        mutates = starts or op in ("update", "trupdate", "trupdate0", "clupdate", "regenerate")
        use = [False]
        if len(forms) > 1 and twin_ok and (starts or op == "assess" or traces[True] is not None):
            use.append(True)
        elif mutates:
            traces[True] = None          # the keyword-form chain is out of step until the next twinned start
        for form in use:
            args = args_of(a1, form)
            # generate with a Mask constraint relies on lax.cond to unify its branches (a python float weight in one
            # of them): always run it with compiled control flow, also when the worker runs with jax_disable_jit
            ctx = jax.disable_jit(False) if (op in ("generate", "importance") and cons in ("maskT", "maskF")) \
                else contextlib.nullcontext()
            try:
                with warnings.catch_warnings(), ctx:
                    warnings.simplefilter("ignore")
                    if op == "simulate":
                        tr = dist.simulate(key, args)
                        traces[form] = tr
                        results.append(obs(tr, form=form, a1=a1))
                        fresh = True
                    elif op == "assess":
                        v = H.valobj[cur["v"]]
                        s, r = dist.assess(ChoiceMap.choice(v), args)
                        results.append(dict(v1=H.vid(r), s1=_fx(s), w=0, disc=0, dt="", shp=[]))
                    elif op == "generate":
                        tr, w = dist.generate(key, chm_of(cons, vc), args)
                        traces[form] = tr
                        results.append(obs(tr, w, form=form, a1=a1))
                        fresh = cons in ("none", "maskF")
                    elif op == "importance":
                        tr, w = dist.importance(key, chm_of(cons, vc), args)
                        traces[form] = tr
                        results.append(obs(tr, w, form=form, a1=a1))
                        fresh = cons in ("none", "maskF")
                    elif op == "update":
                        ad = Diff.unknown_change(args) if changed else Diff.no_change(args)
                        tr, w, _rd, bwd = dist.edit(key, traces[form], Update(chm_of(cons, vc)), ad)
                        traces[form] = tr
                        results.append(obs(tr, w, bwd, form=form, a1=a1))
                    elif op == "trupdate":
                        ad = Diff.unknown_change(args) if changed else Diff.no_change(args)
                        tr, w, _rd, bwd = traces[form].update(key, chm_of(cons, vc), ad)
                        traces[form] = tr
                        results.append(obs(tr, w, bwd, form=form, a1=a1))
                    elif op == "trupdate0":      # Trace.update with DEFAULT argdiffs: no_change(trace.get_args())
                        tr, w, _rd, bwd = traces[form].update(key, chm_of(cons, vc))
                        traces[form] = tr
                        results.append(obs(tr, w, bwd, form=form, a1=a1))
                    elif op == "clupdate":       # closure spelling dist(params).update(key, trace, chm, ())
                        tr, w, _rd, bwd = closure_of(args).update(key, traces[form], chm_of(cons, vc), ())
                        traces[form] = tr
                        results.append(obs(tr, w, bwd, form=form, a1=a1))
                    elif op == "assess_tr":      # assess at the arguments the trace records
                        v = H.valobj[cur["v"]]
                        s, r = dist.assess(ChoiceMap.choice(v), traces[form].get_args())
                        results.append(dict(v1=H.vid(r), s1=_fx(s), w=0, disc=0, dt="", shp=[]))
                    elif op == "regenerate":
                        ad = Diff.unknown_change(args) if changed else Diff.no_change(args)
                        s = Selection.all() if sel else Selection.none()
                        tr, w, _rd, bwd = dist.edit(key, traces[form], Regenerate(s), ad)
                        traces[form] = tr
                        results.append(obs(tr, w, bwd, form=form, a1=a1))
                        fresh = bool(sel)
                    elif op == "project":
                        s = Selection.all() if sel else Selection.none()
                        w = dist.project(key, traces[form], s)
                        results.append(dict(v1=cur["v"], s1=cur["s"], w=_fx(w), disc=0, dt="", shp=[]))
            except (NotImplementedError,) as ex:
                status = ("rejected:" if op == "regenerate" else "raised:") + type(ex).__name__
                results = []
                break
            except Exception as ex:  # exceptions are data
                status = "raised:" + type(ex).__name__
                results = []
                H.last_error = repr(ex)[:300]
                break
        # closure forms dist(*args) / dist(**kwargs) (the syntax used inside @gen functions), same key
        if status == "ok" and True in use and extra is None and op in ("simulate", "assess") and specs[a1][0] == "pos":
            try:
                with warnings.catch_warnings():
                    warnings.simplefilter("ignore")
                    for clo in (dist(*args_of(a1, False)), dist(**args_of(a1, True)[1])):
                        if op == "simulate":
                            results.append(obs(clo.simulate(key, ())))
                        else:
                            s_, r_ = clo.assess(ChoiceMap.choice(H.valobj[cur["v"]]), ())
                            results.append(dict(v1=H.vid(r_), s1=_fx(s_), w=0, disc=0, dt="", shp=[]))
            except Exception as ex:
                status = "raised:" + type(ex).__name__
                results = []
                H.last_error = "closure form: " + repr(ex)[:280]
        lop = {"importance": "generate", "trupdate": "update", "trupdate0": "update", "clupdate": "update",
               "assess_tr": "assess"}.get(op, op)
        emit(lop, cons, sel, a1, vc_id, fresh, results, status, via=op)
        if status != "ok":
            H.events[-1]["error"] = getattr(H, "last_error", "")
        return status == "ok"

    # ---- the history -------------------------------------------------------
    # twin_ok=False on the operations that draw fresh randomness inside genjax; the keyword-form twin is run for
    # one sampling op (simulate) and for all density-only ops.  ops: "full" | "medium" | "short", "+mask" adds the
    # generate-with-Mask events (they need compiled control flow, see step()).
    kind = ops.split("+")[0]
    if not step("simulate", a1=1):
        return H.events
    step("assess")
    if kind == "full":
        step("project", sel=1)
        step("project", sel=0)
    step("update", "none", a1=2)                                       # value kept, args a -> b
    # follow-ups that READ the arguments back from the updated trace, and the closure spelling of update with bound
    # parameters that differ from the trace's
    step("assess_tr")                                                  # assess at tr.get_args(): must be LP(b, v)
    step("trupdate0", "value", vc=draw(1))                             # Trace.update, default argdiffs: stays under b
    step("clupdate", "none", a1=1)                                     # dist(a).update(key, tr_b, empty, ()): b -> a
    step("clupdate", "value", a1=2, vc=draw(1))                        # dist(b).update(key, tr_a, value, ()): a -> b
    # (now again: arguments b, a value drawn under a)
    if kind == "short":
        step("update", "value", a1=1, vc=draw(1))
        step("generate", "value", a1=1, vc=draw(1))
        step("generate", "none", a1=2, twin_ok=False)
        return H.events
    step("update", "value", a1=2, vc=draw(2), changed=False)           # overwrite, args unchanged
    step("update", "maskT", a1=1, vc=draw(1))                          # overwrite through a true mask, b -> a
    step("update", "maskF", a1=2, vc=draw(2))                          # false mask: value kept, a -> b
    if kind == "full":
        step("regenerate", sel=0, a1=1)                                # kept value was drawn under a: b -> a is safe
        step("regenerate", sel=1, a1=1, twin_ok=False, changed=False)
        step("regenerate", sel=0, a1=1, changed=False)
    step("generate", "value", a1=1, vc=draw(1))
    step("trupdate", "value", a1=2, vc=draw(1))                        # a-sample under b (supports are nested)
    step("generate", "none", a1=1, twin_ok=False)
    step("update", "none", a1=2)
    if ops.endswith("+mask"):
        step("importance", "maskT", a1=2, vc=draw(2), twin_ok=False)
        step("generate", "maskF", a1=1, vc=draw(1), twin_ok=False)
        step("update", "value", a1=2, vc=draw(2))
    return H.events


# quick tier: wrappers whose generate-with-Mask events are run (compiled lax.cond over sampler + density; the Mask
# logic is wrapper independent, the selection covers every dtype / event-shape class and all cheap samplers)
MASKGEN_QUICK = {"normal", "flip", "bernoulli", "categorical", "dirichlet", "mv_normal", "mv_normal_diag", "poisson", "zipf",
                 "gamma", "beta", "uniform", "half_normal", "log_normal", "laplace", "weibull", "geometric", "logit_normal",
                 "gumbel", "half_cauchy", "truncated_cauchy", "truncated_normal", "kumaraswamy", "exponential", "cauchy",
                 "moyal", "student_t", "multinomial"}
# wrappers whose density is a slow series (beta_quotient: ~100-iteration hypergeometric loop per log_prob)
COSTLY = {"beta_quotient"}


def _plan(name, tier):
    row = TABLE[name]
    pts = row["pts"]
    sc = {1: ("pos", pts[0]), 2: ("pos", pts[1])}
    ba = {1: ("pos", pts[2]), 2: ("pos", pts[3])}
    if tier == "quick" and name in COSTLY:
        return [("scalar", sc, False, None, "short")]
    # sample_shape chosen so that the value shapes coincide with the batched history (fewer distinct XLA signatures)
    import numpy as _np
    ss1 = (3,) if _np.ndim(pts[2][0]) == 1 and _np.ndim(pts[0][0]) == 0 else (2,)
    mask = "+mask" if (tier != "quick" or name in MASKGEN_QUICK) else ""
    plan = [("scalar", sc, True, None, "full" + mask),
            ("batched", ba, True, None, "medium" + ("+mask" if tier != "quick" else "")),
            ("sampleshape", sc, False, ss1, "short")]
    if tier == "thorough":
        plan.append(("batchedsampleshape", ba, False, (2, 2), "medium"))
    for j, kwp in enumerate(row.get("kwonly", [])):
        plan.append((f"kwonly{j}", {1: ("kw", kwp), 2: ("kw", kwp)}, False, None, "short" if tier == "quick" else "medium"))
    return plan


def _init_worker(disable_jit):
    # one XLA / Eigen thread per worker process: the pool already uses every core, extra threads only add contention
    os.environ.setdefault("XLA_FLAGS", "--xla_cpu_multi_thread_eigen=false intra_op_parallelism_threads=1")
    os.environ.setdefault("OMP_NUM_THREADS", "1")
    os.environ.setdefault("OPENBLAS_NUM_THREADS", "1")
    import jax
    # NB: do NOT enable jax's persistent compilation cache (jax_compilation_cache_dir) here: on this jax (0.5.2, CPU)
    # executables loaded from it returned wrong numbers for TFP's special-function code (measured: Skellam log_prob off
    # by > 1 nat with the cache, exact without).
    if disable_jit:
        # quick tier: control flow inside TFP's samplers (rejection loops) and genjax's lax.cond is executed
        # op by op instead of being compiled anew at every call (each such compile costs 0.3-2 s); the values
        # computed are the same.  The thorough tier runs with compiled control flow.
        jax.config.update("jax_disable_jit", True)


def _history_events(task):
    """One history of one wrapper.  task = (name, plan index, seed, tier, hid)."""
    name, n, seed, tier, hid = task
    t0 = time.time()
    import jax
    row = TABLE[name]
    base = jax.random.fold_in(jax.random.key(seed), sum(ord(c) * (i + 1) for i, c in enumerate(name)) % 100003)
    tag, specs, twin, ss, ops = _plan(name, tier)[n]
    err = None
    ev = []
    try:
        ev = _run_history(name, row, hid, jax.random.fold_in(base, n), tag, specs, twin, ss, ops)
    except Exception as ex:  # machinery (oracle / table) problem, not a verdict
        import traceback
        err = f"{name}/{tag}: {type(ex).__name__}: {str(ex)[:300]}\n{traceback.format_exc()[-800:]}"
    return dict(name=name, tag=tag, events=ev, wall=time.time() - t0, error=err)


# Static work split: one worker process per group.  In the quick tier (jax_disable_jit) almost all the time goes into
# XLA-compiling each primitive signature once per process, so wrappers that share their arithmetic are kept together;
# groups are balanced with measured per-wrapper costs.
GROUPS = [
    ["beta_quotient"], ["dirichlet_multinomial"], ["multinomial"], ["beta_binomial", "binomial"],
    ["von_mises_fisher", "power_spherical"], ["dirichlet", "beta", "kumaraswamy"],
    ["non_central_chi2", "chi", "chi2"], ["skellam", "poisson", "zipf"],
    ["mv_normal", "mv_normal_diag", "lambert_w_normal"], ["negative_binomial", "bernoulli", "geometric", "flip"],
    ["half_student_t", "student_t", "half_cauchy", "half_normal", "cauchy"],
    ["gamma", "exp_gamma", "inverse_gamma", "exp_inverse_gamma", "double_sided_maxwell"],
    ["moyal", "uniform", "truncated_normal", "truncated_cauchy", "von_mises"],
    ["exponential", "weibull", "gumbel", "logit_normal", "normal", "laplace", "log_normal"], ["categorical"],
]


def _group_events(task):
    """All histories of the wrappers of one group, in one process.  task = (names, seed, tier)."""
    names, seed, tier = task
    out = []
    order = sorted(TABLE)
    for name in names:
        for n in range(len(_plan(name, tier))):
            out.append(_history_events((name, n, seed, tier, 100 * (order.index(name) + 1) + n)))
            if out[-1]["error"]:
                return out
    return out


def _wrapper_events(task):
    """All histories of one wrapper (used by the probes / replay).  task = (name, seed, tier, hid0)."""
    name, seed, tier, hid0 = task
    events, wall, err = [], 0.0, None
    for n in range(len(_plan(name, tier))):
        r = _history_events((name, n, seed, tier, hid0 + n + 1))
        events += r["events"]
        wall += r["wall"]
        err = err or r["error"]
    return dict(name=name, events=events, wall=wall, error=err)


# ----------------------------------------------------------------------------
# run
# ----------------------------------------------------------------------------

ROLE_A_CFG = """CONSTANTS NArgs = 2
 NVals = 3
 MaxSteps = {steps}
SPECIFICATION Spec
INVARIANT TypeOK
INVARIANT ScoreIsLP
INVARIANT GenerateLaw
INVARIANT UpdateLaw
INVARIANT RegenerateLaw
INVARIANT ProjectLaw
INVARIANT AssessLaw
INVARIANT Telescopes
PROPERTY UndoRestores
CHECK_DEADLOCK FALSE
"""

TRACE_CFG = """CONSTANTS NArgs = 2
 NVals = 3
 MaxSteps = 0
SPECIFICATION TraceSpec
INVARIANT Done
CHECK_DEADLOCK FALSE
"""

MAIN_CLAUSES = ("C24.run", "C24.score", "C24.weight", "C24.value", "C24.args", "C24.support", "C24.dtype", "C24.shape", "C24.kwargs")
ACTIONS = ("Simulate", "Assess", "Generate", "Update", "Regenerate", "Project", "Undo")
# rough relative cost of a history (rejection samplers / special functions are slow to compile): heavy first

def run(prop_id, tier, seed, replay=None):
    names = sorted(TABLE)
    if replay:      # read before the work directory (which may contain the replay file) is recreated
        with open(replay) as f:
            r = json.load(f)
        names = [r["signature"]["dist"]]
        seed = int(r.get("seed", seed))
        tier = r.get("tier", tier)
    rep = vlib.Report(prop_id, tier, seed)
    wd = vlib.workdir(prop_id)
    only = os.environ.get("VERIF_C24_ONLY")      # development aid: restrict to some wrappers (comma separated)
    if only:
        names = [n for n in names if n in only.split(",")]
        rep.extra["restricted_to"] = names
    groups = [[n for n in g if n in names] for g in GROUPS]
    groups += [[n] for n in names if not any(n in g for g in GROUPS)]
    tasks = [(g, seed, tier) for g in groups if g]
    import concurrent.futures as cf
    disable_jit = tier == "quick"
    ex = cf.ProcessPoolExecutor(max_workers=min(vlib.NCPU, len(tasks)), mp_context=mp.get_context("spawn"),
                                initializer=_init_worker, initargs=(disable_jit,))
    futs = {ex.submit(_group_events, t): t for t in tasks}

    def _abort():
        for f in futs:
            f.cancel()
        for pr in list(getattr(ex, "_processes", {}).values()):
            try:
                pr.kill()
            except Exception:
                pass
        ex.shutdown(wait=False, cancel_futures=True)

    # ---- role A (runs while the workers replay) ----------------------------
    cfgA = os.path.join(wd, "MC_DistGFI.cfg")
    with open(cfgA, "w") as f:
        f.write(ROLE_A_CFG.format(steps=3 if tier == "quick" else 5))
    try:
        a = vlib.run_tlc("DistGFI", cfgA, wd, tag="roleA", coverage=True, workers=2, timeout=900)
    except BaseException:
        _abort()
        raise
    rep.add_tlc(a)
    cov = vlib.tlc_coverage(a)
    acts = {k: v for k, v in cov.items() if k in ACTIONS}
    rep.extra["roleA"] = dict(states=a.distinct, generated=a.generated, action_coverage=acts, wall_s=round(a.wall, 1),
                              invariants=["TypeOK", "ScoreIsLP", "GenerateLaw", "UpdateLaw", "RegenerateLaw", "ProjectLaw",
                                          "AssessLaw", "Telescopes", "UndoRestores (action property)"])
    for act in ACTIONS:
        if acts.get(act, {}).get("total", 0) == 0:
            _abort()
            raise vlib.MachineryError(f"role A: action {act} never fired (coverage {acts})")
    results = []
    try:
        for f in cf.as_completed(futs, timeout=2400 if tier == "quick" else 7200):
            results += f.result()
    except cf.TimeoutError:
        pending = [futs[f][0] for f in futs if not f.done()]
        _abort()
        raise vlib.MachineryError(f"driver timed out; unfinished histories: {pending[:20]}")
    except Exception as e:   # BrokenProcessPool: a worker died (out of memory?)
        _abort()
        raise vlib.MachineryError(f"driver pool failed: {e!r}")
    ex.shutdown(wait=True)
    results.sort(key=lambda r: (r["name"], r["tag"]))
    events = []
    walls = {}
    for r in results:
        walls[r["name"]] = round(walls.get(r["name"], 0) + r["wall"], 1)
        if r["error"]:
            raise vlib.MachineryError("driver/oracle failure (table or TFP problem, not a verdict): " + r["error"])
        events += r["events"]
    for i, e in enumerate(events):
        e["n"] = i + 1
    # ---- role D -----------------------------------------------------------
    log_path = os.path.join(wd, "events.json")
    slim = [{k: v for k, v in e.items() if k not in ("error", "nonfinite_oracle")} for e in events]
    vlib.write_json(log_path, slim)
    cfgD = os.path.join(wd, "Trace_DistGFI.cfg")
    with open(cfgD, "w") as f:
        f.write(TRACE_CFG)
    d = vlib.run_tlc("DistGFI", cfgD, wd, tag="roleD", workers=1, env={"TRACE_FILE": log_path}, timeout=900)
    rep.add_tlc(d)
    verdicts = list(d.payloads("VERDICT"))
    summ = list(d.payloads("SUMMARY"))
    if not summ or summ[-1].get("events") != len(events):
        raise vlib.MachineryError(f"trace validation did not consume the whole log: {summ[-1:]} vs {len(events)}")
    by_n = {e["n"]: e for e in events}
    aux = {}
    for v in verdicts:
        e = by_n[v["n"]]
        clause = v["clause"]
        if clause == "MACH.chain":
            raise vlib.MachineryError(f"driver history out of step at event {e['n']} ({e['dist']}/{e['tag']}/{e['op']})")
        if clause in MAIN_CLAUSES:
            sig = dict(clause=clause, dist=e["dist"], op=e["op"], via=e["via"], cons=e["cons"], tag=e["tag"].rstrip("0123456789"))
            if clause == "C24.run":
                sig["exc"] = e["status"]
            rep.violation(sig, dict(event=e, verdict=v))
        else:
            aux.setdefault(clause, []).append(f'{e["dist"]}/{e["tag"]}/{e["op"]}')
    # ---- evidence ---------------------------------------------------------
    rep.traces = len({e["h"] for e in events})
    rep.evaluations = len(events)
    per_dist = {}
    nonfin = []
    for e in events:
        if e["status"] == "ok" and e["fin"]:
            rep.nontrivial.add((e["dist"], e["tag"], e["via"], e["cons"], e["sel"], e["a0"], e["a1"]))
        if e["status"] == "ok" and not e["fin"]:
            nonfin.append(f'{e["dist"]}/{e["tag"]}/{e["op"]}/{e["cons"]}')
        per_dist[e["dist"]] = per_dist.get(e["dist"], 0) + 1
    for e in events[:: max(1, len(events) // 4)]:
        rep.sample({k: e[k] for k in ("dist", "tag", "op", "via", "cons", "ar", "a0", "a1", "v0", "vc", "v1", "s0", "s1", "w", "lp0", "lp1", "lpc", "twins")})
    rep.rule = ("events = GFI operations run on the real wrappers (histories per wrapper x parameter point), each validated by "
                "TLC against the DistGFI result operators with LP from TFP; non-trivial = distinct (wrapper, point kind, op, "
                "constraint kind, selection, arg transition) with status ok and finite oracle densities")
    rep.extra.update(
        wrappers=len(per_dist), events_per_wrapper=per_dist, trace_summary=summ[-1],
        nonfinite_oracle_events=len(nonfin), nonfinite_oracle_where=sorted(set(nonfin))[:20],
        rejected=sum(1 for e in events if e["status"].startswith("rejected")),
        raised=sum(1 for e in events if e["status"].startswith("raised")),
        kw_twin_events=sum(1 for e in events if e["twins"]),
        fresh_sample_events=sum(1 for e in events if e["fresh"]),
        aux_mismatches={k: sorted(set(v))[:20] for k, v in aux.items()},
        skipped_wrappers={}, not_exported=["inverse_gaussian: defined in the TFP module but not exported by "
                                           "genjax.generative_functions.distributions; not exercised"],
        driver_cpu_wall_per_wrapper_s=walls,
        tolerance="|a-b| <= 8 + max(|lp|)/16384 in units of 1/256 nat; keyword twin: same value id, |diff| <= 1 unit",
    )
    for k, v in aux.items():
        print(f"NOTE auxiliary clause {k} (not part of C24's statement) mismatched on {len(v)} event(s): {sorted(set(v))[:5]}")
    rep.assumptions = [
        "TFP log_prob and validate_args assertions are the oracle (the property is stated relative to TFP)",
        "parameter points are the hand-written table harness/dists_table.py: 2 scalar + 2 batched positional points per wrapper, "
        "keyword-only alternatives (probs=, log_rate=, log_scale=), one sample_shape=(2,) history",
        "scores/weights compared in fixed point 1/256 nat with tolerance 8 units + 2^-14 relative; events whose oracle density is "
        "not finite are counted (nonfinite_oracle_events) and only their run/value/support clauses are checked",
        "regenerate weights (new-old convention), project and discards are validated as auxiliary observations, not C24 clauses",
        "quick tier runs the wrappers with jax_disable_jit (control flow executed op by op, same values); thorough tier uses "
        "compiled control flow",
    ]
    return rep.finish()
