"""C36 — stateful interpreter is transparent: TLC-generated JaxIR programs x all valuations replayed on
genjax's stateful(f)(handler_that_handles_nothing, *args) and compared with TLC's EvalProg table."""

from __future__ import annotations

import json
import multiprocessing as mp
import random

from . import jaxir, vlib
from .eng_incremental import balance, generate

PROPS = {
    "C36": dict(
        spec="Stateful",
        category="model_checking", design_ref="§5 C36",
        technique="TLA+ spec (JaxIR.tla reference semantics + Stateful.tla interpreter loop) model-checked by TLC; TLC-generated IR "
                  "programs replayed on genjax's stateful interpreter with a handler that handles nothing and compared with the "
                  "TLC-computed values",
        text="TLC builds JaxIR programs (<=4 equations, <=3 inputs incl. a length-3 vector; arithmetic, indexing, select, "
             "cond/scan/fori/while with 1-2 outputs and nested bodies, literals, closed-over constants, outputs that are inputs / "
             "literals / constants, and an initial_style_bind primitive wrapping another IR program): an exhaustive one-equation "
             "family plus LCG-generated programs. TLC checks on the spec that the interpreter loop with the empty handler equals "
             "EvalProg (Transparent) and tabulates EvalProg over all <=27 valuations. The driver runs stateful(f)(h0, *args) eagerly "
             "and under jax.jit on every valuation and requires equality with the table and with ordinary f(*args).",
        note="Trusted: TLC, the IR->JAX builder (validated against EvalProg on ordinary evaluation every run), mod-3 integer arithmetic.",
    ),
}


def _handler():
    from genjax._src.core.compiler.interpreters.stateful import StatefulHandler

    class HandlesNothing(StatefulHandler):
        def handles(self, primitive):
            return False

        def dispatch(self, primitive, *args, **kwargs):
            raise AssertionError("dispatch called although handles() is False")

    return HandlesNothing()


def check_case(case, seed, n_eager):
    import jax
    from genjax._src.core.compiler.interpreters.stateful import stateful
    prog, kc, vals, ev = case["prog"], case["kc"], case["vals"], case["ev"]
    nout = len(prog["outs"])
    f = jaxir.build(prog, kc)
    h0 = _handler()
    inputs = [tuple(jaxir.to_input(v) for v in val) for val in vals]
    rng = random.Random(seed * 1000003 + case["id"])
    fails, machinery = [], []
    calls = 0
    srcs = [jaxir.out_source(prog, j) for j in range(nout)]

    def proj(out):
        import jax.tree_util as jtu
        return [jaxir.project(x) for x in jtu.tree_leaves(out)]

    def judge(mode, n, got, ordn):
        if len(got) != nout:
            fails.append(dict(clause="C36.transparent", mode=mode, n=n, why="shape", got=len(got), want=nout))
            return
        for j in range(nout):
            if got[j] != ev[n][j] or got[j] != ordn[j]:
                fails.append(dict(clause="C36.initial_style" if srcs[j] == "call" else "C36.transparent", mode=mode, n=n, out=j,
                                  got=got[j], want=ev[n][j], src=srcs[j]))

    has_call = "call" in jaxir.ops_of(prog)
    f_inline = jaxir.build(prog, kc, inline_calls=True) if has_call else None
    f_clo = jaxir.build(prog, kc, close_calls=True) if has_call else None      # wrapped function closes over an enclosing value

    def ordinary_ok(mode, n, ordn):
        """Ordinary evaluation must equal TLC's EvalProg.  A program with `call` evaluates genjax's initial-style primitive
        even when run ordinarily: if the same program with the wrapped function applied directly agrees with TLC, the
        primitive does not evaluate to its wrapped function (a C36 clause); anything else is a builder/spec bug."""
        if ordn == ev[n]:
            return True
        if has_call and proj(f_inline(*inputs[n])) == ev[n]:
            fails.append(dict(clause="C36.initial_style", mode="ordinary-" + mode, n=n, got=ordn, want=ev[n], src="call"))
            return False
        machinery.append(f"builder/spec disagreement ({mode}): {jaxir.show(prog)} val={vals[n]} jax={ordn} tlc={ev[n]}")
        return False

    for n in rng.sample(range(len(inputs)), min(n_eager, len(inputs))):
        try:
            ordn = proj(f(*inputs[n]))
        except Exception as e:  # noqa: BLE001
            if has_call:
                fails.append(dict(clause="C36.initial_style", mode="ordinary-eager", n=n, why="raised:" + type(e).__name__, error=repr(e)[:300]))
                continue
            raise
        if not ordinary_ok("eager", n, ordn):
            if machinery:
                return dict(fails=[], machinery=machinery, calls=calls)
            continue
        calls += 1
        try:
            got = proj(stateful(f)(h0, *inputs[n]))
        except Exception as e:  # noqa: BLE001
            fails.append(dict(clause="C36.transparent", mode="eager", n=n, why="raised:" + type(e).__name__, error=repr(e)[:300]))
            continue
        judge("eager", n, got, ordn)
        if has_call:
            calls += 1
            try:
                got = proj(stateful(f_clo)(h0, *inputs[n]))
            except Exception as e:  # noqa: BLE001
                fails.append(dict(clause="C36.initial_style", mode="closure-eager", n=n, why="raised:" + type(e).__name__, error=repr(e)[:300], src="call"))
                continue
            judge("closure-eager", n, got, ordn)

    try:
        jboth = jax.jit(lambda *a: (f(*a), stateful(f)(h0, *a)))     # one compilation: ordinary and interpreted
        for n, inp in enumerate(inputs):
            o1, o2 = jax.device_get(jboth(*inp))
            ordn = proj(o1)
            if not ordinary_ok("jit", n, ordn):
                if machinery:
                    return dict(fails=[], machinery=machinery, calls=calls)
                continue
            calls += 1
            judge("jit", n, proj(o2), ordn)
        if has_call:
            jclo = jax.jit(lambda *a: stateful(f_clo)(h0, *a))
            for n, inp in enumerate(inputs):
                calls += 1
                judge("closure-jit", n, proj(jax.device_get(jclo(*inp))), ev[n])
    except Exception as e:  # noqa: BLE001
        fails.append(dict(clause="C36.transparent", mode="jit", n=-1, why="raised:" + type(e).__name__, error=repr(e)[:300]))
    return dict(fails=fails, machinery=machinery, calls=calls)


def _work(arg):
    cases, seed, n_eager = arg
    out = []
    for c in cases:
        try:
            r = check_case(c, seed, n_eager)
        except Exception as e:  # noqa: BLE001
            import traceback
            r = dict(fails=[], machinery=[f"driver exception on case {c['id']}: {e!r}\n{traceback.format_exc()[-1500:]}"], calls=0)
        out.append((c["id"], r))
    return out


def run(prop_id, tier, seed, replay=None):
    replay_doc = None
    if replay:                      # read it first: it may live in the work dir that is recreated below
        with open(replay) as f:
            replay_doc = json.load(f)
    rep = vlib.Report(prop_id, tier, seed)
    wd = vlib.workdir(prop_id)
    rep.rule = ("cases = JaxIR programs built by TLC (Stateful.tla over the program source of Incremental.tla: exhaustive "
                "one-equation family + LCG chains, every prefix); each program is run through stateful(f)(h0, *args) under jax.jit "
                "on all 3^k valuations and eagerly on a seeded subset; evaluations = interpreter calls compared with TLC's EvalProg; "
                "non-trivial = distinct program containing a structured / initial-style primitive, a literal or a closed-over constant operand")
    if replay:
        cases = [replay_doc["detail"]["case"]]
    else:
        rand = dict(nchains=48, nper=1, arith=8) if tier == "quick" else dict(nchains=96, nper=6, arith=16)
        cases = generate("Stateful", wd, seed, tier, rep, ["Transparent", "EmitCase36"], rand=rand)
        rep.extra["exhaustive_scope"] = "SpecBfs: every one-equation program of SmallEqs over inputs (s,s,v), all valuations (exhaustive); SpecRand: sampled"
    n_eager = 1 if tier == "quick" else 27
    jobs = [(b, seed, n_eager) for b in balance(cases, vlib.NCPU * 3)]
    with vlib.pinned_pool() as pool:
        results = pool.map(_work, jobs, chunksize=1)
    by_id = {c["id"]: c for c in cases}
    machinery, calls, opsseen, per_sig = [], 0, {}, {}
    for chunk in results:
        for cid, r in chunk:
            c = by_id[cid]
            machinery += r["machinery"]
            calls += r["calls"]
            ops = jaxir.ops_of(c["prog"])
            for op in ops:
                opsseen[op] = opsseen.get(op, 0) + 1
            txt = json.dumps(c["prog"])
            if ops & {"cond", "scan", "fori", "while", "call"} or '"k": "l"' in txt or '"k": "c"' in txt:
                rep.nontrivial.add(cid)
            for fl in r["fails"]:
                key = (fl["clause"], fl["mode"], fl.get("src", fl.get("why")))
                per_sig[key] = per_sig.get(key, 0) + 1
                if per_sig[key] > 3:
                    continue
                sig = {"clause": fl["clause"], "mode": fl["mode"], "src": fl.get("src", fl.get("why")), "program": jaxir.show(c["prog"])}
                rep.violation(sig, {"case": c, "fail": fl})
    if machinery:
        raise vlib.MachineryError("\n".join(machinery[:5]))
    rep.evaluations = calls
    rep.traces = calls
    for c in cases[:: max(1, len(cases) // 4)]:
        rep.sample({"program": jaxir.show(c["prog"]), "inputs": c["ityp"], "eval_first_valuation": c["ev"][0]})
    rep.extra.update(programs=len(cases), ops_covered=opsseen,
                     programs_where_a_handling_handler_is_observable=sum(c.get("hobs", 0) for c in cases),
                     violations_by_kind={"/".join(map(str, k)): v for k, v in per_sig.items()})
    rep.assumptions = ["values are integers mod 3; the vector input ranges over 3 fixed vectors, scalars over 0..2",
                       "EvalProg (JaxIR.tla) is the oracle; Transparent (StEval with the empty handler = EvalProg) model-checked by TLC on every generated program",
                       "the handler is a StatefulHandler subclass whose handles() is constantly False"]
    return rep.finish()
