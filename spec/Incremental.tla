----------------------------- MODULE Incremental -----------------------------
(***************************************************************************)
(* C09 (and the program source for C36).  The incremental interpreter of   *)
(* GenJAX (interpreters/incremental.py) evaluates a function on primals    *)
(* tagged NoChange / UnknownChange and returns every output leaf with a    *)
(* tag.  The property is NON-INTERFERENCE: an output tagged NoChange has    *)
(* the same value for every valuation of the Unknown-tagged inputs.        *)
(*                                                                         *)
(* Every TLC state is one JaxIR program (built one equation per step) with *)
(* tab = the table of EvalProg over ALL valuations of its inputs.  From    *)
(* the table TLC decides, for each of the 2^k taggings and each output,    *)
(* whether the output is semantically independent of the Unknown inputs    *)
(* (Indep).  The driver runs the real interpreter and requires             *)
(*      impl-NoChange  \subseteq  Indep      and      primals = tab.       *)
(* Role A: the documented default propagation rule ("all inputs NoChange   *)
(* => NoChange, else Unknown", one rule per primitive incl. cond / scan /  *)
(* while) transcribed as RefOut is non-interfering on every program TLC    *)
(* builds (RefSound), and Indep is antitone in the tagging (IndepAntitone).*)
(***************************************************************************)
EXTENDS JaxIR

CONSTANTS Seed,        \* stream seed (VERIF_SEED)
          NChains,     \* parallel chains (one initial state each)
          NPerChain,   \* programs started per chain
          ArithChains, \* chains 1..ArithChains build arithmetic-only programs
          MaxEqs,      \* equations per program (every prefix is a case as well)
          BfsEqs,      \* equations per program in the exhaustive family (1; 2 = all pairs)
          MaxNest,     \* nesting depth of structured ops
          Emit

VARIABLES prog, ityp, tenv, r, tab, ind, cnt, chain
vars == <<prog, ityp, tenv, r, tab, ind, cnt, chain>>

ITypes == << <<"s", "s", "v">>, <<"s", "v">>, <<"s", "s", "s">>, <<"s", "s">>, <<"v", "s">>, <<"s">> >>

NIn == Len(ityp)
\* outputs: every equation output, one input passed through, one literal, one closed-over constant
MkProg(ity, eqs, te, rr) ==
  Prog(Len(ity), eqs,
       [j \in 1..(Len(te) - Len(ity)) |-> V(Len(ity) + j)]
         \o << V(1 + Dr(rr, 90, Len(ity))), L(Dr(rr, 91, 3)), C(1 + Dr(rr, 92, 2)) >>)
Table(p, ity) == [n \in 1..Pow3(Len(ity)) |-> EvalProg(p, ValOf(ity, n - 1))]

---------------------------------------------------------------------------
\* Taggings t in 0 .. 2^k - 1: input j is Unknown iff bit j-1 of t is set.
Unk(t, j) == (t \div Pow2(j - 1)) % 2 = 1
RECURSIVE BaseOf(_, _, _, _)
BaseOf(k, n, t, j) == IF j > k THEN 0
                      ELSE (IF Unk(t, j) THEN 0 ELSE Digit3(n, j) * Pow3(j - 1)) + BaseOf(k, n, t, j + 1)
\* IndepOf(tb, k, nout)[t+1][o] = 1 iff output o has the same value on every two valuations that agree
\* on the NoChange inputs of tagging t (n and its "base": Unknown inputs reset to their first value)
IndepOf(tb, k, nout) ==
  Norm([t \in 1..Pow2(k) |->
     LetIn(Norm([n \in 1..Pow3(k) |-> BaseOf(k, n - 1, t - 1, 1) + 1]), LAMBDA bt :
        Norm([o \in 1..nout |-> IF \A n \in 1..Pow3(k) : tb[n][o] = tb[bt[n]][o] THEN 1 ELSE 0]))])
Indep(t, o) == ind[t + 1][o] = 1
IndepAll == ind

\* The default propagation rule, per primitive (structured ops are ONE primitive).
RECURSIVE RefEnv(_, _, _)
RefEnv(eqs, i, tg) ==
  IF i > Len(eqs) THEN tg
  ELSE LET e == eqs[i]
           u == \E j \in 1..Len(e.ins) : e.ins[j].k = "v" /\ tg[e.ins[j].i]
       IN RefEnv(eqs, i + 1, tg \o [j \in 1..NOutEq(e) |-> u])
RefOut(t) == LetIn(RefEnv(prog.eqs, 1, Norm([j \in 1..NIn |-> Unk(t, j)])), LAMBDA tg :
                Norm([o \in 1..Len(prog.outs) |-> IF prog.outs[o].k = "v" /\ tg[prog.outs[o].i] THEN 1 ELSE 0]))
RefAll == Norm([t \in 1..Pow2(NIn) |-> RefOut(t - 1)])

\* Role A
RefSound == \A t \in 0..(Pow2(NIn) - 1) : \E ro \in {RefOut(t)} : \A o \in 1..Len(prog.outs) : ro[o] = 0 => Indep(t, o)
IndepAntitone == \A t \in 0..(Pow2(NIn) - 1) : \A j \in 1..NIn : \A o \in 1..Len(prog.outs) :
                    (Unk(t, j) /\ Indep(t, o)) => Indep(t - Pow2(j - 1), o)
TabTyped == \A n \in 1..Len(tab) : \A o \in 1..Len(tab[n]) : \A j \in 1..Len(tab[n][o]) : tab[n][o][j] \in 0..2

---------------------------------------------------------------------------
\* Random construction: one equation per step; after MaxEqs equations the chain starts the next program.
InitRand == \E c \in 1..NChains :
              /\ chain = c
              /\ ityp = ITypes[((c - 1) % Len(ITypes)) + 1]
              /\ tenv = ityp
              /\ r = RSeed(Seed, c)
              /\ cnt = 1
              /\ prog = MkProg(ityp, <<>>, ityp, r)
              /\ tab = <<>> /\ ind = <<>>
Grow == /\ chain > 0
        /\ Len(prog.eqs) < MaxEqs
        /\ \E e \in {GenTopEq(r, tenv, MaxNest, chain <= ArithChains)} :
             \E te \in {tenv \o OutTypes(e, tenv)} :
               \E p \in {MkProg(ityp, Append(prog.eqs, e), te, r)} :
                 /\ prog' = p
                 /\ tenv' = te
                 /\ \E tb \in {Norm(Table(p, ityp))} :
                      /\ tab' = tb
                      /\ ind' = IndepOf(tb, Len(ityp), Len(p.outs))
        /\ r' = RNext(r)
        /\ UNCHANGED <<ityp, cnt, chain>>
Restart == /\ chain > 0
           /\ Len(prog.eqs) >= MaxEqs
           /\ cnt < NPerChain
           /\ cnt' = cnt + 1
           /\ ityp' = ITypes[((chain + cnt - 1) % Len(ITypes)) + 1]
           /\ tenv' = ityp'
           /\ r' = RNext(r)
           /\ prog' = MkProg(ityp', <<>>, ityp', r')
           /\ tab' = <<>> /\ ind' = <<>>
           /\ UNCHANGED chain
NextRand == Grow \/ Restart
SpecRand == InitRand /\ [][NextRand]_vars

\* Exhaustive small family: every single equation over a small operand set, plus fixed structured equations.
SOp(te, ty) == {V(i) : i \in IdxOf(te, ty)} \cup (IF ty = "s" THEN {L(1), C(1)} ELSE {C(2)})
AnyOp(te) == SOp(te, "s") \cup SOp(te, "v")
VarOp(te) == {V(i) : i \in 1..Len(te)}
P1(outs) == Prog(1, <<>>, outs)
Body2 == Prog(2, << Eq("add", <<V(1), V(2)>>, 0, <<>>, ""), Eq("mul", <<V(1), V(2)>>, 0, <<>>, "") >>, <<V(3), V(4)>>)
Swap2 == Prog(2, <<>>, <<V(2), V(1)>>)
AddC2 == Prog(2, << Eq("add", <<V(2), C(1)>>, 0, <<>>, "") >>, <<V(1), V(3)>>)
Inc1  == Prog(1, << Eq("add", <<V(1), L(1)>>, 0, <<>>, "") >>, <<V(2)>>)
ForB  == Prog(2, << Eq("add", <<V(1), V(2)>>, 0, <<>>, "") >>, <<V(3)>>)
Lit2  == Prog(1, << Eq("mul", <<V(1), C(1)>>, 0, <<>>, "") >>, <<V(2), L(1)>>)
SmallEqs(te) ==
  {Eq(op, <<a, b>>, 0, <<>>, "") : op \in {"add", "lt"}, a \in AnyOp(te), b \in AnyOp(te)}
  \cup {Eq(op, <<a, b>>, 0, <<>>, "") : op \in {"sub", "mul", "max"}, a \in VarOp(te), b \in VarOp(te)}
  \cup {Eq("neg", <<a>>, 0, <<>>, "") : a \in AnyOp(te)}
  \cup {Eq("where", <<c, a, b>>, 0, <<>>, "") : c \in VarOp(te), a \in {V(1), V(3), L(1)}, b \in {V(2), V(3), C(1)}}
  \cup {Eq("index", <<v, i>>, 0, <<>>, "") : v \in SOp(te, "v"), i \in SOp(te, "s")}
  \cup {Eq("cond", <<p, x, y>>, 0, <<AddC2, Swap2>>, "") : p \in {V(1), V(2)}, x \in {V(1), V(2), L(1)}, y \in {V(2), C(1)}}
  \cup {Eq("scan", <<c, xs>>, 0, <<Body2>>, "") : c \in SOp(te, "s"), xs \in SOp(te, "v")}
  \cup {Eq("fori", <<c>>, 2, <<ForB>>, "") : c \in SOp(te, "s")}
  \cup {Eq("while", <<k, x>>, 0, <<Inc1>>, "") : k \in {V(1), V(2), L(1)}, x \in {V(1), V(2)}}
  \cup {Eq("while", <<k, x, y>>, 0, <<AddC2>>, "") : k \in {V(2), C(1)}, x \in {V(1)}, y \in {V(2), L(1)}}
  \cup {Eq("call", <<x>>, 0, <<Lit2>>, "") : x \in SOp(te, "s")}
\* The family is split over NBuckets initial states (chain = -b) so that TLC's workers share it.
NBuckets == 16
OpIdx(op) == CHOOSE i \in 1..Len(TopOps) : TopOps[i] = op
RECURSIVE InsSum(_, _)
InsSum(ins, j) == IF j > Len(ins) THEN 0 ELSE ins[j].i * (2 * j + 1) + (IF ins[j].k = "v" THEN 0 ELSE 5) + InsSum(ins, j + 1)
BucketOf(e) == ((OpIdx(e.op) + InsSum(e.ins, 1)) % NBuckets) + 1
InitBfs == \E b \in 1..NBuckets :
           /\ chain = 0 - b /\ cnt = 1 /\ r = RSeed(Seed, 0)
           /\ ityp = <<"s", "s", "v">> /\ tenv = ityp
           /\ prog = MkProg(ityp, <<>>, ityp, r)
           /\ tab = <<>> /\ ind = <<>>
NextBfs == /\ chain < 0
           /\ Len(prog.eqs) < BfsEqs
           /\ \E e \in SmallEqs(tenv) :
                /\ (Len(prog.eqs) = 0 => BucketOf(e) = 0 - chain)
                /\ \E te \in {tenv \o OutTypes(e, tenv)} :
                  \E p \in {MkProg(ityp, Append(prog.eqs, e), te, r)} :
                    /\ prog' = p
                    /\ tenv' = te
                    /\ \E tb \in {Norm(Table(p, ityp))} :
                         /\ tab' = tb
                         /\ ind' = IndepOf(tb, Len(ityp), Len(p.outs))
           /\ UNCHANGED <<ityp, cnt, chain, r>>
SpecBfs == InitBfs /\ [][NextBfs]_vars
SpecAll == (InitBfs \/ InitRand) /\ [][NextBfs \/ NextRand]_vars

\* Role B: the case with everything the driver compares against.
EmitCase == (Emit /\ Len(prog.eqs) >= 1) =>
  PrintT(<<"CASE", ToJson([prog |-> prog, ityp |-> ityp, chain |-> chain, cnt |-> cnt, kc |-> KConsts,
                           vals |-> [n \in 1..Pow3(NIn) |-> ValOf(ityp, n - 1)],
                           ev |-> tab, indep |-> IndepAll, ref |-> RefAll])>>)
RoleA == Len(prog.eqs) >= 1 => (RefSound /\ IndepAntitone /\ TabTyped)
=============================================================================
