CONSTANTS MaxDepth = 2
 Seed = 0
 NChains = 1
 NPerChain = 1
 Emit = FALSE
SPECIFICATION Spec
INVARIANT MemIsDen
INVARIANT RawIsDen
INVARIANT SubLaw
INVARIANT Boolean
CHECK_DEADLOCK FALSE
