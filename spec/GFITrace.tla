------------------------------ MODULE GFITrace ------------------------------
(***************************************************************************)
(* Trace validation for the GFI family (role D).  The driver logs one      *)
(* event per GFI operation executed on the real genjax: the request, the   *)
(* projected abstract trace before and after, weight, discard, retdiff,    *)
(* the result of assess on the new trace's own choices, the effect of the  *)
(* returned backward request, and the result of the derived entry point    *)
(* run with the same key.  One TLC step consumes one event, instantiates   *)
(* the GFI laws of GFILaws with the logged values (the values the          *)
(* implementation sampled are the unlogged nondeterminism of the abstract  *)
(* machine) and records every law that fails.  Verdicts are total: the     *)
(* spec never deadlocks on a bad event, it names the failing clause.       *)
(***************************************************************************)
EXTENDS GFILaws, Json, IOUtils, SequencesExt

Log == JsonDeserialize(IOEnv.TRACE_FILE)

Fn(pairs) == [p \in {pairs[i][1] : i \in 1..Len(pairs)} |->
                pairs[CHOOSE i \in 1..Len(pairs) : pairs[i][1] = p][2]]
Abs(t) == [args |-> t.args, choices |-> Fn(t.choices), score |-> t.score, ret |-> t.ret]
SameT(a, b) == a.args = b.args /\ a.choices = b.choices /\ Close(a.score, b.score) /\ a.ret = b.ret

Promised == {"simulate", "generate", "update"}            \* operations every program must support
EditOps == {"update", "regenerate", "index", "empty", "static", "diffannotate"}
F(c, bad) == IF bad THEN {c} ELSE {}
IsRejected(s) == Len(s) >= 8 /\ SubSeq(s, 1, 8) = "rejected"

\* every trace-producing event: the trace is the execution its own choices describe
TraceClauses(p, T, ev) ==
       F("visited", ~LawVisited(p, T))
  \cup F("score",   LawVisited(p, T) /\ ~LawScore(p, T))
  \cup F("ret",     LawVisited(p, T) /\ ~LawRet(p, T))
  \cup F("selfassess.run",   ev.assess.status \notin {"ok", "none"})
  \cup F("selfassess.score", ev.assess.status = "ok" /\ ~Close(ev.assess.score, T.score))
  \cup F("selfassess.ret",   ev.assess.status = "ok" /\ NormV(ev.assess.ret) # NormV(T.ret))

UndoClauses(pre, ev) ==
  IF IsRejected(ev.undo.status) \/ ev.undo.status = "none" THEN F("undo.run", ev.undo.status # "none")
  ELSE IF ev.undo.status # "ok" THEN {"undo.run"}
  ELSE F("undo.restore", ~LawUndoRestore(pre, Abs(ev.undo.post))) \cup F("undo.weight", ~LawUndoWeight(ev.w, ev.undo.w))

AltClauses(post, ev) ==
  IF ev.alt.status = "none" THEN {}
  ELSE IF ev.alt.status # "ok" THEN {"derived.run"}
  ELSE F("derived.same", ~(SameT(Abs(ev.alt.post), post) /\ Close(ev.alt.w, ev.w)))

Alt2Clauses(post, ev) ==    \* C35: the same request with Mask(v,True) unwrapped and Mask(v,False) entries dropped, same key
  IF ev.alt2.status = "none" THEN {}
  ELSE IF ev.alt2.status # "ok" THEN {"mask.run"}
  ELSE F("mask.equiv", ~(SameT(Abs(ev.alt2.post), post) /\ Close(ev.alt2.w, ev.w)))

\* C34: the sub-trace at static address addr (below leading index levels)
LeadIdx(a) == IF a = <<>> \/ ~IsIdx(Head(a)) THEN 0 ELSE
              CHOOSE n \in 1..Len(a) : (\A i \in 1..n : IsIdx(a[i])) /\ (n = Len(a) \/ ~IsIdx(a[n + 1]))
AtSite(addr, a) == LET n == LeadIdx(a) IN IsPrefixP(addr, DropP(a, n))
SiteKey(addr, a) == LET n == LeadIdx(a) IN SubSeq(a, 1, n) \o DropP(a, n + Len(addr))
SubtraceClauses(p, T, ev) ==
  LET r    == ExecT(p, T)
      here == {a \in DOMAIN T.choices : AtSite(ev.extra, a)}
      want == [k \in {SiteKey(ev.extra, a) : a \in here} |-> T.choices[CHOOSE a \in here : SiteKey(ev.extra, a) = k]]
  IN  IF here = {} THEN {}       \* the address was not traced in this execution (e.g. masked off): outside the statement
      ELSE F("subtrace.choices", Fn(ev.subt.choices) # want)
           \cup F("subtrace.score", LawVisited(p, T) /\ ~Close(ev.subt.score, SumF(r.lps, here)))

AssessClauses(p, ev) ==
  LET c == Fn(ev.cons)
      r == Exec(p, ev.reqargs, c, FALSE)
  IN  IF r.err = "reuse" THEN {}
      ELSE IF ev.status = "ok" THEN
             F("assess.value", r.err = "none" /\ ~(Close(ev.w, Score(r)) /\ (p.k = "maskediterate" \/ NormV(ev.subt.ret) = NormV(r.ret))))
             \cup F("missing", p.k = "static" /\ PureStatic(p) /\ r.err = "missing")
      \* (a switch traces every branch on the supplied map, so outside the static language proper a MissingAddress
      \*  may come from a branch that is not selected: both directions are demanded for pure static programs only)
      ELSE IF ev.status = "raised:MissingAddress" THEN F("missing", PureStatic(p) /\ r.err # "missing")
      ELSE F("assess.run", r.err = "none")

\* C08: tagging unchanged arguments UnknownChange instead of NoChange changes nothing, unless that taints a switch index
TagVarClauses(p, post, cons, ev) ==
  UNION {LET tv == ev.tagvars[j] IN
         IF Rs(p, post, tv.tags, cons) # {} THEN {}                  \* that tagging (honestly) reaches a switch index
         ELSE IF tv.status # "ok" THEN {"tagging.run"}
         ELSE F("tagging", ~(SameT(Abs(tv.post), post) /\ Close(tv.w, ev.w)))
         : j \in 1..Len(ev.tagvars)}

TagClauses(ev) ==
  F("ret.returned", ev.hasretp /\ NormV(ev.retp) # NormV(ev.post.ret))      \* edit returns the new trace's return value to its caller
  \cup F("nochange", \E j \in 1..Len(ev.retdiff) : ev.retdiff[j].tag = "N" /\ ev.retdiff[j].aligned /\ ev.retdiff[j].primal # ev.retdiff[j].prev)

\* C23: the same operation with the same key in another execution mode (eager vs jit; slice of a vmapped call vs
\* the unbatched call) gives the same result
ModeClauses(ev) ==
  IF ev.altm.status = "none" THEN {}
  ELSE IF ev.status # "ok" \/ ev.altm.status # "ok"
       THEN F("mode.status", (ev.status = "ok") # (ev.altm.status = "ok"))
       ELSE F("mode.same", ~(SameT(Abs(ev.altm.post), Abs(ev.post)) /\ Close(ev.altm.w, ev.w)))

Clauses0(ev) ==
  LET p    == Entry(ev.pid).p
      pre  == Abs(ev.pre)
      post == Abs(ev.post)
      cons == Fn(ev.cons)
      td   == DOMAIN cons \cup (IF ev.flagmode = "traced" THEN {ev.consall[j].p : j \in 1..Len(ev.consall)} ELSE {})
  IN
  IF ev.op = "assess" THEN AssessClauses(p, ev) ELSE
  IF ev.status # "ok" THEN
       IF IsRejected(ev.status) /\ ev.op \notin Promised THEN {}
       ELSE IF ev.status = "raised:AddressReuse" /\ Exec(p, ev.reqargs, EmptyF, TRUE).err = "reuse" THEN {}   \* C22: required
       ELSE {"run"}
  ELSE
  F("reuse", ev.op \in Promised /\ Exec(p, post.args, post.choices, TRUE).err = "reuse") \cup
  CASE ev.op = "simulate" ->
         TraceClauses(p, post, ev) \cup AltClauses(post, ev) \cup F("args", post.args # ev.reqargs)
    [] ev.op = "generate" ->
         TraceClauses(p, post, ev) \cup AltClauses(post, ev) \cup Alt2Clauses(post, ev) \cup F("args", post.args # ev.reqargs)
         \cup F("gen.agree", ~LawGenAgree(post, cons))
         \cup F("gen.weight", LawVisited(p, post) /\ ~LawGenWeight(p, post, cons, ev.w))
    [] ev.op \in {"update", "diffannotate"} ->
         TraceClauses(p, post, ev) \cup AltClauses(post, ev) \cup UndoClauses(pre, ev) \cup TagClauses(ev)
         \cup Alt2Clauses(post, ev)      \* also where a masked-off traced constraint taints a switch index (finding KF-C35-1)
         \cup F("upd.args", ~LawUpdArgs(post, ev.reqargs))
         \cup F("upd.constrained", ~LawUpdConstrained(post, cons))
         \cup F("upd.kept", ~LawUpdKeptD(p, pre, post, ev.tags, cons, td))
         \cup F("upd.weight", ~LawUpdWeightD(p, pre, post, ev.tags, cons, td, ev.w))
         \cup F("upd.discard", ev.hasdisc /\ ~LawUpdDiscardD(p, pre, post, ev.tags, cons, td, Fn(ev.disc)))
         \cup TagVarClauses(p, post, cons, ev)
    [] ev.op = "empty" ->
         TraceClauses(p, post, ev) \cup AltClauses(post, ev) \cup UndoClauses(pre, ev) \cup TagClauses(ev)
         \cup F("upd.args", ~LawUpdArgs(post, ev.reqargs))
         \cup F("upd.kept", ~LawUpdKept(p, pre, post, ev.tags, EmptyF))
         \cup F("upd.weight", ~LawUpdWeight(p, pre, post, ev.tags, EmptyF, ev.w))
         \cup F("empty.identity", (\A j \in 1..Len(ev.tags) : ev.tags[j] = "N") /\ ~(SameT(post, pre) /\ Close(ev.w, 0)))
    [] ev.op = "regenerate" ->
         TraceClauses(p, post, ev) \cup AltClauses(post, ev) \cup UndoClauses(pre, ev) \cup TagClauses(ev)
         \cup F("upd.args", ~LawUpdArgs(post, ev.reqargs))
         \cup F("regen.unselected", ~LawRegenUnselected(pre, post, ev.sel))
         \cup F("regen.weight", ~LawRegenWeight(pre, post, ev.w))
         \cup TagVarClauses(p, post, EmptyF, ev)
         \cup F("regen.empty", ~LawRegenEmpty(pre, post, ev.sel, ev.w, post.args = pre.args /\ \A j \in 1..Len(ev.tags) : ev.tags[j] = "N"))
    [] ev.op = "index" ->
         LET ip   == <<IdxStr(ev.idx)>>
             icons == PrefixMap(ip, cons)
             other == {a \in DOMAIN pre.choices : ~IsPrefixP(ip, a)} IN
         TraceClauses(p, post, ev) \cup UndoClauses(pre, ev) \cup TagClauses(ev)
         \cup F("upd.args", post.args # pre.args)
         \cup F("idx.local", \E a \in other : a \notin DOMAIN post.choices \/ post.choices[a] # pre.choices[a])
         \cup (IF ev.sub = "update"
               THEN F("upd.constrained", ~LawUpdConstrained(post, icons))
                    \cup F("upd.kept", ~LawUpdKept(p, pre, post, ev.tags, icons))
                    \cup F("upd.weight", ~LawUpdWeight(p, pre, post, ev.tags, icons, ev.w))
               ELSE F("regen.unselected", \E a \in DOMAIN pre.choices : IsPrefixP(ip, a) /\ ~Selected(ev.sel, a)
                                              /\ (a \notin DOMAIN post.choices \/ post.choices[a] # pre.choices[a]))
                    \cup F("regen.weight", ~LawRegenWeight(pre, post, ev.w)))
    [] ev.op = "static" ->
         TraceClauses(p, post, ev) \cup UndoClauses(pre, ev) \cup TagClauses(ev)
         \cup F("upd.args", ~LawUpdArgs(post, ev.reqargs))
         \cup F("upd.constrained", ~LawUpdConstrained(post, cons))
         \cup F("static.others", \E a \in DOMAIN pre.choices :
                   a \notin DOMAIN cons /\ ~IsPrefixP(ev.extra, a) /\ ~UnderAny(a, RsD(p, post, ev.tags, DOMAIN cons \cup {b \in Addrs(p) : IsPrefixP(ev.extra, b)}))
                   /\ (a \notin DOMAIN post.choices \/ post.choices[a] # pre.choices[a]))
    [] ev.op = "subtrace" -> SubtraceClauses(p, pre, ev)
    [] ev.op = "project" ->
         F("project.value", ~LawProject(p, pre, ev.sel, ev.w))
         \cup F("project.split", ~Close(ev.w + ev.w2, pre.score))
    [] OTHER -> {"unknown-op"}

Clauses(ev) == Clauses0(ev) \cup ModeClauses(ev)

VARIABLES l, fails
TInit == l = 1 /\ fails = <<>>
TNext == /\ l <= Len(Log)
         /\ l' = l + 1
         /\ LET ev == Log[l]
                cs == Clauses(ev)
            IN  fails' = IF cs = {} THEN fails
                         ELSE Append(fails, [tid |-> ev.tid, seq |-> ev.seq, clauses |-> SetToSeq(cs)])
TSpec == TInit /\ [][TNext]_<<l, fails>>
\* printed once, when the whole log has been consumed
Report == l = Len(Log) + 1 => PrintT(<<"VERDICT", ToJson([n |-> Len(Log), fails |-> fails])>>)
Consumed == TLCGet("level") >= 0     \* (kept for -coverage)
=============================================================================
