------------------------------ MODULE GFIMachine ------------------------------
(***************************************************************************)
(* Role A for the GFI family: the abstract machine itself, model-checked.  *)
(* State: a program of the catalogue, its current abstract trace, the      *)
(* trace before the last update and what that update returned.  Sampling   *)
(* is fully nondeterministic (every complete choice map the laws allow).   *)
(* TLC checks on every reachable state that                                *)
(*   - the laws GFITrace evaluates on implementation events are            *)
(*     SATISFIABLE and mutually consistent (Update is enabled whenever a   *)
(*     trace exists; Generate's weight laws agree at the extremes);        *)
(*   - the discard the update law prescribes is SUFFICIENT: applying it as *)
(*     an Update with the original arguments admits exactly one outcome,   *)
(*     the original trace, with the negated weight (C06 at design level,   *)
(*     including switch index changes and mask flips);                     *)
(*   - project splits the score along any selection (C10).                 *)
(***************************************************************************)
EXTENDS GFILaws

CONSTANTS ProgSet, ConsVals

VARIABLES pid, tr, prev, last
vars == <<pid, tr, prev, last>>

NoTrace == [args |-> <<>>, choices |-> EmptyF, score |-> 0, ret |-> Nn]
P == Entry(pid).p
ArgSamples == {Entry(pid).as[i] : i \in 1..Len(Entry(pid).as)}

Complete(p, args) ==
  LET AU == Addrs(p)
      cands == {RestrictF(f, {a \in AU : f[a] >= 0}) : f \in [AU -> -1..2]}
  IN  {c \in cands : LET r == Exec(p, args, c, FALSE) IN r.err = "none" /\ DOMAIN r.lps = DOMAIN c}

HonestTags(a1, a2) == [j \in 1..Len(a2) |-> IF a1[j] = a2[j] THEN "N" ELSE "U"]
Discard(p, pre, post, tags, cons) ==
  RestrictF(pre.choices, {a \in DOMAIN pre.choices :
     a \in DOMAIN cons \/ a \notin DOMAIN post.choices \/ UnderAny(a, Rs(p, post, tags, cons))})

\* all outcomes the update laws allow
UpdOutcomes(p, pre, args2, tags, cons) ==
  {post \in {MkTrace(p, args2, c) : c \in Complete(p, args2)} :
      LawUpdConstrained(post, cons) /\ LawUpdKept(p, pre, post, tags, cons)}

L(op, w, fw, disc, fresh) == [op |-> op, w |-> w, fw |-> fw, disc |-> disc, fresh |-> fresh]
Init == pid \in ProgSet /\ tr = NoTrace /\ prev = NoTrace /\ last = L("none", 0, 0, EmptyF, FALSE)

Simulate == /\ tr = NoTrace
            /\ \E a \in ArgSamples : \E c \in Complete(P, a) : tr' = MkTrace(P, a, c)
            /\ UNCHANGED <<pid, prev>> /\ last' = L("simulate", 0, 0, EmptyF, FALSE)

Update == /\ tr # NoTrace /\ last.op = "simulate"
          /\ \E a2 \in ArgSamples : \E S \in SUBSET Addrs(P) : \E cons \in [S -> ConsVals] :
               LET tags == HonestTags(tr.args, a2) IN
               \E post \in UpdOutcomes(P, tr, a2, tags, cons) :
                  /\ tr' = post /\ prev' = tr
                  /\ last' = L("update", post.score - tr.score, 0, Discard(P, tr, post, tags, cons),
                               Fresh(P, tr, post, tags, cons) # {})
          /\ UNCHANGED pid

\* apply the backward request: Update(discard) with the original arguments
Undo == /\ last.op = "update"
        /\ LET tags == HonestTags(tr.args, prev.args) IN
           \E post \in UpdOutcomes(P, tr, prev.args, tags, last.disc) :
              /\ tr' = post
              /\ last' = L("undo", post.score - tr.score, last.w, EmptyF, Fresh(P, tr, post, tags, last.disc) # {})
        /\ UNCHANGED <<pid, prev>>

Next == Simulate \/ Update \/ Undo
Spec == Init /\ [][Next]_vars

\* ---- properties
TraceConsistent == tr # NoTrace => LawVisited(P, tr) /\ LawScore(P, tr) /\ LawRet(P, tr)
\* C06 at design level: the discard determines the undo completely
UndoRestores == last.op = "undo" => (tr = prev /\ last.w = -last.fw /\ ~last.fresh)
\* the update laws are satisfiable: from every trace every request has an outcome
UpdateEnabled == (tr # NoTrace /\ last.op = "simulate") =>
                   \A a2 \in ArgSamples : \A S \in SUBSET Addrs(P) : \A cons \in [S -> ConsVals] :
                      UpdOutcomes(P, tr, a2, HonestTags(tr.args, a2), cons) # {}
\* an update without constraint, argument change or resampling trigger is the identity
UpdateIdentity == (tr # NoTrace /\ last.op = "simulate") =>
                   UpdOutcomes(P, tr, tr.args, HonestTags(tr.args, tr.args), EmptyF) = {tr}
\* C10: project splits the score along any selection; C03: the extreme constraints
SelAtoms == {[t |-> "all", p |-> <<>>, k |-> <<>>], [t |-> "at", p |-> <<"x">>, k |-> <<>>], [t |-> "lf", p |-> <<"y">>, k |-> <<>>],
             [t |-> "at", p |-> <<"*", "x">>, k |-> <<>>], [t |-> "at", p |-> <<"u">>, k |-> <<>>]}
ProjectSplits == tr # NoTrace =>
   LET r == ExecT(P, tr) IN
   /\ \A s \in SelAtoms : ProjWt(r, s) + ProjWt(r, [t |-> "not", p |-> <<>>, k |-> <<s>>]) = tr.score
   /\ ProjWt(r, [t |-> "all", p |-> <<>>, k |-> <<>>]) = tr.score
   /\ GenWt(r, {}) = 0 /\ GenWt(r, DOMAIN tr.choices) = tr.score
=============================================================================
