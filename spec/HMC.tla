-------------------------------- MODULE HMC --------------------------------
(***************************************************************************)
(* Leapfrog dynamics of genjax.inference.requests.HMC                      *)
(* (genjax/_src/inference/requests/hmc.py) as a state machine over dyadic  *)
(* fixed point (unit 2^-16), for models whose log-density is a negative    *)
(* half sum of squared affine residuals (products of normals with dyadic   *)
(* means and 1/sigma in {1, 2}), so that the gradient is affine with       *)
(* integer coefficients.                                                   *)
(*                                                                         *)
(*   state  (q, p): positions of ALL continuous sites, momenta of the      *)
(*                  selected ones (0 elsewhere)                            *)
(*   Leap:  p_half = p + eps/2 * grad(q)      (selected coordinates only)  *)
(*          q'     = q + eps   * p_half                                    *)
(*          p'     = p_half + eps/2 * grad(q')                             *)
(*   alpha = H(start) - H(end),  H(q,p) = U(q) + |p|^2/2,  U = -log p      *)
(*                                                                         *)
(* eps = 2^-e, e \in {1, 2}; every division is a shift that truncates      *)
(* toward zero (an odd function), which makes the integer integrator       *)
(* EXACTLY reversible: Leap^L, momentum flip, Leap^L, momentum flip is the *)
(* identity.  TLC checks this and the antisymmetry of alpha (role A);      *)
(* HMCTrace.tla replays logged trajectories of the real code against Leap. *)
(***************************************************************************)
EXTENDS Integers, Sequences, FiniteSets, TLC, Json, Folds, FiniteSetsExt

CONSTANTS Emit,        \* TRUE: print the catalogue (role B)
          GridMax      \* role A explores initial positions / momenta in {-GridMax..GridMax} half units

U16 == 65536                     \* fixed-point unit
Grid == {2 * i : i \in (0 - GridMax)..GridMax}      \* in quarter units
Minus1 == 0 - 1
Fx4(n) == n * (U16 \div 4)       \* n quarters

\* truncation toward zero: TDiv(-x, n) = -TDiv(x, n)
TDiv(x, n) == IF x >= 0 THEN x \div n ELSE 0 - ((0 - x) \div n)
ISum(S, F(_)) == MapThenSumSet(F, S)
\* x^2 / U16 for |x| < 2^23, exact up to 2 units
Sq(x) == LET ax == IF x < 0 THEN 0 - x ELSE x
             a == ax \div 256
             b == ax % 256
         IN  a * a + (2 * a * b) \div 256 + (b * b) \div U16

---------------------------------------------------------------------------
\* Catalogue.  A model lists its continuous sites; site j ~ normal(mean_j, 1/sinv_j) with
\* mean_j = value of the parent site (pa # 0) or the constant mu (quarters).  `disc`: the program also
\* has a discrete choice b ~ flip(0.25) (never moved).  The residual of site j is
\*   r_j(q) = sinv_j * (q_j - mean_j),   log p(q) = - sum_j r_j^2 / 2 + const.
CSite(a, pa, mu4, sinv) == [a |-> a, pa |-> pa, mu4 |-> mu4, sinv |-> sinv]
\* `vecs`: groups of coordinates that are the elements of ONE array-valued choice (same address `a`,
\* e.g. v ~ normal([mu_0, mu_1], 1) @ "v"): selected together or not at all; its log-density and the
\* kinetic energy of its momentum are SUMS over the elements, i.e. over the coordinates as for scalars.
Models == <<
  [name |-> "n1", disc |-> 0, vecs |-> {}, sites |-> << CSite("x", 0, 6, 1) >>],
  [name |-> "n2", disc |-> 0, vecs |-> {}, sites |-> << CSite("x", 0, 4, 1), CSite("y", 1, 0, 2) >>],
  [name |-> "n3", disc |-> 1, vecs |-> {}, sites |-> << CSite("x", 0, 0, 1), CSite("y", 1, 0, 1), CSite("z", 2, 0, 1) >>],
  [name |-> "n4", disc |-> 0, vecs |-> {{1, 2}}, sites |-> << CSite("v", 0, 2, 1), CSite("v", 0, 0 - 4, 1), CSite("y", 1, 0, 1) >>]
>>
NM == Len(Models)
MIdx(n) == CHOOSE i \in 1..NM : Models[i].name = n
ND(m) == Len(m.sites)

Resid(m, j, q) == LET s == m.sites[j]
                  IN  s.sinv * (q[j] - (IF s.pa = 0 THEN Fx4(s.mu4) ELSE q[s.pa]))
\* d r_k / d q_j
DRes(m, k, j) == LET s == m.sites[k]
                 IN  (IF k = j THEN s.sinv ELSE 0) - (IF s.pa = j THEN s.sinv ELSE 0)
\* gradient of log p w.r.t. q_j
Grad(m, j, q) == 0 - ISum(1..ND(m), LAMBDA k : DRes(m, k, j) * Resid(m, k, q))
\* 2 * U(q)  and  2 * kinetic energy, in fixed-point units
TwoU(m, q) == ISum(1..ND(m), LAMBDA k : Sq(Resid(m, k, q)))
TwoK(p) == ISum(1..Len(p), LAMBDA j : Sq(p[j]))
TwoH(m, q, p) == TwoU(m, q) + TwoK(p)

\* One leapfrog step; Sel = set of selected coordinates; e: eps = 2^-e.
HalfKick(m, Sel, e, q, p) == [j \in 1..ND(m) |-> IF j \in Sel THEN p[j] + TDiv(Grad(m, j, q), 2^(e + 1)) ELSE 0]
Drift(m, Sel, e, q, p)    == [j \in 1..ND(m) |-> IF j \in Sel THEN q[j] + TDiv(p[j], 2^e) ELSE q[j]]
\* Bind(v, F): F applied to the VALUE of v (TLC passes operator arguments and LET definitions by name;
\* binding through a singleton set evaluates v exactly once).
Bind(v, F(_)) == CHOOSE r \in {F(x) : x \in {v}} : TRUE
LeapOp(m, Sel, e, s0) ==
  Bind(s0, LAMBDA s :
    Bind(HalfKick(m, Sel, e, s.q, s.p), LAMBDA ph :
      Bind(Drift(m, Sel, e, s.q, ph), LAMBDA qn :
        [q |-> qn, p |-> HalfKick(m, Sel, e, qn, ph)])))
\* diagnosis only: the first half kick of every step uses a STALE gradient (the one at q0)
LeapStale(m, Sel, e, s0, q0) ==
  Bind(s0, LAMBDA s :
    Bind([j \in 1..ND(m) |-> IF j \in Sel THEN s.p[j] + TDiv(Grad(m, j, q0), 2^(e + 1)) ELSE 0], LAMBDA ph :
      Bind(Drift(m, Sel, e, s.q, ph), LAMBDA qn :
        [q |-> qn, p |-> HalfKick(m, Sel, e, qn, ph)])))
Flip(s) == [q |-> s.q, p |-> [j \in 1..Len(s.p) |-> 0 - s.p[j]]]

RECURSIVE LeapN(_, _, _, _, _)
LeapN(m, Sel, e, s, n) == IF n = 0 THEN s ELSE Bind(LeapOp(m, Sel, e, s), LAMBDA t : LeapN(m, Sel, e, t, n - 1))

---------------------------------------------------------------------------
\* State machine explored in role A: forward L steps, flip, forward L steps, flip.
VARIABLES cfg, st, k, phase
vars == <<cfg, st, k, phase>>

Sels(m) == {S \in (SUBSET (1..ND(m))) \ {{}} : \A g \in m.vecs : g \subseteq S \/ g \cap S = {}}
Starts(m, Sel) == {s \in [q : [1..ND(m) -> Grid], p : [1..ND(m) -> Grid]] :
                     \A j \in 1..ND(m) : j \notin Sel => (s.p[j] = 0 /\ s.q[j] = 2)}
Scale(s) == [q |-> [j \in 1..Len(s.q) |-> Fx4(s.q[j])], p |-> [j \in 1..Len(s.p) |-> Fx4(s.p[j])]]

Init ==
  /\ cfg = [m |-> 0, Sel |-> {}, e |-> 0, L |-> 0, s0 |-> [q |-> <<>>, p |-> <<>>]]
  /\ st = [q |-> <<>>, p |-> <<>>] /\ k = 0 /\ phase = "root"

Next ==
  \/ /\ phase = "root"
     /\ \E mi \in 1..NM : \E Sel \in Sels(Models[mi]) : \E e \in {1, 2} : \E L \in 1..4 :
          /\ cfg' = [m |-> mi, Sel |-> Sel, e |-> e, L |-> L, s0 |-> [q |-> <<>>, p |-> <<>>]]
          /\ phase' = "cfg" /\ UNCHANGED <<st, k>>
  \/ /\ phase = "cfg"
     /\ \E s \in Starts(Models[cfg.m], cfg.Sel) :
          /\ cfg' = [cfg EXCEPT !.s0 = Scale(s)]
          /\ st' = Scale(s) /\ k' = 0 /\ phase' = "fwd"
  \/ /\ phase \in {"fwd", "bwd"} /\ k < cfg.L
     /\ st' = LeapOp(Models[cfg.m], cfg.Sel, cfg.e, st)
     /\ k' = k + 1 /\ UNCHANGED <<cfg, phase>>
  \/ /\ phase = "fwd" /\ k = cfg.L
     /\ st' = Flip(st) /\ k' = 0 /\ phase' = "bwd" /\ UNCHANGED cfg
  \/ /\ phase = "bwd" /\ k = cfg.L
     /\ st' = Flip(st) /\ phase' = "done" /\ UNCHANGED <<cfg, k>>

Spec == Init /\ [][Next]_vars

\* Role A.
Reversible == phase = "done" => st = cfg.s0
\* alpha of the forward trajectory = - alpha of the reversed one (exact in the integer model)
AlphaAntisymmetric ==
  (phase = "bwd" /\ k = 0) =>
     LET m == Models[cfg.m]
         afwd == TwoH(m, cfg.s0.q, cfg.s0.p) - TwoH(m, st.q, st.p)
     IN  Bind(LeapN(m, cfg.Sel, cfg.e, st, cfg.L), LAMBDA back :
              afwd = 0 - (TwoH(m, st.q, st.p) - TwoH(m, back.q, back.p)))
\* unselected coordinates never move, unselected momenta stay 0
OnlySelectedMove ==
  phase \in {"fwd", "bwd", "done"} =>
     \A j \in 1..ND(Models[cfg.m]) : j \notin cfg.Sel => (st.q[j] = cfg.s0.q[j] /\ st.p[j] = 0)
\* the energy error of the integrator stays small (|2 alpha| <= 2 * 1.5 in these grids): leapfrog, not Euler
EnergyBounded ==
  (phase = "fwd" /\ k = cfg.L /\ cfg.e = 2) =>
     LET m == Models[cfg.m]
         a == TwoH(m, cfg.s0.q, cfg.s0.p) - TwoH(m, st.q, st.p)
     IN  a \in (0 - 3 * U16)..(3 * U16)
EmitCase ==
  (Emit /\ phase = "root") => PrintT(<<"CATALOG", ToJson([models |-> [i \in 1..NM |-> [name |-> Models[i].name, disc |-> Models[i].disc,
                                                                  sites |-> Models[i].sites]]])>>)
=============================================================================
