----------------------------- MODULE ChoiceMaps -----------------------------
(***************************************************************************)
(* Choice maps of GenJAX (genjax/_src/core/generative/choice_map.py) as    *)
(* finite maps  Path -> [v, ok]  (C17) and invalid_subset (C33).           *)
(*                                                                         *)
(* A path is a Seq(STRING).  Components:                                   *)
(*   "a","b","c"      static address components                            *)
(*   "0","1","2"      an ANCHORED index level (scalar or array address     *)
(*                    given to extend / C[i,...] : class Indexed)          *)
(*   "~0","~1"        a FLOATING index level: the leaf is a length-2 array *)
(*                    produced by a vmapped builder / full slice; it is    *)
(*                    always the last component (the array lives at the    *)
(*                    leaf) and a lookup may supply the index at the leaf  *)
(*                    or hoisted above a purely static prefix.             *)
(* An entry [v, ok] is a possibly masked value; entries with ok = FALSE    *)
(* are kept: they are the structure a map has when flags / indices are     *)
(* traced.  Observations (lookups) only see ok entries.                    *)
(*                                                                         *)
(* A construction term is a record [t, p, v, f, k].  M(t) is its finite-   *)
(* map meaning.  Lookup is the fold of the one-component step CMSub over   *)
(* the probe path.  WFT(t) delimits the grammar to terms the API accepts   *)
(* (no Choice | non-Choice, at most one switch below an Or, index steps    *)
(* only where an index level exists, ...).                                 *)
(* EXTENDS Selections: selection terms and Den are reused for filter and   *)
(* get_selection; the variables term/depth/r and the constants are reused. *)
(***************************************************************************)
EXTENDS Selections

StatC == {"a", "b", "c"}
AnchC == {"0", "1", "2"}
FltC  == {"~0", "~1"}
CMPlain(c) == CASE c = "~0" -> "0" [] c = "~1" -> "1" [] OTHER -> c
CMIsIdx(c) == c \in AnchC \cup FltC
CMFront(q) == SubSeq(q, 1, Len(q) - 1)
CMLast(q)  == q[Len(q)]

RECURSIVE CMStrip(_)
CMStrip(q) == IF q = <<>> THEN <<>>
              ELSE IF CMIsIdx(Head(q)) THEN CMStrip(Tail(q)) ELSE <<Head(q)>> \o CMStrip(Tail(q))

CMPhys(q) == IF q # <<>> /\ CMLast(q) \in FltC THEN CMFront(q) ELSE q
CMPPrefix(x, y) == Len(x) < Len(y) /\ SubSeq(y, 1, Len(x)) = x
CMConflict(x, y) == \/ CMPPrefix(x, y) \/ CMPPrefix(y, x)
                    \/ CMPPrefix(CMPhys(x), CMPhys(y)) \/ CMPPrefix(CMPhys(y), CMPhys(x))

E(v, ok) == [v |-> v, ok |-> ok]
EmpM == [q \in {} |-> E(0, FALSE)]
EntM(p, v) == [q \in {p} |-> E(v, TRUE)]

---------------------------------------------------------------------------
\* Finite-map meaning of every construction operator.
PreM(c, m) == [q \in {<<c>> \o x : x \in DOMAIN m} |-> m[Tail(q)]]
MskM(m, f) == [q \in DOMAIN m |-> E(m[q].v, m[q].ok /\ f)]
\* left-biased union of possibly masked values: the first VALID value wins
OrM(m1, m2) == [q \in DOMAIN m1 \cup DOMAIN m2 |->
                  IF q \in DOMAIN m1 /\ (m1[q].ok \/ q \notin DOMAIN m2) THEN m1[q] ELSE m2[q]]
SwM(i, m0, m1) == LET ms == <<m0, m1>> IN
                  [q \in DOMAIN m0 \cup DOMAIN m1 |-> IF q \in DOMAIN ms[i + 1] THEN ms[i + 1][q] ELSE E(0, FALSE)]
FltSetM(m, D) == [q \in {x \in DOMAIN m : CMStrip(x) \in D} |-> m[q]]
FltM(m, s) == FltSetM(m, Den(s))
VmM(m0, m1) == [q \in {x \o <<"~0">> : x \in DOMAIN m0} \cup {x \o <<"~1">> : x \in DOMAIN m1} |->
                  IF CMLast(q) = "~0" THEN m0[CMFront(q)] ELSE m1[CMFront(q)]]
JS == << <<"0", "1">>, <<"1", "0">>, <<"2", "0">>, <<"1", "2">> >>
IxaKey(js, q) == IF q = <<>> THEN <<>> ELSE <<IF CMLast(q) = "~0" THEN js[1] ELSE js[2]>> \o CMFront(q)
IxaM(js, m) == [x \in {IxaKey(js, q) : q \in DOMAIN m} |->
                  m[CHOOSE q \in DOMAIN m : IxaKey(js, q) = x]]
IxaOK(m) == \A q \in DOMAIN m : /\ q # <<>> /\ CMLast(q) \in FltC
                                /\ \A i \in 1..(Len(q) - 1) : q[i] \in StatC

\* One lookup step with component c (static, or a plain index "0","1","2").
\* result <<kind, rest>>, kind in hit | dead | drop | err ; hoist flag separately.
CMHoistable(q) == /\ q # <<>> /\ CMLast(q) \in FltC /\ Head(q) \in StatC
                  /\ \A i \in 1..(Len(q) - 1) : q[i] \in StatC
StepQ(c, q) ==
  IF c \in StatC
  THEN IF q # <<>> /\ Head(q) = c THEN <<"hit", Tail(q)>> ELSE <<"drop", <<>>>>
  ELSE IF q = <<>> THEN <<"err", <<>>>>
  ELSE IF Head(q) \in AnchC THEN (IF Head(q) = c THEN <<"hit", Tail(q)>> ELSE <<"dead", Tail(q)>>)
  ELSE IF Head(q) \in FltC THEN (IF c = "2" THEN <<"err", <<>>>>
                                 ELSE IF CMPlain(Head(q)) = c THEN <<"hit", Tail(q)>> ELSE <<"drop", <<>>>>)
  ELSE IF CMHoistable(q) THEN (IF c = "2" THEN <<"err", <<>>>>
                               ELSE IF CMPlain(CMLast(q)) = c THEN <<"hit", CMFront(q)>> ELSE <<"drop", <<>>>>)
  ELSE <<"err", <<>>>>

SubHits(m, c, x) == {q \in DOMAIN m : StepQ(c, q) = <<"hit", x>>}
SubKeys(m, c) == {StepQ(c, q)[2] : q \in {y \in DOMAIN m : StepQ(c, y)[1] \in {"hit", "dead"}}}
\* the step is undefined (out of the model's scope) when an index is applied where no index level
\* exists, or when two different entries answer the same residual address
SubBad(m, c) == \/ \E q \in DOMAIN m : StepQ(c, q)[1] = "err"
                \/ \E x \in SubKeys(m, c) : Cardinality(SubHits(m, c, x)) > 1
                \/ \E x, y \in SubKeys(m, c) : CMConflict(x, y)   \* residuals (also masked-out ones) must still be a tree
SubHoists(m, c) == c \notin StatC /\ \E q \in DOMAIN m : CMHoistable(q)
CMSub(m, c) == [x \in SubKeys(m, c) |->
                  IF SubHits(m, c, x) # {} THEN m[CHOOSE q \in SubHits(m, c, x) : TRUE] ELSE E(0, FALSE)]

---------------------------------------------------------------------------
\* Terms.
N(t, p, v, f, k) == [t |-> t, p |-> p, v |-> v, f |-> f, k |-> k]
TEmp        == N("emp", <<>>, 0, FALSE, <<>>)
TEnt(p, v)  == N("ent", p, v, FALSE, <<>>)
TExt(c, x)  == N("ext", <<c>>, 0, FALSE, <<x>>)
TMsk(f, x)  == N("msk", <<>>, 0, f, <<x>>)
TFlt(i, x)  == N("flt", <<>>, i, FALSE, <<x>>)
TSub(c, x)  == N("sub", <<c>>, 0, FALSE, <<x>>)
TOr(x, y)   == N("or", <<>>, 0, FALSE, <<x, y>>)
TSw(i, x, y) == N("sw", <<>>, i, FALSE, <<x, y>>)
TSet(p, v, x) == N("set", p, v, FALSE, <<x>>)
TDm(x, y)   == N("dm", <<>>, 0, FALSE, <<x, y>>)
TVm(x, y)   == N("vm", <<>>, 0, FALSE, <<x, y>>)
TIxa(j, x)  == N("ixa", <<>>, j, FALSE, <<x>>)

\* selections offered to filter (Selections.tla terms; Den is their meaning)
SelCat == << All, None, At(<<"a">>), At(<<"b">>), At(<<"a", "b">>), Not(At(<<"a">>)),
             Or(At(<<"a">>), At(<<"b", "a">>)), At(<<"*", "b">>), Lf(<<"a">>),
             And(At(<<"a">>), Not(At(<<"a", "b">>))), Leaf >>

\* MX(t, fw): fw = FALSE is the documented meaning.  fw = TRUE differs only in from_mapping ("dm") keeping the
\* FIRST of two pairs with the same address; it is used only to classify a known finding, never as an oracle.
\* meaning of the top node of t from the meanings ms of its children
MTop(t, ms, fw) ==
        CASE t.t = "emp" -> EmpM
          [] t.t = "ent" -> EntM(t.p, t.v)
          [] t.t = "ext" -> PreM(t.p[1], ms[1])
          [] t.t = "msk" -> MskM(ms[1], t.f)
          [] t.t = "flt" -> FltM(ms[1], SelCat[t.v])
          [] t.t = "sub" -> CMSub(ms[1], t.p[1])
          [] t.t = "or"  -> OrM(ms[1], ms[2])
          [] t.t = "sw"  -> SwM(t.v, ms[1], ms[2])
          [] t.t = "set" -> OrM(EntM(t.p, t.v), ms[1])
          [] t.t = "dm"  -> IF fw THEN OrM(ms[1], ms[2])
                            ELSE OrM(ms[2], ms[1])       \* from_mapping: documented "later pairs overwrite earlier ones"
          [] t.t = "vm"  -> VmM(ms[1], ms[2])
          [] t.t = "ixa" -> IxaM(JS[t.v], ms[1])
RECURSIVE MX(_, _)
MX(t, fw) == MTop(t, [i \in 1..Len(t.k) |-> MX(t.k[i], fw)], fw)
M(t) == MX(t, FALSE)
RECURSIVE HasDupDm(_)
HasDupDm(t) == (t.t = "dm" /\ t.k[1].p = t.k[2].p) \/ \E i \in 1..Len(t.k) : HasDupDm(t.k[i])

RECURSIVE HasSw(_)
HasSw(t) == t.t = "sw" \/ \E i \in 1..Len(t.k) : HasSw(t.k[i])
RECURSIVE HasDyn(_)
HasDyn(t) == t.t \in {"vm", "ixa"} \/ \E i \in 1..Len(t.k) : HasDyn(t.k[i])
\* a switch built under jax.vmap has a vector index: the flags it pushes onto the other operand of an Or need
\* array leaves (Mask documents: a non-scalar flag must be a prefix of every leaf shape)
RECURSIVE SwVm(_)
SwVm(t) == (t.t = "vm" /\ HasSw(t)) \/ \E i \in 1..Len(t.k) : SwVm(t.k[i])
AllFloat(m) == \A q \in DOMAIN m : q # <<>> /\ CMLast(q) \in FltC
RECURSIVE VmOK(_)
VmOK(t) == /\ t.t \in {"emp", "ent", "ext", "msk", "flt", "sub", "or", "sw", "set", "dm"}
           /\ t.t \in {"ext", "sub"} => t.p[1] \in StatC
           /\ t.t = "set" => \A i \in 1..Len(t.p) : t.p[i] \in StatC
           /\ \A i \in 1..Len(t.k) : VmOK(t.k[i])
\* the second lane of a vmapped builder: same shape, other values / flags / switch index
RECURSIVE Perturb(_)
Perturb(t) == [t EXCEPT !.v = IF t.t \in {"ent", "set"} THEN (t.v % 3) + 1 ELSE IF t.t = "sw" THEN 1 - t.v ELSE t.v,
                        !.f = IF t.t = "msk" THEN ~t.f ELSE t.f,
                        !.k = [i \in 1..Len(t.k) |-> Perturb(t.k[i])]]

MapOK(m) == /\ \A q \in DOMAIN m : Len(CMStrip(q)) <= 3 /\ Len(q) <= 5
            /\ \A x, y \in DOMAIN m : ~CMConflict(x, y)

\* conditions on the top node (children meanings ms, own meaning mx)
WFTop(t, ms, mx) ==
          /\ t.t \in {"or", "dm"} => /\ ~(HasSw(t.k[1]) /\ HasSw(t.k[2]))
                                     /\ SwVm(t.k[1]) => AllFloat(ms[2])
                                     /\ SwVm(t.k[2]) => AllFloat(ms[1])
          /\ t.t = "dm" => t.k[1].t = "ent" /\ t.k[2].t = "ent"
          /\ t.t = "sub" => /\ ~SubBad(ms[1], t.p[1])
                            /\ SubHoists(ms[1], t.p[1]) => ~HasSw(t.k[1])
          /\ t.t = "vm"  => VmOK(t.k[1]) /\ t.k[2] = Perturb(t.k[1])
          /\ t.t = "ixa" => IxaOK(ms[1]) /\ ~HasSw(t.k[1])
          /\ t.t = "set" => t.p # <<>> /\ ~SwVm(t.k[1])
          \* a Switch object emptied by filter / get_submap stays in the real structure (it is not static_is_empty) but has
          \* no entry in the model: keep every switch visible, so that the scope rules for index steps can see it
          /\ HasSw(t) => DOMAIN mx # {}
          /\ MapOK(mx)
RECURSIVE WFT(_)
WFT(t) == /\ \A i \in 1..Len(t.k) : WFT(t.k[i])
          /\ LET ms == [i \in 1..Len(t.k) |-> M(t.k[i])] IN WFTop(t, ms, MTop(t, ms, FALSE))

---------------------------------------------------------------------------
\* Lookup: fold of CMSub.  Result [val, st, skip, hoist]:
\*   val 0 = none, 1..3 value;  st = structurally present (what `in` sees with traced flags)
RECURSIVE LookRes(_, _, _)
LookRes(m, p, h) ==
  IF p = <<>>
  THEN IF <<>> \in DOMAIN m
       THEN [val |-> IF m[<<>>].ok THEN m[<<>>].v ELSE 0, st |-> TRUE, skip |-> FALSE, hoist |-> h]
       ELSE [val |-> 0, st |-> FALSE, skip |-> (\E q \in DOMAIN m : Len(q) = 1 /\ q[1] \in FltC), hoist |-> h]
  ELSE IF SubBad(m, Head(p)) THEN [val |-> 0, st |-> FALSE, skip |-> TRUE, hoist |-> h]
  ELSE LookRes(CMSub(m, Head(p)), Tail(p), h \/ SubHoists(m, Head(p)))

ProbeSeq == << <<>>, <<"a">>, <<"b">>, <<"a", "a">>, <<"a", "b">>, <<"b", "a">>, <<"a", "b", "a">>,
               <<"0">>, <<"1">>, <<"0", "a">>, <<"1", "a">>, <<"0", "b">>, <<"1", "a", "b">>, <<"0", "b", "a">>,
               <<"a", "0">>, <<"a", "1">>, <<"b", "1">>, <<"a", "b", "0">>, <<"2", "a">>, <<"0", "0", "a">>,
               <<"c">>, <<"a", "c">>, <<"0", "c">> >>

\* expectation codes: val 0 none / 1..3 / 9 skip ; inT (traced) 0/1/9 ; inC (concrete) 0/1/9
LookCode(t, m, p) ==
  LET x == LookRes(m, p, FALSE)
      sk == x.skip \/ (x.hoist /\ HasSw(t))
      valid == IF x.val # 0 THEN 1 ELSE 0
      st == IF x.st THEN 1 ELSE 0
  IN  IF sk THEN <<9, 9, 9>>
      ELSE <<x.val, st, IF st = valid \/ ~HasDyn(t) THEN valid ELSE 9>>
Table(t) == LET m == M(t) IN [i \in 1..Len(ProbeSeq) |-> LookCode(t, m, ProbeSeq[i])]
TableFW(t) == IF HasDupDm(t) THEN LET m == MX(t, TRUE) IN [i \in 1..Len(ProbeSeq) |-> LookCode(t, m, ProbeSeq[i])] ELSE <<>>

\* get_selection: exactly the static parts of the map's addresses.
SelT(m) == {CMStrip(q) : q \in DOMAIN m}
SelC(m) == {CMStrip(q) : q \in {x \in DOMAIN m : m[x].ok}}
\* what is left of SelT when entries below an anchored index level are lost (classification of KF-C17-1 only)
SelNoAnch(m) == {CMStrip(q) : q \in {x \in DOMAIN m : \A i \in 1..Len(x) : x[i] \notin AnchC}}
SelNoAnchC(m) == {CMStrip(q) : q \in {x \in DOMAIN m : m[x].ok /\ \A i \in 1..Len(x) : x[i] \notin AnchC}}
Bits(D) == [i \in 1..Len(AddrSeq) |-> IF AddrSeq[i] \in D THEN 1 ELSE 0]
SelBitsC(t, m) == LET a == Bits(SelC(m))  b == Bits(SelT(m)) IN
                  [i \in 1..Len(AddrSeq) |-> IF a[i] = b[i] \/ ~HasDyn(t) THEN a[i] ELSE 9]
EmptyC(t, m) == LET a == ({x \in DOMAIN m : m[x].ok} = {})  b == (DOMAIN m = {}) IN
                IF a = b \/ ~HasDyn(t) THEN (IF a THEN 1 ELSE 0) ELSE 9

CaseRec(t, m) ==
  [term |-> t, tab |-> Table(t), tabFW |-> TableFW(t), selT |-> Bits(SelT(m)), selC |-> SelBitsC(t, m), selNA |-> Bits(SelNoAnch(m)), selNAC |-> Bits(SelNoAnchC(m)),
   emT |-> IF DOMAIN m = {} THEN 1 ELSE 0, emC |-> EmptyC(t, m), nsw |-> ~HasSw(t), swvm |-> SwVm(t), depth |-> depth]
\* In CMSpec (BFS) the variable r carries M(term), so that nothing is recomputed; in CMSpecRand r is the stream.
CMEmit  == Emit => PrintT(<<"CASE", ToJson(CaseRec(term, r))>>)
CMEmitR == Emit => PrintT(<<"CASE", ToJson(CaseRec(term, M(term)))>>)

---------------------------------------------------------------------------
\* Enumeration (C17).  Level 0: small alphabets (quick); Level 1: rich (thorough).
CONSTANT Level
EntPathsL == {<<"a">>, <<"b">>, <<"a", "b">>, <<"b", "a">>, <<"a", "a">>, <<>>}
InitAtoms == (IF Level = 0 THEN {TEmp, TEnt(<<"a">>, 1), TEnt(<<"b">>, 2), TEnt(<<"a", "b">>, 1), TEnt(<<"b", "a">>, 2)}
              ELSE {TEmp} \cup {TEnt(p, v) : p \in EntPathsL, v \in {1, 2, 3}})
             \cup {TDm(TEnt(<<"a">>, 1), TEnt(<<"b", "a">>, 2)), TDm(TEnt(<<"a">>, 1), TEnt(<<"a">>, 2))}
Partners  == IF Level = 0 THEN {TEnt(<<"a">>, 3), TEnt(<<"b">>, 1), TEnt(<<"a", "b">>, 3), TEnt(<<"b", "a">>, 3)}
             ELSE {TEnt(<<"a">>, 3), TEnt(<<"b">>, 1), TEnt(<<"a", "b">>, 3), TEnt(<<"b", "a">>, 3), TEnt(<<>>, 3),
                   TExt("0", TEnt(<<"a">>, 3)), TVm(TEnt(<<"a">>, 3), TEnt(<<"a">>, 1)),
                   TDm(TEnt(<<"a">>, 1), TEnt(<<"a">>, 2))}
FltIdx == IF Level = 0 THEN {3, 6, 7, 8} ELSE {1, 2, 3, 5, 6, 7, 8, 9, 10}
IxaIdx == IF Level = 0 THEN {2, 3} ELSE 1..Len(JS)
ExtC == {"a", "b", "0", "1"}
SubC == {"a", "b", "0", "1"}
Succs(t) == {TExt(c, t) : c \in ExtC} \cup {TSub(c, t) : c \in SubC}
            \cup {TMsk(TRUE, t), TMsk(FALSE, t), TVm(t, Perturb(t))}
            \cup {TFlt(i, t) : i \in FltIdx} \cup {TIxa(j, t) : j \in IxaIdx}
            \cup {TSet(p, 3, t) : p \in {<<"a">>, <<"b", "a">>, <<"0", "a">>}}
            \cup UNION {{TOr(t, x), TOr(x, t), TSw(0, t, x), TSw(1, t, x)} \cup (IF Level = 0 THEN {} ELSE {TSw(1, x, t), TSw(0, x, t)})
                     : x \in Partners}

CMInit == term \in InitAtoms /\ depth = 0 /\ r = M(term)
KidsM(x) == [i \in 1..Len(x.k) |-> IF x.k[i] = term THEN r ELSE M(x.k[i])]
CMNext == /\ depth < MaxDepth
          /\ depth' = depth + 1
          /\ \E x \in Succs(term) : LET ms == KidsM(x)  mx == MTop(x, ms, FALSE) IN
                /\ WFTop(x, ms, mx)
                /\ term' = x /\ r' = mx
CMSpec == CMInit /\ [][CMNext]_<<term, depth, r>>

\* LCG generation of deeper terms: returns [v, r].
GAtoms == << TEnt(<<"a">>, 1), TEnt(<<"b">>, 2), TEnt(<<"a", "b">>, 3), TEnt(<<"b", "a">>, 1), TEnt(<<"a", "a">>, 2),
             TEnt(<<"b", "b">>, 3), TEnt(<<"a">>, 3), TEnt(<<"b">>, 1), TEmp, TEnt(<<>>, 2) >>
GComp == <<"a", "b", "0", "1">>
RECURSIVE GenCM(_, _)
GenCM(rr, d) ==
  IF d = 0 \/ RPick(rr, 6) = 0
  THEN [v |-> GAtoms[RPick(RNext(rr), Len(GAtoms)) + 1], r |-> RNext(RNext(rr))]
  ELSE LET c == RPick(RNext(rr), 14)
           r2 == RNext(RNext(rr))
           a == RPick(r2, 12) IN
       IF c <= 7
       THEN LET x == GenCM(RNext(r2), d - 1) IN
            [v |-> CASE c = 0 -> TExt(GComp[(a % 4) + 1], x.v)
                     [] c = 1 -> TSub(GComp[(a % 4) + 1], x.v)
                     [] c = 2 -> TMsk(a % 2 = 0, x.v)
                     [] c = 3 -> TFlt((a % Len(SelCat)) + 1, x.v)
                     [] c = 4 -> TVm(x.v, Perturb(x.v))
                     [] c = 5 -> TIxa((a % Len(JS)) + 1, TVm(x.v, Perturb(x.v)))
                     [] c = 6 -> TSet(IF a % 2 = 0 THEN <<"a">> ELSE <<"b", "a">>, 3, x.v)
                     [] OTHER -> TExt(GComp[(a % 2) + 3], x.v),
             r |-> x.r]
       ELSE LET x == GenCM(RNext(r2), d - 1)
                y == GenCM(x.r, d - 1) IN
            [v |-> IF c <= 10 THEN TOr(x.v, y.v) ELSE TSw(a % 2, x.v, y.v), r |-> y.r]

\* keep the largest well-formed part of a generated term
Salvage(t) == IF WFT(t) THEN t
              ELSE IF Len(t.k) >= 1 /\ WFT(t.k[1]) THEN t.k[1]
              ELSE IF Len(t.k) >= 2 /\ WFT(t.k[2]) THEN t.k[2] ELSE TEmp
CMInitRand == \E i \in 1..NChains : LET g == GenCM(RSeed(Seed, i), MaxDepth) IN
                 term = Salvage(g.v) /\ r = g.r /\ depth = 0
CMNextRand == /\ depth < NPerChain
              /\ LET g == GenCM(r, MaxDepth) IN term' = Salvage(g.v) /\ r' = g.r
              /\ depth' = depth + 1
CMSpecRand == CMInitRand /\ [][CMNextRand]_<<term, depth, r>>

---------------------------------------------------------------------------
\* Role A: finite-map laws, stated at the level of LOOKUPS (independent of the entry-level definitions).
LKm(m, p) == LET x == LookRes(m, p, FALSE) IN IF x.skip THEN 9 ELSE x.val
AllProbes == {ProbeSeq[i] : i \in 1..Len(ProbeSeq)}
OkDom(m) == {q \in DOMAIN m : m[q].ok}
\* r = M(term) in CMSpec; K1 / K2 are the meanings of the children of the top node
K1 == M(term.k[1])
K2 == M(term.k[2])

LawOrLeft == term.t = "or" => LET ma == K1  mb == K2 IN \A p \in AllProbes :
               LET a == LKm(ma, p)  b == LKm(mb, p)  c == LKm(r, p) IN
               (a # 9 /\ b # 9 /\ c # 9) => c = (IF a # 0 THEN a ELSE b)
LawSet    == term.t = "set" => LET m0 == K1 IN
                               /\ term.p \in OkDom(r) /\ r[term.p].v = term.v
                               /\ \A q \in OkDom(m0) \ {term.p} : q \in OkDom(r) /\ r[q] = m0[q]
LawMask   == term.t = "msk" => IF term.f THEN r = K1
                               ELSE \A p \in AllProbes : LKm(r, p) \in {0, 9}
LawSwitch == term.t = "sw" => LET ms == M(term.k[term.v + 1]) IN \A p \in AllProbes :
               LET c == LKm(r, p)  s == LKm(ms, p) IN (c # 9 /\ s # 9) => c = s
LawFilter == term.t = "flt" => LET s == SelCat[term.v]  m0 == K1 IN
               /\ OkDom(r) = {q \in OkDom(m0) : CMStrip(q) \in Den(s)}
               /\ \A q \in OkDom(r) : r[q] = m0[q]
               /\ FltM(m0, All) = m0 /\ DOMAIN FltM(m0, None) = {}
               /\ FltM(r, s) = r
LawSelM(m) == /\ FltSetM(m, SelT(m)) = m
              /\ \A a \in Addr : a \in SelT(m) <=> \E q \in DOMAIN m : CMStrip(q) = a
              /\ SelC(m) \subseteq SelT(m)
\* index levels are transparent to selections
LawIdxTransparent == term.t = "ext" /\ term.p[1] \in AnchC => LET m0 == K1 IN
               \A i \in 1..Len(SelCat) : FltM(r, SelCat[i]) = PreM(term.p[1], FltM(m0, SelCat[i]))
LawExtSub == term.t = "ext" => LET m0 == K1 IN
                               /\ ~SubBad(r, term.p[1]) => CMSub(r, term.p[1]) = m0
                               /\ \A p \in AllProbes : LKm(r, <<term.p[1]>> \o p) \in {LKm(m0, p), 9}
LawVm     == term.t = "vm" => LET m0 == K1  m1 == K2 IN \A q \in DOMAIN m0 :
                 /\ r[q \o <<"~0">>] = m0[q] /\ r[q \o <<"~1">>] = m1[q]
LawSel    == LawSelM(r)
LawSelR   == LawSelM(M(term))
LawWF     == WFT(term)
LawMeaning == r = M(term)

---------------------------------------------------------------------------
\* C33: invalid_subset.  A model shape is the set of static address paths the model can trace
\* (switch: union of the branches; index nesting ignored).
S1 == {<<"a">>, <<"b", "a">>, <<"b", "b", "a">>}
S2 == {<<"a">>, <<"b", "a">>}
S4 == {<<"a">>, <<"b">>, <<"a", "b">>}
S8 == {<<"b", "a">>, <<"b", "b">>, <<"b", "a", "b">>}
ShapeNames == <<"static", "vmap", "scan", "switch", "mask", "repeat", "map", "static_switch", "static_mixed">>
ShapeSets  == <<S1, S1, S2, S4, S1, S1, S2, S8, S2>>
CandSeq == << <<"a">>, <<"b">>, <<"c">>, <<"a", "b">>, <<"a", "c">>, <<"b", "a">>, <<"b", "b">>, <<"b", "c">>,
              <<"b", "b", "a">>, <<"b", "a", "b">>, <<"b", "b", "c">>, <<"a", "a">> >>
CandIdx(p) == CHOOSE i \in 1..Len(CandSeq) : CandSeq[i] = p
InvalidSubsetM(m, Shape) == [q \in {x \in DOMAIN m : CMStrip(x) \notin Shape} |-> m[q]]

RECURSIVE EntPaths(_)
EntPaths(t) == IF t.t = "ent" THEN {t.p} ELSE IF t.t = "or" THEN EntPaths(t.k[1]) \cup EntPaths(t.k[2]) ELSE {}
LastIdx(t) == IF t.t = "or" THEN CandIdx(t.k[2].p) ELSE IF t.t = "ent" THEN CandIdx(t.p) ELSE 0
AddEnt(t, e) == IF t.t = "emp" THEN e ELSE TOr(t, e)
MaxInvalid == 2
InvInit == term = TEmp /\ depth = 0 /\ r \in 1..Len(ShapeNames)
InvNext == /\ depth < MaxDepth
           /\ depth' = depth + 1 /\ r' = r
           /\ \E i \in (LastIdx(term) + 1)..Len(CandSeq) : \E v \in {1, 2} :
                /\ v = ((i + depth) % 2) + 1
                /\ \A q \in EntPaths(term) : ~CMConflict(q, CandSeq[i])
                /\ Cardinality({q \in EntPaths(term) \cup {CandSeq[i]} : q \notin ShapeSets[r]}) <= MaxInvalid
                /\ term' = AddEnt(term, TEnt(CandSeq[i], v))
InvSpec == InvInit /\ [][InvNext]_<<term, depth, r>>

Wraps == <<"plain", "ix0", "ix1", "float", "ixa", "under">>
Wrap(w, t) == CASE w = "plain" -> t
                [] w = "ix0"   -> TExt("0", t)
                [] w = "ix1"   -> TExt("1", t)
                [] w = "float" -> TVm(t, Perturb(t))
                [] w = "ixa"   -> TIxa(2, TVm(t, Perturb(t)))
                [] w = "under" -> TOr(TExt("0", t), TExt("1", Perturb(t)))
\* probes: the map's own addresses and three fixed decoys, each plain / under index 0 / under index 1 / indexed at the leaf
InvProbeBase(t) == EntPaths(t) \cup {<<"c">>, <<"a">>, <<"b", "a">>}
InvProbes(t) == UNION {{p, <<"0">> \o p, <<"1">> \o p, p \o <<"0">>} : p \in InvProbeBase(t)}
RECURSIVE SetToSeq(_)
SetToSeq(S) == IF S = {} THEN <<>> ELSE LET x == CHOOSE y \in S : TRUE IN <<x>> \o SetToSeq(S \ {x})
InvCase(w) == LET t == Wrap(w, term)
                  inv == InvalidSubsetM(M(t), ShapeSets[r])
                  ps == SetToSeq(InvProbes(term)) IN
   [term |-> t, base |-> term, wrap |-> w, shape |-> ShapeNames[r], isnone |-> (DOMAIN inv = {}),
    ninv |-> Cardinality({q \in EntPaths(term) : q \notin ShapeSets[r]}), nent |-> Cardinality(EntPaths(term)),
    tab |-> [i \in 1..Len(ps) |-> LET x == LookRes(inv, ps[i], FALSE) IN <<ps[i], IF x.skip THEN 9 ELSE x.val>>]]
\* NChains = 0: print every wrapper of every map; otherwise one wrapper per map, rotating with Seed
\* (invalid_subset re-traces the model on each call, the quick tier cannot afford all six)
InvPick == ((r + depth + LastIdx(term) + Seed) % Len(Wraps)) + 1
InvEmit == Emit => \A i \in 1..Len(Wraps) :
              (NChains = 0 \/ i = InvPick \/ (i = 1 /\ depth <= 1)) => PrintT(<<"CASE", ToJson(InvCase(Wraps[i]))>>)

\* role A for C33: the invalid subset is a restriction, contains no traceable address, loses no untraceable one,
\* is insensitive to index nesting, and is empty iff every address is traceable.
LawInv == \A i \in 1..Len(Wraps) :
            LET t == Wrap(Wraps[i], term)  m == M(t)  inv == InvalidSubsetM(m, ShapeSets[r]) IN
            /\ WFT(t)
            /\ DOMAIN inv \subseteq DOMAIN m /\ \A q \in DOMAIN inv : inv[q] = m[q]
            /\ {CMStrip(q) : q \in DOMAIN inv} = EntPaths(term) \ ShapeSets[r]
            /\ (DOMAIN inv = {}) <=> (EntPaths(term) \subseteq ShapeSets[r])
            /\ InvalidSubsetM(inv, ShapeSets[r]) = inv
=============================================================================
