----------------------------- MODULE TimeTravel -----------------------------
(***************************************************************************)
(* C31.  The time-travel debugger of GenJAX (interpreters/time_travel.py). *)
(*                                                                         *)
(* time_machine(f)(args..) runs tag(rec(f,"_enter")(args..),"exit") and  *)
(* returns a debugger value (final_retval, sequence of frames, jump        *)
(* points, ptr).  A frame is one recorded call: its arguments, its local   *)
(* return value and the continuation of the program after that call.       *)
(* jump(tag) / fwd() / bwd() move the pointer, remix(args..) re-runs the    *)
(* rest of the program with the call at the pointer applied to new         *)
(* arguments.  The debugger is a genuine state machine:                    *)
(*      state   (frames, ptr, final)                                        *)
(*      actions Jump(t)  JumpMissing  Fwd  Bwd  Remix(args)                 *)
(*                                                                         *)
(* Programs are scalar JaxIR programs with `rec` equations (record points, *)
(* possibly nested one level: a recorded function that itself records).    *)
(*                                                                         *)
(* Two independent semantics of recording:                                 *)
(*  * OPERATIONAL (shape of the code): a CPS run RunEqs with an explicit   *)
(*    continuation stack K; every frame keeps (e, K) and Remix resumes      *)
(*    RunCall(e, newargs, K);                                               *)
(*  * DENOTATIONAL (the statement): DRun re-runs the WHOLE program in       *)
(*    direct style with an override map ov: "the k-th recorded call is     *)
(*    applied to ov[k] instead of its own arguments" -- remix at a frame   *)
(*    = re-running f with that call's result recomputed from the new       *)
(*    arguments.                                                            *)
(* Role A: RemixLaw (they agree in every reachable state), PtrInBounds,    *)
(* FrameOrder (frames = static pre-order of the record points), InitLaw    *)
(* (final = EvalProg(f, args), _enter / exit frames), RemixEnter.          *)
(* Role B: every behaviour of length <= MaxLen is printed (hist) with the  *)
(* expected (final, frames, ptr) for replay on the real debugger.          *)
(*                                                                         *)
(* Frames before the pointer are kept by remix.  For a frame that ENCLOSES *)
(* the remixed call (e.g. _enter) the kept local return value is the one   *)
(* of the earlier run, while a full re-run would report the new one; the   *)
(* statement does not say which, so the expectation lists both (ret, alt). *)
(***************************************************************************)
EXTENDS JaxIR

CONSTANTS Seed, NProg,     \* candidate programs GenSProg(RSeed(Seed, i)), i in 1..NProg (kept if 1..3 record points)
          MaxLen,          \* behaviours of at most MaxLen actions (KeepHist = TRUE)
          MaxNest,
          KeepHist,        \* FALSE: no history, no length bound (role A on the full state graph)
          Emit

VARIABLES pid, prog, inp, frames, ptr, final, ov, lo, hist, status
vars == <<pid, prog, inp, frames, ptr, final, ov, lo, hist, status>>

MaxFr == 8
NoOv == [j \in 1..MaxFr |-> <<>>]

IdProg(n) == Prog(n, <<>>, [j \in 1..n |-> V(j)])
\* what time_machine wraps around the source function P
Top(P) == LET no == Len(P.outs) IN
  Prog(P.nin,
       << Eq("rec", [j \in 1..P.nin |-> V(j)], 0, <<P>>, "_enter"),
          Eq("rec", [j \in 1..no |-> V(P.nin + j)], 0, <<IdProg(no)>>, "exit") >>,
       [j \in 1..no |-> V(P.nin + no + j)])

RECURSIVE NRecFrom(_, _), TagsFrom(_, _)
NRecFrom(p, i) == IF i > Len(p.eqs) THEN 0
                  ELSE (IF p.eqs[i].op = "rec" THEN 1 + NRecFrom(p.eqs[i].sub[1], 1) ELSE 0) + NRecFrom(p, i + 1)
NRec(p) == NRecFrom(p, 1)
\* static pre-order of the record points = order in which the calls are entered
TagsFrom(p, i) == IF i > Len(p.eqs) THEN <<>>
                  ELSE (IF p.eqs[i].op = "rec" THEN <<p.eqs[i].tg>> \o TagsFrom(p.eqs[i].sub[1], 1) ELSE <<>>) \o TagsFrom(p, i + 1)

---------------------------------------------------------------------------
\* OPERATIONAL: continuation-passing run.  K = stack of contexts [p, i, env]: "equation i of p, entered in env,
\* is the call being evaluated; when it returns, extend env with its outputs and go on with equation i+1".
RECURSIVE RunEqs(_, _, _, _, _), RunCall(_, _, _, _), RetK(_, _, _)
RunEqs(p, i, env, K, acc) ==
  IF i > Len(p.eqs) THEN RetK(K, Opnds(env, p.outs), acc)
  ELSE LET e == p.eqs[i] IN
       IF e.op = "rec"
       THEN LetIn(Opnds(env, e.ins), LAMBDA args : RunCall(e, args, <<[p |-> p, i |-> i, env |-> env]>> \o K, acc))
       ELSE LetIn(env \o EvalEq(e, env), LAMBDA env2 : RunEqs(p, i + 1, env2, K, acc))
RunCall(e, args, K, acc) ==
  RunEqs(e.sub[1], 1, args, K,
         Append(acc, [tag |-> e.tg, args |-> args, ret |-> EvalProg(e.sub[1], args), e |-> e, K |-> K]))
RetK(K, val, acc) ==
  IF K = <<>> THEN [final |-> val, frames |-> acc]
  ELSE LetIn(K[1], LAMBDA c : RunEqs(c.p, c.i + 1, c.env \o val, Tail(K), acc))

\* DENOTATIONAL: direct-style re-run of the whole program with overrides; k = index of the next recorded call.
RECURSIVE DEqs(_, _, _, _, _, _)
DEqs(p, i, env, o, k, acc) ==
  IF i > Len(p.eqs) THEN [outs |-> Opnds(env, p.outs), frames |-> acc, k |-> k]
  ELSE LET e == p.eqs[i] IN
       IF e.op = "rec"
       THEN LetIn(IF o[k] # <<>> THEN o[k] ELSE Opnds(env, e.ins), LAMBDA args :
              LetIn(DEqs(e.sub[1], 1, args, o, k + 1, <<>>), LAMBDA sub :
                 DEqs(p, i + 1, env \o sub.outs, o, sub.k,
                      acc \o <<[tag |-> e.tg, args |-> args, ret |-> sub.outs]>> \o sub.frames)))
       ELSE LetIn(env \o EvalEq(e, env), LAMBDA env2 : DEqs(p, i + 1, env2, o, k, acc))
DRun(P, x, o) == DEqs(Top(P), 1, x, o, 1, <<>>)

---------------------------------------------------------------------------
GenP(i) == LET s == RSeed(Seed, i) IN
  GenSProg(s, 1 + Dr(s, 70, 2), 2 + Dr(s, 71, 3), 0, MaxNest, 2, "", 1 + Dr(s, 72, 2))
GenInp(i, nin) == LET s == RSeed(Seed, i) IN Norm([j \in 1..nin |-> <<Dr(s, 73 + j, 3)>>])

Init == \E i \in 1..NProg :
          \E P \in {GenP(i)} :
            /\ NRec(P) \in 1..3
            /\ pid = i /\ prog = P
            /\ \E x \in {GenInp(i, P.nin)} :
                 /\ inp = x
                 /\ \E run \in {RunEqs(Top(P), 1, x, <<>>, <<>>)} :
                      frames = run.frames /\ final = run.final
            /\ ptr = 1 /\ ov = NoOv /\ lo = 0 /\ hist = <<>> /\ status = "ok"

Act(a, t, x) == [a |-> a, t |-> t, x |-> x]
Flat(vals) == Norm([j \in 1..Len(vals) |-> vals[j][1]])
Step(h) == /\ (KeepHist => Len(hist) < MaxLen)
           /\ hist' = IF KeepHist THEN Append(hist, h) ELSE hist
TagsPresent == {frames[j].tag : j \in 1..Len(frames)} \ {"none"}

Jump(t) == /\ t \in TagsPresent
           /\ Step(Act("jump", t, <<>>))
           /\ ptr' = CHOOSE j \in 1..Len(frames) : frames[j].tag = t
           /\ status' = "ok"
           /\ UNCHANGED <<pid, prog, inp, frames, final, ov, lo>>
\* a tag that was never recorded: nothing is documented; the state must not change (raising is accepted)
JumpMissing == /\ Step(Act("jump", "zz", <<>>))
               /\ status' = "missing"
               /\ UNCHANGED <<pid, prog, inp, frames, ptr, final, ov, lo>>
Fwd == /\ Step(Act("fwd", "", <<>>))
       /\ ptr' = IF ptr + 1 > Len(frames) THEN ptr ELSE ptr + 1
       /\ status' = "ok"
       /\ UNCHANGED <<pid, prog, inp, frames, final, ov, lo>>
Bwd == /\ Step(Act("bwd", "", <<>>))
       /\ ptr' = IF ptr - 1 < 1 THEN ptr ELSE ptr - 1
       /\ status' = "ok"
       /\ UNCHANGED <<pid, prog, inp, frames, final, ov, lo>>
RemixArgs(n) == IF n = 1 THEN { << <<0>> >>, << <<1>> >>, << <<2>> >> }
                ELSE { << <<0>>, <<1>> >>, << <<2>>, <<2>> >>, << <<1>>, <<0>> >> }
Remix(a) == /\ Step(Act("remix", "", Flat(a)))
            /\ \E res \in {RunCall(frames[ptr].e, a, frames[ptr].K, <<>>)} :
                 /\ frames' = SubSeq(frames, 1, ptr - 1) \o res.frames
                 /\ final' = res.final
            /\ ov' = [j \in 1..MaxFr |-> IF j < ptr THEN ov[j] ELSE IF j = ptr THEN a ELSE <<>>]
            /\ lo' = ptr
            /\ status' = "ok"
            /\ UNCHANGED <<pid, prog, inp, ptr>>
JumpAny  == \E t \in TagsPresent : Jump(t)
RemixAny == \E a \in RemixArgs(Len(frames[ptr].args)) : Remix(a)
Next == JumpAny \/ JumpMissing \/ Fwd \/ Bwd \/ RemixAny
Spec == Init /\ [][Next]_vars

---------------------------------------------------------------------------
\* Role A
PtrInBounds == ptr \in 1..Len(frames)
FrameOrder  == [j \in 1..Len(frames) |-> frames[j].tag] = <<"_enter">> \o TagsFrom(prog, 1) \o <<"exit">>
InitLaw == lo = 0 =>
   /\ final = EvalProg(prog, inp)
   /\ frames[1].args = inp /\ frames[1].ret = final
   /\ frames[Len(frames)].args = final /\ frames[Len(frames)].ret = final
   /\ \A j \in 1..Len(frames) : frames[j].ret = EvalProg(frames[j].e.sub[1], frames[j].args)
RemixLaw == \E d \in {DRun(prog, inp, ov)} :
   /\ final = d.outs
   /\ Len(frames) = Len(d.frames)
   /\ \A j \in 1..Len(frames) :
        /\ frames[j].tag = d.frames[j].tag
        /\ frames[j].args = d.frames[j].args
        /\ (j >= lo => frames[j].ret = d.frames[j].ret)
RemixEnter == (ov[1] # <<>> /\ \A j \in 2..MaxFr : ov[j] = <<>>) => final = EvalProg(prog, ov[1])
RemixExit  == (lo = Len(frames)) => final = frames[lo].args
RoleA == PtrInBounds /\ FrameOrder /\ InitLaw /\ RemixLaw /\ RemixEnter /\ RemixExit

\* Role B
Expected == \E d \in {DRun(prog, inp, ov)} :
  PrintT(<<"CASE", ToJson([pid |-> pid, hist |-> hist, status |-> status,
      final |-> Flat(final), ptr |-> ptr - 1,
      frames |-> [j \in 1..Len(frames) |-> [tag |-> frames[j].tag, args |-> Flat(frames[j].args),
                                            ret |-> Flat(frames[j].ret), alt |-> Flat(d.frames[j].ret)]]])>>)
EmitCase == Emit =>
  /\ (hist = <<>> => PrintT(<<"PROG", ToJson([pid |-> pid, prog |-> prog, inp |-> inp, kc |-> KConsts,
                                              nrec |-> NRec(prog)])>>))
  /\ Expected
=============================================================================
