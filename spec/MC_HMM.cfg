CONSTANTS MaxT = 3
SPECIFICATION Spec
INVARIANT FFBSIsPosterior
INVARIANT PosteriorSumsToOne
INVARIANT FFBSSumsToOne
INVARIANT ForwardIsEvidence
CHECK_DEADLOCK FALSE
