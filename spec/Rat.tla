-------------------------------- MODULE Rat ---------------------------------
(* Exact rationals <<num, den>> (den > 0, gcd-normalised), dual numbers over  *)
(* them, and conversion to fixed point.  Shared by Adev.tla and VI.tla.       *)
EXTENDS Integers, Sequences
S == 1024                 \* fixed-point scale of logged numbers (Adev)
\* Exact rationals <<num, den>>, den > 0, gcd-normalised.
AbsI(x) == IF x < 0 THEN -x ELSE x
RECURSIVE Gcd(_, _)
Gcd(a, b) == IF b = 0 THEN a ELSE Gcd(b, a % b)
QN(n, d) == LET s == IF d < 0 THEN -1 ELSE 1
                g == Gcd(AbsI(n), AbsI(d))
            IN  << (s * n) \div g, (s * d) \div g >>
Q0 == <<0, 1>>
Q1 == <<1, 1>>
QI(i) == <<i, 1>>
\* (cross-cancelling before multiplying keeps intermediate products below 2^31;
\*  TLC reports an overflow as an error, never silently)
QAddG(a, b, g) == QN(a[1] * (b[2] \div g) + b[1] * (a[2] \div g), (a[2] \div g) * b[2])
QAdd(a, b) == QAddG(a, b, Gcd(a[2], b[2]))
QSub(a, b) == QAdd(a, << -b[1], b[2] >>)
QMulG(a, b, g1, g2) == QN((a[1] \div g1) * (b[1] \div g2), (a[2] \div g2) * (b[2] \div g1))
QMul(a, b) == QMulG(a, b, Gcd(AbsI(a[1]), b[2]), Gcd(AbsI(b[1]), a[2]))
QDiv(a, b) == QMul(a, IF b[1] < 0 THEN << -b[2], -b[1] >> ELSE << b[2], b[1] >>)
QNeg(a) == << -a[1], a[2] >>
QLt(a, b) == a[1] * b[2] < b[1] * a[2]
\* nearest fixed-point integer of a rational (round half up)
ToFP(q) == (2 * q[1] * S + q[2]) \div (2 * q[2])

\* Dual numbers <<primal, tangent>> over rationals.
D0 == <<Q0, Q0>>
D1 == <<Q1, Q0>>
DC(q) == <<q, Q0>>
DAdd(x, y) == << QAdd(x[1], y[1]), QAdd(x[2], y[2]) >>
DSub(x, y) == << QSub(x[1], y[1]), QSub(x[2], y[2]) >>
DMul(x, y) == << QMul(x[1], y[1]), QAdd(QMul(x[1], y[2]), QMul(x[2], y[1])) >>
DScale(q, x) == << QMul(q, x[1]), QMul(q, x[2]) >>

DDiv(x, y) == << QDiv(x[1], y[1]), QDiv(QSub(QMul(x[2], y[1]), QMul(x[1], y[2])), QMul(y[1], y[1])) >>
=============================================================================
