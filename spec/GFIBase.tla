------------------------------ MODULE GFIBase ------------------------------
(***************************************************************************)
(* Values, expressions and small helpers shared by the GFI specification.  *)
(* Every value is a uniform record [t, i, k] so TLC never compares         *)
(* incomparable things:                                                    *)
(*   "i" integer i      "b" boolean (i = 0/1)      "n" None                 *)
(*   "t" tuple k        "v" stacked array k        "m" Mask: k = <<flag,v>> *)
(***************************************************************************)
EXTENDS Integers, Sequences, FiniteSets, TLC

I(n)     == [t |-> "i", i |-> n, k |-> <<>>]
Bv(b)    == [t |-> "b", i |-> IF b THEN 1 ELSE 0, k |-> <<>>]
Nn       == [t |-> "n", i |-> 0, k |-> <<>>]
Tp(s)    == [t |-> "t", i |-> 0, k |-> s]
Vc(s)    == [t |-> "v", i |-> 0, k |-> s]
Mk(f, v) == [t |-> "m", i |-> 0, k |-> <<f, v>>]
IsT(v)   == v.i = 1

RECURSIVE ZeroLike(_)
ZeroLike(v) == CASE v.t = "i" -> I(0)
                 [] v.t = "b" -> Bv(FALSE)
                 [] v.t = "n" -> Nn
                 [] v.t = "m" -> Mk(ZeroLike(v.k[1]), ZeroLike(v.k[2]))
                 [] OTHER     -> [v EXCEPT !.k = [j \in 1..Len(v.k) |-> ZeroLike(v.k[j])]]

\* where(flag, v, 0) elementwise; flag is a "b" or a stacked array of flags
RECURSIVE MaskVal(_, _)
MaskVal(f, v) == IF f.t = "b" THEN (IF IsT(f) THEN v ELSE ZeroLike(v))
                 ELSE \* f.t = "v": batch dimension; v is stacked along the same axis somewhere
                   CASE v.t = "v" -> Vc([j \in 1..Len(v.k) |-> MaskVal(f.k[j], v.k[j])])
                     [] v.t = "t" -> Tp([j \in 1..Len(v.k) |-> MaskVal(f, v.k[j])])
                     [] v.t = "m" -> Mk(MaskVal(f, v.k[1]), MaskVal(f, v.k[2]))
                     [] OTHER     -> v
MkN(f, v) == Mk(f, MaskVal(f, v))      \* normalised mask: invalid content is zero
\* the content of a mask whose (scalar) flag is False is not observable: compare it as None
RECURSIVE NormV(_)
NormV(v) == CASE v.t = "m" -> IF v.k[1].t = "b" /\ ~IsT(v.k[1]) THEN Mk(v.k[1], Nn) ELSE Mk(v.k[1], NormV(v.k[2]))
              [] v.t \in {"t", "v"} -> [v EXCEPT !.k = [j \in 1..Len(v.k) |-> NormV(v.k[j])]]
              [] OTHER -> v

\* Stack a non-empty sequence of equally shaped values along a new leading axis
\* (struct-of-arrays, as jax.vmap / lax.scan return them).
RECURSIVE Stack(_)
Stack(rs) == LET h == rs[1] IN
  CASE h.t \in {"i", "b", "v"} -> Vc(rs)
    [] h.t = "n" -> Nn
    [] h.t = "t" -> Tp([j \in 1..Len(h.k) |-> Stack([i \in 1..Len(rs) |-> rs[i].k[j]])])
    [] h.t = "m" -> Mk(Stack([i \in 1..Len(rs) |-> rs[i].k[1]]), Stack([i \in 1..Len(rs) |-> rs[i].k[2]]))

\* Element i of a value stacked along its leading axis (inverse of Stack)
RECURSIVE Unstack(_, _)
Unstack(v, i) == CASE v.t = "v" -> v.k[i]
                   [] v.t = "t" -> Tp([j \in 1..Len(v.k) |-> Unstack(v.k[j], i)])
                   [] v.t = "m" -> Mk(Unstack(v.k[1], i), Unstack(v.k[2], i))
                   [] OTHER     -> v
RECURSIVE LeadLen(_)
LeadLen(v) == CASE v.t = "v" -> Len(v.k)
                [] v.t \in {"t", "m"} -> LeadLen(v.k[IF v.t = "m" THEN 2 ELSE 1])
                [] OTHER -> 0

---------------------------------------------------------------------------
\* Paths and finite maps over paths
IsPrefixP(p, a) == Len(a) >= Len(p) /\ \A i \in 1..Len(p) : p[i] = a[i]
DropP(a, n) == SubSeq(a, n + 1, Len(a))
EmptyF == [x \in {} |-> 0]
SubMap(p, f) == [q \in {DropP(a, Len(p)) : a \in {a \in DOMAIN f : IsPrefixP(p, a)}} |-> f[p \o q]]
PrefixMap(p, f) == [q \in {p \o a : a \in DOMAIN f} |-> f[DropP(q, Len(p))]]
RestrictF(f, S) == [a \in (DOMAIN f \cap S) |-> f[a]]
RECURSIVE SumF(_, _)
SumF(f, S) == IF S = {} THEN 0 ELSE LET a == CHOOSE a \in S : TRUE IN f[a] + SumF(f, S \ {a})
SumAll(f) == SumF(f, DOMAIN f)
IdxStr(i) == ToString(i)                      \* index components are decimal strings
IsIdx(c) == c \in {"0", "1", "2", "3", "4", "5"}
RECURSIVE StaticPart(_)
StaticPart(a) == IF a = <<>> THEN <<>> ELSE
                 IF IsIdx(Head(a)) THEN StaticPart(Tail(a)) ELSE <<Head(a)>> \o StaticPart(Tail(a))

Clamp(i, n) == IF i < 0 THEN 0 ELSE IF i > n - 1 THEN n - 1 ELSE i
AbsI(x) == IF x < 0 THEN -x ELSE x
TOL == 64                                      \* fixed point x256: 0.25 nat
Close(a, b) == AbsI(a - b) <= TOL

---------------------------------------------------------------------------
\* Selections (same term language and meaning as Selections.tla, pointwise)
PrefixMatch(p, a) == Len(a) >= Len(p) /\ \A i \in 1..Len(p) : p[i] = "*" \/ p[i] = a[i]
ExactMatch(p, a)  == Len(a) = Len(p) /\ \A i \in 1..Len(p) : p[i] = "*" \/ p[i] = a[i]
RECURSIVE InSel(_, _)
InSel(s, a) == CASE s.t = "all"  -> TRUE
                 [] s.t = "none" -> FALSE
                 [] s.t = "leaf" -> a = <<>>
                 [] s.t = "at"   -> PrefixMatch(s.p, a)
                 [] s.t = "lf"   -> ExactMatch(s.p, a)
                 [] s.t = "or"   -> InSel(s.k[1], a) \/ InSel(s.k[2], a)
                 [] s.t = "and"  -> InSel(s.k[1], a) /\ InSel(s.k[2], a)
                 [] s.t = "not"  -> ~InSel(s.k[1], a)
Selected(s, a) == InSel(s, StaticPart(a))      \* index levels are transparent

---------------------------------------------------------------------------
\* Tables of dyadic categorical distributions: row r of table t = log2-probabilities of the values 0,1,2
LTab == << << <<-1, -2, -2>>, <<-2, -1, -2>>, <<-2, -2, -1>> >>,      \* table 1: mode follows the parent
           << <<-2, -2, -1>>, <<-1, -2, -2>>, <<-1, -2, -2>> >> >>     \* table 2
LRow(t, r) == Vc([j \in 1..3 |-> I(LTab[t][r + 1][j])])

\* Expressions of the static language / dimap maps:  [e, i, k]
\*  arg i | xarg i | site i | const c | lit c | add(a,b) mod 3 | tup(..) | ix(e, i) | none | lrow t (index expr)
Ex(e, i, k) == [e |-> e, i |-> i, k |-> k]
RECURSIVE EvalE(_, _, _, _)
EvalE(x, args, xargs, env) ==
  CASE x.e = "arg"   -> args[x.i]
    [] x.e = "xarg"  -> xargs[x.i]
    [] x.e = "site"  -> env[x.i]
    [] x.e \in {"const", "lit"} -> I(x.i)
    [] x.e = "none"  -> Nn
    [] x.e = "add"   -> I((EvalE(x.k[1], args, xargs, env).i + EvalE(x.k[2], args, xargs, env).i) % 3)
    [] x.e = "tup"   -> Tp([j \in 1..Len(x.k) |-> EvalE(x.k[j], args, xargs, env)])
    [] x.e = "ix"    -> EvalE(x.k[1], args, xargs, env).k[x.i]
    [] x.e = "lrow"  -> LRow(x.i, IF x.k = <<>> THEN 0 ELSE EvalE(x.k[1], args, xargs, env).i)
\* may the value of x differ / be tagged Unknown, given taint of args and sites
RECURSIVE TaintE(_, _, _, _)
TaintE(x, targs, txargs, tenv) ==
  CASE x.e = "arg"  -> targs[x.i]
    [] x.e = "xarg" -> txargs[x.i]
    [] x.e = "site" -> tenv[x.i]
    [] x.e \in {"const", "lit", "none"} -> FALSE
    [] OTHER -> \E j \in 1..Len(x.k) : TaintE(x.k[j], targs, txargs, tenv)
=============================================================================
