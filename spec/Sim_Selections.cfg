CONSTANTS MaxDepth = 4
 Seed = 0
 NChains = 16
 NPerChain = 100
 Emit = TRUE
SPECIFICATION SpecRand
INVARIANT EmitCase
INVARIANT MemIsDen
INVARIANT RawIsDen
INVARIANT SubLaw
CHECK_DEADLOCK FALSE
