--------------------------------- MODULE VI ---------------------------------
(***************************************************************************)
(* Variational objectives of genjax/_src/inference/vi.py (ELBO, IWELBO,    *)
(* PWake, QWake) on model/guide pairs with closed-form objectives.         *)
(*                                                                         *)
(* Discrete family: model(ph, w):  x ~ flip(pe(ph,w)); y ~ flip(lik[x]),   *)
(* y observed; guide q: x ~ flip(qe(ph,w)); posterior approximation r:     *)
(* x ~ flip(re(ph,w)).  Every objective is a finite sum                    *)
(*      L = Sum_xs W(xs) * Sum_k s_k ln R_k(xs)                            *)
(* with W a product of guide probabilities and R_k rational functions of   *)
(* the parameters (dual numbers over exact rationals, Rat.tla).  Natural   *)
(* logarithms of the (finitely many) rationals R_k are reference inputs    *)
(* (table LN, computed with math.log by the driver); everything else is    *)
(* exact.  grad L = Sum dW * Sum s ln R  +  W * Sum s dR/R.                *)
(* vi.py returns the gradient of the LOSS = minus the objective.           *)
(*                                                                         *)
(* Gaussian family: mu ~ N(0, s0), y ~ N(mu, sy) observed, guide           *)
(* mu ~ normal_reparam(a, b): pointwise pathwise laws relating the two     *)
(* components (d/da, d/db) of one gradient estimate, the noise being       *)
(* inferred from the first component.                                      *)
(***************************************************************************)
EXTENDS Integers, Sequences, FiniteSets, TLC, Json, IOUtils, Rat

SV == 4096                      \* fixed-point scale of logged gradients and of LN
ToFPV(q) == (q[1] \div q[2]) * SV + ((q[1] % q[2]) * 2 * SV + q[2]) \div (2 * q[2])
MulQ(q, v) == (2 * q[1] * v + q[2]) \div (2 * q[2])          \* round(q * v), v a fixed-point int
Diff(a, b) == IF a >= b THEN a - b ELSE b - a
Close(a, b, tol) == Diff(a, b) <= tol

\* expressions over the two parameters
Ex(op, q, k) == [op |-> op, q |-> q, k |-> k]
C(n, d) == Ex("c", <<n, d>>, <<>>)
Ph == Ex("ph", Q0, <<>>)
Wp == Ex("w", Q0, <<>>)
Add(a, b) == Ex("add", Q0, <<a, b>>)
Sub(a, b) == Ex("sub", Q0, <<a, b>>)
Mul(a, b) == Ex("mul", Q0, <<a, b>>)
RECURSIVE Ev(_, _, _)
Ev(e, phD, wD) ==
  CASE e.op = "c"   -> DC(e.q)
    [] e.op = "ph"  -> phD
    [] e.op = "w"   -> wD
    [] e.op = "add" -> DAdd(Ev(e.k[1], phD, wD), Ev(e.k[2], phD, wD))
    [] e.op = "sub" -> DSub(Ev(e.k[1], phD, wD), Ev(e.k[2], phD, wD))
    [] e.op = "mul" -> DMul(Ev(e.k[1], phD, wD), Ev(e.k[2], phD, wD))

\* a case: objective, particles, kind of the sampling guide, probability expressions, likelihood, observation
Case(obj, n, gk, qe, pe, re, lik, y) ==
  [obj |-> obj, n |-> n, gk |-> gk, qe |-> qe, pe |-> pe, re |-> re, lik |-> lik, y |-> y]

\* parameter point pt = <<phn, wn>> (quarters), direction d (1 = d/dph, 2 = d/dw)
PhD(pt, d) == << QN(pt[1], 4), IF d = 1 THEN Q1 ELSE Q0 >>
WD(pt, d)  == << QN(pt[2], 4), IF d = 2 THEN Q1 ELSE Q0 >>
Flip1(p1, x) == IF x = 1 THEN p1 ELSE DSub(D1, p1)
QD(c, x, pt, d) == Flip1(Ev(c.qe, PhD(pt, d), WD(pt, d)), x)         \* guide
RD(c, x, pt, d) == Flip1(Ev(c.re, PhD(pt, d), WD(pt, d)), x)         \* posterior approximation
LikQ(c, x) == IF c.y = 1 THEN c.lik[x + 1] ELSE QSub(Q1, c.lik[x + 1])
PJ(c, x, pt, d) == DScale(LikQ(c, x), Flip1(Ev(c.pe, PhD(pt, d), WD(pt, d)), x))   \* p(x, y)
Ratio(c, x, pt, d) == DDiv(PJ(c, x, pt, d), QD(c, x, pt, d))

Term(w, rs) == [w |-> w, rs |-> rs]
\* (tuples, so that each term is evaluated once)
T1(c, x, pt, d) ==
  CASE c.obj = "ELBO"   -> Term(QD(c, x, pt, d), << <<1, QD(c, x, pt, d)>>, <<-1, PJ(c, x, pt, d)>> >>)
    [] c.obj = "IWELBO" -> Term(QD(c, x, pt, d), << <<-1, Ratio(c, x, pt, d)>> >>)
    [] c.obj = "PWAKE"  -> Term(RD(c, x, pt, d), << <<-1, PJ(c, x, pt, d)>> >>)
    [] c.obj = "QWAKE"  -> Term(RD(c, x, pt, d), << <<-1, QD(c, x, pt, d)>> >>)
T2(c, x1, x2, pt, d) == Term(DMul(QD(c, x1, pt, d), QD(c, x2, pt, d)),
                             << <<-1, DScale(<<1, 2>>, DAdd(Ratio(c, x1, pt, d), Ratio(c, x2, pt, d)))>> >>)
Terms(c, pt, d) ==
  IF c.obj = "IWELBO" /\ c.n = 2
  THEN << T2(c, 0, 0, pt, d), T2(c, 0, 1, pt, d), T2(c, 1, 0, pt, d), T2(c, 1, 1, pt, d) >>
  ELSE << T1(c, 0, pt, d), T1(c, 1, pt, d) >>

\* reference table of natural logarithms: sequence of [n, d, v] with v = round(SV * ln(n/d))
LN == JsonDeserialize(IOEnv.LN_FILE)
Ln(q) == LN[CHOOSE i \in 1..Len(LN) : LN[i].n = q[1] /\ LN[i].d = q[2]].v

RECURSIVE LnSumFrom(_, _), TanSumFrom(_, _)
LnSumFrom(rs, k) == IF k > Len(rs) THEN 0 ELSE rs[k][1] * Ln(rs[k][2][1]) + LnSumFrom(rs, k + 1)
TanSumFrom(rs, k) == IF k > Len(rs) THEN Q0
                     ELSE QAdd(QMul(QI(rs[k][1]), QDiv(rs[k][2][2], rs[k][2][1])), TanSumFrom(rs, k + 1))
LnSum(rs) == LnSumFrom(rs, 1)
TanSum(rs) == TanSumFrom(rs, 1)

\* gradient (fixed point) when the weights are enumerated by ADEV (flip_enum / categorical_enum)
RECURSIVE GradFrom(_, _)
GradFrom(ts, i) == IF i > Len(ts) THEN 0
                   ELSE MulQ(ts[i].w[2], LnSum(ts[i].rs)) + ToFPV(QMul(ts[i].w[1], TanSum(ts[i].rs))) + GradFrom(ts, i + 1)
GradEnum(c, pt, d) == GradFrom(Terms(c, pt, d), 1)
RECURSIVE ValFrom(_, _)
ValFrom(ts, i) == IF i > Len(ts) THEN 0 ELSE MulQ(ts[i].w[1], LnSum(ts[i].rs)) + ValFrom(ts, i + 1)
Value(c, pt) == ValFrom(Terms(c, pt, 1), 1)                           \* the loss itself
\* the guide's sample is drawn by an ordinary (non-ADEV) distribution: pointwise gradient at x, probability W
GradAt(c, pt, d, x) == ToFPV(TanSum(Terms(c, pt, d)[x + 1].rs))
ProbAt(c, pt, x) == Terms(c, pt, 1)[x + 1].w[1]

RECURSIVE SetSeq(_)
SetSeq(s) == IF s = {} THEN <<>> ELSE LET x == CHOOSE y \in s : TRUE IN <<x>> \o SetSeq(s \ {x})
Evidence(c, pt) == QAdd(PJ(c, 0, pt, 1)[1], PJ(c, 1, pt, 1)[1])       \* p(y)
NeedOf(c, pt) == LET ts == Terms(c, pt, 1) IN
                 UNION {{ts[i].rs[k][2][1] : k \in 1..Len(ts[i].rs)} : i \in 1..Len(ts)} \cup {Evidence(c, pt)}

---------------------------------------------------------------------------
\* Catalogue of cases.
L13 == << <<1, 4>>, <<3, 4>> >>
L31 == << <<3, 4>>, <<1, 4>> >>
HalfPh == Add(Mul(C(1, 2), Ph), C(1, 4))
Cases == <<
  Case("ELBO", 1, "flip_enum", Ph, C(1, 2), Ph, L13, 1),                 \* q = posterior at ph = 3/4
  Case("ELBO", 1, "flip_enum", Mul(Ph, Ph), Wp, Ph, L13, 0),
  Case("ELBO", 1, "flip_enum", Sub(C(1, 1), Ph), Sub(C(1, 1), Mul(C(1, 2), Wp)), Ph, L31, 1),
  Case("ELBO", 1, "flip_enum", Mul(Ph, Wp), Wp, Ph, L13, 1),            \* guide shares the model parameter
  Case("ELBO", 1, "cat_enum", Ph, Wp, Ph, L13, 1),
  Case("IWELBO", 1, "flip_enum", Ph, Wp, Ph, L13, 1),
  Case("IWELBO", 2, "flip_enum", Ph, Wp, Ph, L13, 1),
  Case("IWELBO", 2, "flip_enum", HalfPh, C(1, 2), Ph, L31, 0),
  Case("PWAKE", 1, "flip_enum", Ph, Wp, Ph, L13, 1),
  Case("PWAKE", 1, "flip_enum", Ph, Mul(Wp, Wp), HalfPh, L31, 0),
  Case("PWAKE", 1, "plain", Ph, Wp, Ph, L13, 1),
  Case("PWAKE", 1, "plain", Ph, Sub(C(1, 1), Mul(C(1, 2), Wp)), C(1, 4), L31, 1),
  Case("QWAKE", 1, "flip_enum", Ph, Wp, Wp, L13, 1),
  Case("QWAKE", 1, "flip_enum", Mul(Ph, Wp), Wp, HalfPh, L13, 1),
  Case("QWAKE", 1, "plain", Ph, Wp, Wp, L13, 1),
  Case("QWAKE", 1, "plain", Mul(Ph, Ph), Wp, C(3, 4), L13, 1)
>>
Grid == {<<a, b>> : a \in 1..3, b \in 1..3}

\* Gaussian family cases: objective and the pathwise law it must satisfy (see GaussOk)
GCase(obj, i0q, iyq, yq) == [obj |-> obj, i0q |-> i0q, iyq |-> iyq, yq |-> yq]
GCases == << GCase("ELBO", 1, 4, 6), GCase("ELBO", 4, 1, -2), GCase("IWELBO1", 1, 4, 6), GCase("PWAKE", 1, 4, 6),
             GCase("QWAKE", 1, 4, 6), GCase("QWAKE0", 1, 4, 6) >>

AsElbo(c) == [c EXCEPT !.obj = "ELBO", !.n = 1]
AsIw(c, n) == [c EXCEPT !.obj = "IWELBO", !.n = n]
\* diagnostic alternative: the ELBO without its entropy term, L = - Sum_x q(x) ln p(x, y)
AsNoEntropy(c) == [c EXCEPT !.obj = "PWAKE", !.re = c.qe]

VARIABLES ci, pt, stage
vars == <<ci, pt, stage>>
Init == ci \in 1..Len(Cases) /\ pt \in Grid /\ stage = 0
Next == UNCHANGED vars
Spec == Init /\ [][Next]_vars

NeedAll(c, p) == NeedOf(c, p) \cup (IF c.obj \in {"ELBO", "IWELBO"}
                                     THEN NeedOf(AsElbo(c), p) \cup NeedOf(AsIw(c, 1), p) \cup NeedOf(AsIw(c, 2), p) ELSE {})
EmitNeed == /\ PrintT(<<"NEED", ToJson([need |-> SetSeq(NeedAll(Cases[ci], pt))])>>)
            /\ (pt = <<1, 1>>) => PrintT(<<"CASE", ToJson([ci |-> ci, c |-> Cases[ci]])>>)
            /\ (pt = <<1, 1>> /\ ci = 1) => \A i \in 1..Len(GCases) : PrintT(<<"GCASE", ToJson([gi |-> i, c |-> GCases[i]])>>)

---------------------------------------------------------------------------
\* Role A: theorems about the objectives as specified.
RECURSIVE SumW(_, _, _)
SumW(ts, i, j) == IF i > Len(ts) THEN Q0 ELSE QAdd(ts[i].w[j], SumW(ts, i + 1, j))
Normalised == \A d \in {1, 2} : SumW(Terms(Cases[ci], pt, d), 1, 1) = Q1 /\ SumW(Terms(Cases[ci], pt, d), 1, 2) = Q0
ProbsOk == \A x \in {0, 1} : /\ QLt(Q0, QD(Cases[ci], x, pt, 1)[1]) /\ QLt(Q0, RD(Cases[ci], x, pt, 1)[1])
                             /\ QLt(Q0, PJ(Cases[ci], x, pt, 1)[1])
\* every loss is an upper bound of minus the log evidence for the evidence-bounding objectives, and
\* more particles tighten it:  -ln p(y) <= L_IW2 <= L_IW1 = L_ELBO
Bounds == LET c == Cases[ci] IN
  c.obj \in {"ELBO", "IWELBO"} =>
     /\ Value(AsIw(c, 2), pt) >= -Ln(Evidence(c, pt)) - 3
     /\ Value(AsIw(c, 2), pt) <= Value(AsIw(c, 1), pt) + 3
     /\ Close(Value(AsIw(c, 1), pt), Value(AsElbo(c), pt), 3)
     /\ \A d \in {1, 2} : Close(GradEnum(AsIw(c, 1), pt, d), GradEnum(AsElbo(c), pt, d), 3)
\* hand-derived closed form of the ELBO gradient: dL/dph = q1' (logit q1 - logit posterior(x=1|y)) when only
\* the guide depends on ph; and the loss is tight with zero gradient when the guide is the exact posterior
Q1D(c, d) == Ev(c.qe, PhD(pt, d), WD(pt, d))
ElboClosedForm == LET c == Cases[ci] IN
  (c.obj = "ELBO" /\ Ev(c.pe, PhD(pt, 1), WD(pt, 1))[2] = Q0) =>
     Close(GradEnum(c, pt, 1),
           MulQ(Q1D(c, 1)[2], Ln(Q1D(c, 1)[1]) - Ln(QSub(Q1, Q1D(c, 1)[1])) - Ln(PJ(c, 1, pt, 1)[1]) + Ln(PJ(c, 0, pt, 1)[1])), 4)
Posterior1(c) == QDiv(PJ(c, 1, pt, 1)[1], Evidence(c, pt))
Tight == LET c == Cases[ci] IN
  (c.obj = "ELBO" /\ Q1D(c, 1)[1] = Posterior1(c)) =>
     /\ Close(Value(c, pt), -Ln(Evidence(c, pt)), 3)
     /\ Ev(c.pe, PhD(pt, 1), WD(pt, 1))[2] = Q0 => Close(GradEnum(c, pt, 1), 0, 3)

\* Gaussian laws, checked exactly over rationals for a few noise values: with x = a + b eps,
\* D(x) = x (i0 + iy) - y iy, the gradient of each loss w.r.t. (a, b) is
\*   ELBO  : (D, D eps - 1/b)      PWAKE : (D, D eps)
\*   QWAKE (sample x = 2a + b eps scored by N(a, b)) : u = a + b eps, (u / b^2, 1/b - u a / b^3 ... ) see GaussLawQ
EpsSet == {<<-2, 1>>, <<-1, 2>>, <<0, 1>>, <<1, 1>>, <<3, 2>>}
GaussExact == ci = 1 =>
  \A e \in EpsSet : \A g \in {GCases[i] : i \in 1..Len(GCases)} :
    LET a == QN(pt[1], 4)  b == QN(pt[2] * 2, 4)
        i0 == QN(g.i0q, 4) iy == QN(g.iyq, 4) y == QN(g.yq, 4)
        x == QAdd(a, QMul(b, e))
        D == QSub(QMul(x, QAdd(i0, iy)), QMul(y, iy))
        ga == D
        gbE == QSub(QMul(D, e), QDiv(Q1, b))
        \* inference used by the trace spec: x from ga, eps from x
        xi == QDiv(QAdd(ga, QMul(y, iy)), QAdd(i0, iy))
        ei == QDiv(QSub(xi, a), b)
    IN  /\ xi = x /\ ei = e
        /\ gbE = QSub(QMul(ga, ei), QDiv(Q1, b))
        \* QWAKE: u = a + b eps, loss = ln b + u^2/(2 b^2): d/da = u/b^2, d/db = 1/b + u eps/b^2 - u^2/b^3
        /\ LET u == QAdd(a, QMul(b, e))
               qa == QDiv(u, QMul(b, b))
               qb == QSub(QAdd(QDiv(Q1, b), QDiv(QMul(u, e), QMul(b, b))), QDiv(QMul(u, u), QMul(b, QMul(b, b))))
           IN  QMul(qb, b) = QSub(Q1, QMul(qa, a))

---------------------------------------------------------------------------
\* Trace validation (events logged by harness/eng_vi.py).
Log == JsonDeserialize(IOEnv.TRACE_FILE)
ObjClause(obj) == CASE obj = "ELBO" -> "C30.elbo" [] obj = "IWELBO" -> "C30.iwelbo" [] obj = "IWELBO1" -> "C30.iwelbo"
                    [] obj = "PWAKE" -> "C30.pwake" [] obj \in {"QWAKE", "QWAKE0"} -> "C30.qwake"
TolG(x) == 24 + AbsI(x) \div 256

EnumMatches(ev, c) == \A i \in 1..Len(ev.outs) : \A d \in {1, 2} :
                          Close(ev.outs[i][d], GradEnum(c, <<ev.phn, ev.wn>>, d), TolG(ev.outs[i][d]))
EnumVerdict(ev) ==
  IF ev.status # "ok" THEN ObjClause(ev.c.obj) \o ".run"
  ELSE IF EnumMatches(ev, ev.c) THEN "ok" ELSE ObjClause(ev.c.obj)
\* diagnosis of a failing ELBO estimate: is it the exact gradient of the objective WITHOUT the entropy term?
EnumDiag(ev) == IF ev.status = "ok" /\ ev.c.obj = "ELBO" /\ ~EnumMatches(ev, ev.c) /\ EnumMatches(ev, AsNoEntropy(ev.c))
                THEN "no-entropy-term" ELSE "none"

MatchX(ev, o) == {x \in {0, 1} : \A d \in {1, 2} : Close(o[d], GradAt(ev.c, <<ev.phn, ev.wn>>, d, x), TolG(o[d]))}
RECURSIVE CountX(_, _, _)
CountX(ev, W, i) == IF i > Len(ev.outs) THEN 0 ELSE (IF MatchX(ev, ev.outs[i]) = W THEN ev.outs[i][3] ELSE 0) + CountX(ev, W, i + 1)
ProbSet(ev, W) == IF W = {0, 1} THEN Q1 ELSE ProbAt(ev.c, <<ev.phn, ev.wn>>, CHOOSE x \in W : TRUE)
PlainVerdict(ev) ==
  IF ev.status # "ok" THEN ObjClause(ev.c.obj) \o ".run"
  ELSE IF \E i \in 1..Len(ev.outs) : MatchX(ev, ev.outs[i]) = {} THEN ObjClause(ev.c.obj)
  ELSE IF \A W \in {MatchX(ev, ev.outs[i]) : i \in 1..Len(ev.outs)} :
            Diff(CountX(ev, W, 1) * ProbSet(ev, W)[2], ev.n * ProbSet(ev, W)[1]) <= ev.hb * ProbSet(ev, W)[2]
       THEN "ok" ELSE ObjClause(ev.c.obj) \o ".freq"

\* Gaussian family: a = an/4, b = bn/4; o = <<ga, gb>> fixed point
GA(ev) == ev.an * (SV \div 4)
GB(ev) == ev.bn * (SV \div 4)
GX(ev, o) == (16 * o[1] + ev.c.iyq * ev.c.yq * SV) \div (4 * (ev.c.i0q + ev.c.iyq))
GEps(ev, o) == ((GX(ev, o) - GA(ev)) * SV) \div GB(ev)
InvB(ev) == (SV * SV) \div GB(ev)
GaussExpect(ev, o) ==
  CASE ev.c.obj \in {"ELBO", "IWELBO1"} -> (o[1] * GEps(ev, o)) \div SV - InvB(ev)
    [] ev.c.obj = "PWAKE" -> (o[1] * GEps(ev, o)) \div SV
    [] ev.c.obj = "QWAKE" -> (SV * SV - o[1] * GA(ev)) \div GB(ev)
    [] ev.c.obj = "QWAKE0" -> InvB(ev)
GaussOutOk(ev, o) ==
  /\ ev.c.obj = "QWAKE0" => Close(o[1], 0, 8)
  /\ (ev.c.obj \in {"QWAKE", "QWAKE0"} \/ AbsI(GEps(ev, o)) <= 6 * SV) => Close(o[2], GaussExpect(ev, o), TolG(GaussExpect(ev, o)) + 16)
GaussDiag(ev) == IF ev.status = "ok" /\ ev.c.obj \in {"ELBO", "IWELBO1"} /\ ~(\A i \in 1..Len(ev.outs) : GaussOutOk(ev, ev.outs[i]))
                    /\ (\A i \in 1..Len(ev.outs) : GaussOutOk([ev EXCEPT !.c.obj = "PWAKE"], ev.outs[i]))
                 THEN "no-entropy-term" ELSE "none"
GaussVerdict(ev) ==
  IF ev.status # "ok" THEN ObjClause(ev.c.obj) \o ".run"
  ELSE IF \A i \in 1..Len(ev.outs) : GaussOutOk(ev, ev.outs[i]) THEN "ok" ELSE ObjClause(ev.c.obj)

Verdict(ev) == CASE ev.kind = "enum" -> EnumVerdict(ev) [] ev.kind = "plain" -> PlainVerdict(ev) [] ev.kind = "gauss" -> GaussVerdict(ev)

Diag(ev) == CASE ev.kind = "enum" -> EnumDiag(ev) [] ev.kind = "gauss" -> GaussDiag(ev) [] OTHER -> "none"

InitT == ci = 0 /\ pt = <<0, 0>> /\ stage = 0
NextT == /\ stage < Len(Log) /\ stage' = stage + 1
         /\ PrintT(<<"VERDICT", ToJson([id |-> Log[stage + 1].id, clause |-> Verdict(Log[stage + 1]), diag |-> Diag(Log[stage + 1])])>>)
         /\ UNCHANGED <<ci, pt>>
SpecT == InitT /\ [][NextT]_vars
=============================================================================
