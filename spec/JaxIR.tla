------------------------------- MODULE JaxIR -------------------------------
(***************************************************************************)
(* A tiny first-order IR that TLC and the Python driver both interpret.    *)
(*                                                                         *)
(* VALUES.  Every value is a sequence of integers: a scalar is <<n>>, a    *)
(* vector has length 3.  All arithmetic is mod 3, so every integer that    *)
(* ever occurs is in 0..2 (the driver builds jnp.mod(a + b, 3) etc. on     *)
(* int32 arrays; jnp.mod and TLC's % are both floor-mod).                   *)
(*                                                                         *)
(* TERMS.  Uniform records.                                                *)
(*   operand   [k, i]   k = "v": environment entry i (1-based; the inputs  *)
(*                      come first, then the outputs of the equations in   *)
(*                      order), k = "l": Python literal i, k = "c": the    *)
(*                      closed-over constant KConsts[i] (a jnp array the   *)
(*                      built function closes over).                       *)
(*   equation  [op, ins, n, sub, tg]                                       *)
(*   program   [nin, eqs, outs]                                            *)
(*                                                                         *)
(* OPS.  add sub mul max lt neg where  (elementwise, scalars broadcast),   *)
(*   index(vec, i)           vec[clip(i,0,2)]                              *)
(*   cond(p, x..)[A,B]       lax.cond(p > 0, A, B, x..)    1 or 2 outputs  *)
(*   scan(c0, xs)[Body]      lax.scan(Body, c0, xs)        outputs c, ys   *)
(*   fori(c0)[Body], n       lax.fori_loop(0, n, Body, c0) Body(i, c)      *)
(*   while(k, s..)[Body]     bounded countdown: lax.while_loop over        *)
(*                           (min(k,3), s..), counter decremented, Body on *)
(*                           s..; 1 or 2 outputs                           *)
(*   call(x..)[G]            an initial_style_bind primitive wrapping G    *)
(*   rec(x..)[G], tg         a time_travel record point wrapping G         *)
(* EvalProg(prog, inputs) is the reference semantics (call and rec are     *)
(* transparent).                                                           *)
(***************************************************************************)
EXTENDS Integers, Sequences, FiniteSets, TLC, Json, Rand

KConsts == << <<2>>, <<1, 0, 2>> >>                 \* closed-over constants: a scalar and a vector
ScaDom  == << <<0>>, <<1>>, <<2>> >>                \* valuations of a scalar input
VecDom  == << <<0, 1, 2>>, <<2, 2, 0>>, <<1, 0, 1>> >>   \* valuations of the vector input
DomOf(ty) == IF ty = "s" THEN ScaDom ELSE VecDom

V(i) == [k |-> "v", i |-> i]
L(n) == [k |-> "l", i |-> n]
C(i) == [k |-> "c", i |-> i]
Eq(op, ins, n, sub, tg) == [op |-> op, ins |-> ins, n |-> n, sub |-> sub, tg |-> tg]
Prog(nin, eqs, outs) == [nin |-> nin, eqs |-> eqs, outs |-> outs]

BinOps == {"add", "sub", "mul", "max", "lt"}

\* LetIn(x, F) evaluates x ONCE and applies F to the value (TLC re-evaluates LET bodies).
LetIn(x, F(_)) == CHOOSE y \in {F(v) : v \in {x}} : TRUE

\* TLC keeps [j \in S |-> e] as an unevaluated closure and re-evaluates e at every application;
\* concatenation with <<>> turns it into a tuple of evaluated elements.
Norm(f) == f \o <<>>

IMin(a, b) == IF a <= b THEN a ELSE b
IMax(a, b) == IF a >= b THEN a ELSE b
Clamp02(i) == IF i < 0 THEN 0 ELSE IF i > 2 THEN 2 ELSE i
El(a, j) == IF Len(a) = 1 THEN a[1] ELSE a[j]

F2(op, x, y) == CASE op = "add" -> (x + y) % 3
                  [] op = "sub" -> (x - y) % 3
                  [] op = "mul" -> (x * y) % 3
                  [] op = "max" -> IF x >= y THEN x ELSE y
                  [] op = "lt"  -> IF x < y THEN 1 ELSE 0
Bin(op, a, b) == Norm([j \in 1..IMax(Len(a), Len(b)) |-> F2(op, El(a, j), El(b, j))])
Neg(a) == Norm([j \in 1..Len(a) |-> (0 - a[j]) % 3])
Where(c, a, b) == Norm([j \in 1..IMax(Len(c), IMax(Len(a), Len(b))) |-> IF El(c, j) > 0 THEN El(a, j) ELSE El(b, j)])

Opnd(env, o) == CASE o.k = "v" -> env[o.i] [] o.k = "l" -> <<o.i>> [] o.k = "c" -> KConsts[o.i]
Opnds(env, os) == Norm([j \in 1..Len(os) |-> Opnd(env, os[j])])

RECURSIVE EvalProg(_, _), EvalEqs(_, _, _), EvalEq(_, _), ScanLoop(_, _, _, _, _), ForLoop(_, _, _, _), WhileLoop(_, _, _)
EvalProg(p, inputs) == LetIn(EvalEqs(p.eqs, 1, inputs), LAMBDA env : Opnds(env, p.outs))
EvalEqs(eqs, i, env) ==
  IF i > Len(eqs) THEN env
  ELSE LetIn(env \o EvalEq(eqs[i], env), LAMBDA env2 : EvalEqs(eqs, i + 1, env2))
EvalEq(e, env) ==
  LetIn(Opnds(env, e.ins), LAMBDA a :
    CASE e.op \in BinOps   -> << Bin(e.op, a[1], a[2]) >>
      [] e.op = "neg"      -> << Neg(a[1]) >>
      [] e.op = "where"    -> << Where(a[1], a[2], a[3]) >>
      [] e.op = "index"    -> << << a[1][Clamp02(a[2][1]) + 1] >> >>
      [] e.op = "cond"     -> IF a[1][1] > 0 THEN EvalProg(e.sub[1], Tail(a)) ELSE EvalProg(e.sub[2], Tail(a))
      [] e.op = "scan"     -> ScanLoop(e.sub[1], a[1], a[2], 1, <<>>)
      [] e.op = "fori"     -> << ForLoop(e.sub[1], 0, e.n, a[1]) >>
      [] e.op = "while"    -> WhileLoop(e.sub[1], IMin(a[1][1], 3), Tail(a))
      [] e.op \in {"call", "rec"} -> EvalProg(e.sub[1], a))
ScanLoop(body, c, xs, j, ys) ==
  IF j > Len(xs) THEN <<c, ys>>
  ELSE LetIn(EvalProg(body, <<c, <<xs[j]>> >>), LAMBDA r : ScanLoop(body, r[1], xs, j + 1, Append(ys, r[2][1])))
ForLoop(body, i, n, c) ==
  IF i >= n THEN c ELSE LetIn(EvalProg(body, << <<i>>, c >>), LAMBDA r : ForLoop(body, i + 1, n, r[1]))
WhileLoop(body, k, st) ==
  IF k <= 0 THEN st ELSE LetIn(EvalProg(body, st), LAMBDA r : WhileLoop(body, k - 1, r))

\* number of outputs of an equation / output types given the types of the environment
NOutEq(e) == CASE e.op = "scan" -> 2
               [] e.op \in {"cond", "while", "call", "rec"} -> Len(e.sub[1].outs)
               [] OTHER -> 1
OpndTy(tenv, o) == CASE o.k = "v" -> tenv[o.i] [] o.k = "l" -> "s" [] o.k = "c" -> IF o.i = 1 THEN "s" ELSE "v"
OutTypes(e, tenv) ==
  CASE e.op \in BinOps \cup {"neg", "where"} ->
         << IF \E j \in 1..Len(e.ins) : OpndTy(tenv, e.ins[j]) = "v" THEN "v" ELSE "s" >>
    [] e.op = "scan" -> <<"s", "v">>
    [] OTHER -> [j \in 1..NOutEq(e) |-> "s"]

---------------------------------------------------------------------------
(* Deterministic generation from an explicit stream state r (Rand.tla).    *)
(* No threading: the j-th draw of r is a pure function of (r, j), nested   *)
(* terms get derived streams RSub(r, j).  Sub-programs (bodies, branches,  *)
(* wrapped functions) are scalar-only, so their environment is described   *)
(* by its length alone.                                                    *)
Dr(r, j, m) == RPick(RNext(RNext((r + j * 2749 + 1) % 65537)), m)
RSub(r, j)  == RNext((r * 31 + j * 977 + 5) % 65537)

ArithS  == <<"add", "sub", "mul", "max", "lt", "neg", "where", "index">>
StructS == <<"cond", "fori", "while", "call">>

\* op of the scalar equation drawn from r.   recs: number of record-point nesting levels still allowed here.
SOpAt(r, depth, maxNest, recs) ==
  LET d == Dr(r, 0, 20) IN
  IF recs > 0 /\ d < 8 THEN "rec"
  ELSE IF depth < maxNest /\ d >= 14 THEN StructS[Dr(r, 30, Len(StructS)) + 1]
  ELSE ArithS[Dr(r, 31, Len(ArithS)) + 1]
SNArgs(r) == 1 + Dr(r, 3, 2)
SNOut(r, depth, maxNest, recs) ==
  IF SOpAt(r, depth, maxNest, recs) \in {"cond", "while", "call", "rec"} THEN 1 + Dr(r, 4, 2) ELSE 1
RECURSIVE SEnvN(_, _, _, _, _, _)
SEnvN(r, nin, i, depth, maxNest, recs) ==      \* environment length before equation i
  IF i = 1 THEN nin ELSE SEnvN(r, nin, i - 1, depth, maxNest, recs) + SNOut(RSub(r, i - 1), depth, maxNest, recs)

SOpnd(r, j, nenv) ==
  LET d == Dr(r, j, 10) IN
  IF d < 6 THEN V(1 + Dr(r, j + 50, nenv)) ELSE IF d < 8 THEN L(Dr(r, j + 60, 3)) ELSE C(1)
SOut(r, j, nenv) ==
  LET d == Dr(r, j, 10) IN
  IF d < 8 THEN V(nenv - Dr(r, j + 50, IMin(nenv, 3))) ELSE IF d < 9 THEN L(Dr(r, j + 60, 3)) ELSE C(1)

TagLetters == <<"a", "b", "c", "d">>
RECURSIVE GenSProg(_, _, _, _, _, _, _, _), GenSEq(_, _, _, _, _, _)
\* GenSEq: tg = the tag this equation gets if it is a record point; GenSProg: tg = tag prefix ("" at the top level)
GenSEq(r, nenv, depth, maxNest, recs, tg) ==
  LET op == SOpAt(r, depth, maxNest, recs)
      na == SNArgs(r)
      no == SNOut(r, depth, maxNest, recs)
      ln == Dr(r, 7, 3)                       \* 0..2 equations in a nested program
      args(k) == [j \in 1..k |-> SOpnd(r, 10 + j, nenv)]
  IN CASE op \in BinOps -> Eq(op, args(2), 0, <<>>, "")
       [] op = "neg"   -> Eq(op, args(1), 0, <<>>, "")
       [] op = "where" -> Eq(op, args(3), 0, <<>>, "")
       [] op = "index" -> Eq(op, <<C(2), SOpnd(r, 11, nenv)>>, 0, <<>>, "")
       [] op = "cond"  -> Eq(op, args(1 + na), 0,
                             << GenSProg(RSub(r, 101), na, IMax(ln, 1), depth + 1, maxNest, 0, "", no),
                                GenSProg(RSub(r, 102), na, Dr(r, 8, 2), depth + 1, maxNest, 0, "", no) >>, "")
       [] op = "fori"  -> Eq(op, args(1), 1 + Dr(r, 5, 3), << GenSProg(RSub(r, 101), 2, IMax(ln, 1), depth + 1, maxNest, 0, "", 1) >>, "")
       [] op = "while" -> Eq(op, args(1 + no), 0, << GenSProg(RSub(r, 101), no, IMax(ln, 1), depth + 1, maxNest, 0, "", no) >>, "")
       [] op = "call"  -> Eq(op, args(na), 0, << GenSProg(RSub(r, 101), na, IMax(ln, 1), depth + 1, maxNest, 0, "", no) >>, "")
       [] op = "rec"   -> Eq(op, args(na), 0,
                             << GenSProg(RSub(r, 101), na, ln, depth, maxNest, recs - 1, tg, no) >>,
                             IF Dr(r, 9, 5) = 0 THEN "none" ELSE tg)
GenSProg(r, nin, len, depth, maxNest, recs, tg, nout) ==
  LET nfin == SEnvN(r, nin, len + 1, depth, maxNest, recs) IN
  Prog(nin,
       [i \in 1..len |-> GenSEq(RSub(r, i), SEnvN(r, nin, i, depth, maxNest, recs), depth, maxNest, recs, tg \o TagLetters[i])],
       [j \in 1..nout |-> SOut(r, 20 + j, nfin)])

\* Typed top-level equation (C09 / C36): tenv = types of the environment so far.
TopOps == <<"add", "sub", "mul", "max", "lt", "neg", "where", "where", "index", "index",
            "cond", "cond", "scan", "scan", "fori", "while", "while", "call">>
ArithTop == <<"add", "sub", "mul", "max", "lt", "neg", "where", "index">>
IdxOf(tenv, ty) == {i \in 1..Len(tenv) : tenv[i] = ty}
NthOf(S, k) == CHOOSE x \in S : Cardinality({y \in S : y < x}) = k
TOpnd(r, j, tenv, ty) ==
  LET S == IdxOf(tenv, ty)
      d == Dr(r, j, 10) IN
  IF ty = "v"
  THEN IF S # {} /\ d < 8 THEN V(NthOf(S, Dr(r, j + 50, Cardinality(S)))) ELSE C(2)
  ELSE IF S # {} /\ d < 6 THEN V(NthOf(S, Dr(r, j + 50, Cardinality(S))))
       ELSE IF d < 8 THEN L(Dr(r, j + 60, 3)) ELSE C(1)
GenTopEq(r, tenv, maxNest, arithOnly) ==
  LET op == IF arithOnly THEN ArithTop[Dr(r, 0, Len(ArithTop)) + 1] ELSE TopOps[Dr(r, 0, Len(TopOps)) + 1]
      ty(j) == IF Dr(r, 20 + j, 3) = 0 THEN "v" ELSE "s"
      na == SNArgs(r)
      no == 1 + Dr(r, 4, 2)
      ln == 1 + Dr(r, 7, 2)
      sargs(k) == [j \in 1..k |-> TOpnd(r, 10 + j, tenv, "s")]
  IN CASE op \in BinOps -> Eq(op, <<TOpnd(r, 11, tenv, ty(1)), TOpnd(r, 12, tenv, ty(2))>>, 0, <<>>, "")
       [] op = "neg"   -> Eq(op, <<TOpnd(r, 11, tenv, ty(1))>>, 0, <<>>, "")
       [] op = "where" -> Eq(op, <<TOpnd(r, 11, tenv, ty(1)), TOpnd(r, 12, tenv, ty(2)), TOpnd(r, 13, tenv, ty(3))>>, 0, <<>>, "")
       [] op = "index" -> Eq(op, <<TOpnd(r, 11, tenv, "v"), TOpnd(r, 12, tenv, "s")>>, 0, <<>>, "")
       [] op = "cond"  -> Eq(op, sargs(1 + na), 0,
                             << GenSProg(RSub(r, 101), na, ln, 1, maxNest, 0, "", no),
                                GenSProg(RSub(r, 102), na, Dr(r, 8, 2), 1, maxNest, 0, "", no) >>, "")
       [] op = "scan"  -> Eq(op, <<TOpnd(r, 11, tenv, "s"), TOpnd(r, 12, tenv, "v")>>, 0,
                             << GenSProg(RSub(r, 101), 2, ln, 1, maxNest, 0, "", 2) >>, "")
       [] op = "fori"  -> Eq(op, sargs(1), 1 + Dr(r, 5, 3), << GenSProg(RSub(r, 101), 2, ln, 1, maxNest, 0, "", 1) >>, "")
       [] op = "while" -> Eq(op, sargs(1 + no), 0, << GenSProg(RSub(r, 101), no, ln, 1, maxNest, 0, "", no) >>, "")
       [] op = "call"  -> Eq(op, sargs(na), 0, << GenSProg(RSub(r, 101), na, ln, 1, maxNest, 0, "", no) >>, "")

\* Valuations of typed inputs, numbered 0 .. 3^k - 1 (digit j-1 in base 3 selects the value of input j).
Pow3(k) == CASE k = 0 -> 1 [] k = 1 -> 3 [] k = 2 -> 9 [] k = 3 -> 27
Pow2(k) == CASE k = 0 -> 1 [] k = 1 -> 2 [] k = 2 -> 4 [] k = 3 -> 8
Digit3(n, j) == (n \div Pow3(j - 1)) % 3
ValOf(ityp, n) == Norm([j \in 1..Len(ityp) |-> DomOf(ityp[j])[Digit3(n, j) + 1]])
=============================================================================
