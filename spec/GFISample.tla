------------------------------ MODULE GFISample ------------------------------
(***************************************************************************)
(* C04: simulate samples the distribution the program defines.             *)
(* For programs over dyadic categorical distributions every complete       *)
(* choice assignment c has the exact probability 2^L2(c), computed from    *)
(* the denotational Exec.  The driver simulates N keys and logs the count  *)
(* of every observed assignment; TLC checks                                *)
(*   support : every observed assignment is an execution of the program;   *)
(*   freq    : for EVERY assignment of the support (observed or not) the   *)
(*             count is within the Hoeffding bound B of N * 2^L2, in       *)
(*             integer arithmetic (count * 2^KP vs N * 2^(KP+L2));           *)
(*   pair    : every pairwise marginal count (two addresses, two values or *)
(*             absence) is within the same bound of its exact expectation; *)
(*   total   : the counts add up to N;                                     *)
(*   det     : the same keys gave the same traces twice (logged flag).     *)
(***************************************************************************)
EXTENDS GFILaws, Json, IOUtils, SequencesExt

Log == JsonDeserialize(IOEnv.TRACE_FILE)
Fn(pairs) == [p \in {pairs[i][1] : i \in 1..Len(pairs)} |-> pairs[CHOOSE i \in 1..Len(pairs) : pairs[i][1] = p][2]]

\* exact log2 probability from the fixed-point cat terms of Exec (each term is l2 * ln2 * 256, |rounding| < 1/2 unit)
L2Term(lp) == -(((-lp) * 1000 + 88722) \div 177445)
L2(r) == LET f == [a \in DOMAIN r.lps |-> L2Term(r.lps[a])] IN SumAll(f)
Pow2(n) == IF n <= 0 THEN 1 ELSE 2 ^ n
KP == 12                                      \* every probability here is a multiple of 2^-12

\* all complete assignments of the program: candidate maps over the address universe, kept when they are
\* exactly the visited set of an error-free execution
Support(p, args) ==
  LET AU == Addrs(p)
      cands == {RestrictF(f, {a \in AU : f[a] >= 0}) : f \in [AU -> -1..2]}
  IN  {c \in cands : LET r == Exec(p, args, c, FALSE) IN r.err = "none" /\ DOMAIN r.lps = DOMAIN c}

F(c, bad) == IF bad THEN {c} ELSE {}

\* C07: a regenerated choice is redrawn from its prior given the CURRENT values of its parents.
\* Event: base trace (choices), one selected leaf address a, counts of the new value at a over N keys.
RegenClauses(ev) ==
  LET p    == Entry(ev.pid).p
      base == Fn(ev.base)
      a    == ev.addr
      l2(v) == L2Term(Exec(p, ev.args, [base EXCEPT ![a] = v], FALSE).lps[a])     \* log2 P(a = v | parents as in the base trace)
      cnt(v) == ev.counts[v + 1]
  IN  F("regen.prior", \E v \in 0..2 : AbsI(cnt(v) * Pow2(KP) - ev.n * Pow2(KP + l2(v))) > ev.bound * Pow2(KP))
      \cup F("regen.total", cnt(0) + cnt(1) + cnt(2) # ev.n)
      \cup F("regen.others", ~ev.others_unchanged)
      \cup F("regen.weight", ~ev.weight_ok)

SimClauses(ev) ==
  LET p    == Entry(ev.pid).p
      obs  == [i \in 1..Len(ev.cells) |-> [c |-> Fn(ev.cells[i].choices), n |-> ev.cells[i].count]]
      sup  == Support(p, ev.args)
      cnt(c) == IF \E i \in 1..Len(obs) : obs[i].c = c THEN obs[CHOOSE i \in 1..Len(obs) : obs[i].c = c].n ELSE 0
      tot  == LET f == [i \in 1..Len(obs) |-> obs[i].n] IN SumAll(f)
  IN  F("support", \E i \in 1..Len(obs) : obs[i].c \notin sup)
      \cup F("freq", \E c \in sup : LET l2 == L2(Exec(p, ev.args, c, FALSE)) IN
                        KP + l2 < 0 \/ AbsI(cnt(c) * Pow2(KP) - ev.n * Pow2(KP + l2)) > ev.bound * Pow2(KP))
      \cup F("pair", LET supS == SetToSeq(sup)                                                     \* pairwise marginals: key reuse between two addresses
                          prS  == [i \in 1..Len(supS) |-> Pow2(KP + L2(Exec(p, ev.args, supS[i], FALSE)))]   \* moves a pair cell by >= 1/16 even when every joint cell is tiny
                          AS   == SetToSeq(Addrs(p))
                          obC  == [i \in 1..Len(obs) |-> obs[i].c]
                          obN  == [i \in 1..Len(obs) |-> obs[i].n]
                          val(c, a) == IF a \in DOMAIN c THEN c[a] ELSE -1
                          Idx(n) == [i \in 1..n |-> i]
                          Zero == [k \in (-1..2) \X (-1..2) |-> 0]
                          Tab(cs, wt, a, b) == FoldLeft(LAMBDA acc, i : [acc EXCEPT ![<<val(cs[i], a), val(cs[i], b)>>] = @ + wt[i]], Zero, Idx(Len(cs)))
                      IN  \E ia \in 1..Len(AS), ib \in 1..Len(AS) : ia < ib /\
                            LET ex == Tab(supS, prS, AS[ia], AS[ib])
                                ob == Tab(obC, obN, AS[ia], AS[ib])
                            IN  \E k \in DOMAIN Zero : AbsI(ob[k] * Pow2(KP) - ev.n * ex[k]) > ev.bound * Pow2(KP))
      \cup F("total", tot # ev.n)
      \cup F("mass", LET f == [c \in sup |-> Pow2(KP + L2(Exec(p, ev.args, c, FALSE)))] IN SumAll(f) # Pow2(KP))   \* the spec's own probabilities sum to 1
      \cup F("det", ~ev.det)
      \cup F("args", ev.obsargs # ev.args)

Clauses(ev) == IF ev.kind = "regen" THEN RegenClauses(ev) ELSE SimClauses(ev)

VARIABLES l, fails
TInit == l = 1 /\ fails = <<>>
TNext == /\ l <= Len(Log) /\ l' = l + 1
         /\ LET cs == Clauses(Log[l]) IN
            fails' = IF cs = {} THEN fails ELSE Append(fails, [tid |-> Log[l].tid, seq |-> 0, clauses |-> SetToSeq(cs)])
TSpec == TInit /\ [][TNext]_<<l, fails>>
Report == l = Len(Log) + 1 => PrintT(<<"VERDICT", ToJson([n |-> Len(Log), fails |-> fails])>>)
=============================================================================
