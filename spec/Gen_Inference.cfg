CONSTANTS Emit = TRUE
 Kinds = {"smc", "change", "marg", "mh"}
SPECIFICATION Spec
INVARIANT EmitCase
CHECK_DEADLOCK FALSE
