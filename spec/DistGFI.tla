------------------------------ MODULE DistGFI ------------------------------
(***************************************************************************)
(* One GenJAX distribution (genjax/_src/generative_functions/distributions *)
(* /distribution.py, class Distribution / ExactDensity) as a state machine *)
(* of the generative function interface, over an ABSTRACT log-density      *)
(* table LP(args, value) in fixed-point units (1/256 nat).                 *)
(*                                                                         *)
(* The result of every GFI operation is a pure operator parameterised by   *)
(* LP (SimRes, GenRes, UpdRes, RegenRes, ProjRes).  They are used twice:   *)
(*   role A  Spec       -- the state machine with an abstract table LPA    *)
(*                         and fully nondeterministic sampling; TLC checks *)
(*                         the laws below in every reachable state;        *)
(*   role D  TraceSpec  -- one step per event logged from the real         *)
(*                         wrappers; LP is supplied per event by the       *)
(*                         driver as the summed TensorFlow-Probability     *)
(*                         log_prob (computed directly with TFP); the      *)
(*                         operators are instantiated with the logged      *)
(*                         nondeterminism (sampled value ids) and compared *)
(*                         clause by clause with what the code returned.   *)
(*                                                                         *)
(* Values are abstract ids (the driver numbers distinct arrays), argument  *)
(* points are indices, 0 means "absent".                                   *)
(***************************************************************************)
EXTENDS Integers, Sequences, FiniteSets, TLC, Json, IOUtils

CONSTANTS NArgs, NVals, MaxSteps

ArgIx == 1..NArgs
ValIx == 1..NVals
ConsKinds == {"none", "value", "maskT", "maskF"}
\* a constraint is effective iff it is a bare value or a Mask whose flag is true
Effective(cons) == cons \in {"value", "maskT"}

NoTrace == [a |-> 0, v |-> 0, s |-> 0]
MkTrace(LP(_, _), a, v) == [a |-> a, v |-> v, s |-> LP(a, v)]

---------------------------------------------------------------------------
\* Results of the GFI operations: [tr: new trace, w: weight, disc: discarded value id or 0]
\* vf is the freshly sampled value (the nondeterminism of the operation).
SimRes(LP(_, _), a, vf) == [tr |-> MkTrace(LP, a, vf), w |-> 0, disc |-> 0]

AssessRes(LP(_, _), a, v) == [tr |-> MkTrace(LP, a, v), w |-> 0, disc |-> 0]      \* tr.s = score, tr.v = retval

GenRes(LP(_, _), a, cons, vc, vf) ==
  LET t == MkTrace(LP, a, IF Effective(cons) THEN vc ELSE vf)
  IN  [tr |-> t, w |-> IF Effective(cons) THEN t.s ELSE 0, disc |-> 0]

\* update: no fresh randomness for a distribution; the value is kept unless overwritten
UpdRes(LP(_, _), old, a, cons, vc) ==
  LET t == MkTrace(LP, a, IF Effective(cons) THEN vc ELSE old.v)
  IN  [tr |-> t, w |-> t.s - old.s, disc |-> IF Effective(cons) THEN old.v ELSE 0]

\* regenerate: library convention, weight = new score - old score (also when selected)
RegenRes(LP(_, _), old, a, sel, vf) ==
  LET t == MkTrace(LP, a, IF sel THEN vf ELSE old.v)
  IN  [tr |-> t, w |-> t.s - old.s, disc |-> IF sel THEN old.v ELSE 0]

ProjRes(old, sel) == IF sel THEN old.s ELSE 0

---------------------------------------------------------------------------
\* Role A: the abstract machine.
LPTab == << <<-300, -811, -1290>>, <<-525, -77, -2048>>, <<-1, -4097, -650>> >>
LPA(a, v) == LPTab[a][v]

VARIABLES tr, prev, last, wsum, s0, steps,     \* role A
          ti, tfails                           \* role D
vars == <<tr, prev, last, wsum, s0, steps, ti, tfails>>

NoLast == [op |-> "init", a |-> 0, cons |-> "none", vc |-> 0, sel |-> FALSE, w |-> 0, disc |-> 0]
Last(op, a, cons, vc, sel, w, disc) == [op |-> op, a |-> a, cons |-> cons, vc |-> vc, sel |-> sel, w |-> w, disc |-> disc]

Init == /\ tr = NoTrace /\ prev = NoTrace /\ last = NoLast /\ wsum = 0 /\ s0 = 0 /\ steps = 0
        /\ ti = 0 /\ tfails = 0

Fresh(r, l) == /\ tr' = r.tr /\ prev' = NoTrace /\ last' = l /\ wsum' = 0 /\ s0' = r.tr.s
Edit(r, l)  == /\ tr' = r.tr /\ prev' = tr /\ last' = l /\ wsum' = wsum + r.w /\ s0' = s0

Tick == steps < MaxSteps /\ steps' = steps + 1 /\ UNCHANGED <<ti, tfails>>

Simulate == /\ Tick
            /\ \E a \in ArgIx, vf \in ValIx :
                 LET r == SimRes(LPA, a, vf) IN Fresh(r, Last("simulate", a, "none", 0, FALSE, r.w, 0))
Generate == /\ Tick
            /\ \E a \in ArgIx, cons \in ConsKinds, vc \in ValIx, vf \in ValIx :
                 LET r == GenRes(LPA, a, cons, vc, vf) IN Fresh(r, Last("generate", a, cons, vc, FALSE, r.w, 0))
Assess   == /\ Tick
            /\ \E a \in ArgIx, v \in ValIx :
                 LET r == AssessRes(LPA, a, v)
                 IN  /\ last' = Last("assess", a, "value", v, FALSE, r.tr.s, 0)
                     /\ UNCHANGED <<tr, prev, wsum, s0>>
Update   == /\ Tick
            /\ tr # NoTrace
            /\ \E a \in ArgIx, cons \in ConsKinds, vc \in ValIx :
                 LET r == UpdRes(LPA, tr, a, cons, vc) IN Edit(r, Last("update", a, cons, vc, FALSE, r.w, r.disc))
Regenerate == /\ Tick
              /\ tr # NoTrace
              /\ \E a \in ArgIx, sel \in BOOLEAN, vf \in ValIx :
                   LET r == RegenRes(LPA, tr, a, sel, vf) IN Edit(r, Last("regenerate", a, "none", 0, sel, r.w, r.disc))
Project  == /\ Tick
            /\ tr # NoTrace
            /\ \E sel \in BOOLEAN :
                 /\ last' = Last("project", tr.a, "none", 0, sel, ProjRes(tr, sel), 0)
                 /\ UNCHANGED <<tr, prev, wsum, s0>>
\* apply the backward request returned by the last edit: Update(discard) with the previous arguments
Undo     == /\ Tick
            /\ last.op \in {"update", "regenerate"}
            /\ LET cons == IF last.disc # 0 THEN "value" ELSE "none"
                   r == UpdRes(LPA, tr, prev.a, cons, last.disc)
               IN  Edit(r, Last("undo", prev.a, cons, last.disc, FALSE, r.w, r.disc))

Next == Simulate \/ Generate \/ Assess \/ Update \/ Regenerate \/ Project \/ Undo

Spec == Init /\ [][Next]_vars

\* ---- the laws (role A) ----
TypeOK == /\ tr = NoTrace \/ (tr.a \in ArgIx /\ tr.v \in ValIx)
          /\ last.cons \in ConsKinds /\ last.sel \in BOOLEAN
\* C24 / C01: the score of every trace is the log density of its value under its arguments
ScoreIsLP == tr # NoTrace => tr.s = LPA(tr.a, tr.v)
\* importance: weight = LP if effectively constrained else 0; value = constraint when constrained
GenerateLaw == last.op = "generate" =>
                 /\ tr.a = last.a
                 /\ Effective(last.cons) => (tr.v = last.vc /\ last.w = LPA(last.a, last.vc))
                 /\ ~Effective(last.cons) => last.w = 0
\* update: weight = LP(new) - LP(old); value constrained or kept; discard = old value iff overwritten
UpdateLaw == last.op \in {"update", "undo"} =>
                 /\ tr.a = last.a
                 /\ last.w = LPA(tr.a, tr.v) - LPA(prev.a, prev.v)
                 /\ Effective(last.cons) => (tr.v = last.vc /\ last.disc = prev.v)
                 /\ ~Effective(last.cons) => (tr.v = prev.v /\ last.disc = 0)
RegenerateLaw == last.op = "regenerate" =>
                 /\ tr.a = last.a
                 /\ last.w = LPA(tr.a, tr.v) - LPA(prev.a, prev.v)
                 /\ ~last.sel => (tr.v = prev.v /\ last.disc = 0)
                 /\ last.sel => last.disc = prev.v
ProjectLaw == /\ last.op = "project" => last.w = (IF last.sel THEN LPA(tr.a, tr.v) ELSE 0)
              /\ tr # NoTrace => ProjRes(tr, TRUE) + ProjRes(tr, FALSE) = tr.s
AssessLaw == last.op = "assess" => last.w = LPA(last.a, last.vc)
\* the edit weights since the trace was created telescope to the score change
Telescopes == tr # NoTrace => tr.s = s0 + wsum
\* applying the returned backward request restores the previous trace with the opposite weight
UndoRestores == [][last'.op = "undo" => (tr' = prev /\ last'.w = -last.w)]_vars

---------------------------------------------------------------------------
\* Role D: trace validation.  Log is a JSON array of events (see harness/eng_dists.py):
\*   n h i dist tag op via cons sel a0 a1 ar v0 vc v1 s0 s1 w disc fresh lp1 lp0 lpc fin big
\* ar = the argument point the returned trace RECORDS (projection of tr.get_args()), 0 if neither;
\* via = the API spelling used (update | trupdate | trupdate0 = Trace.update with default argdiffs |
\*       clupdate = closure spelling dist(params).update(key, tr, chm, ()) | assess_tr = assess at tr.get_args() ...)
\*   sup dt dtdoc shp shpdoc twins status raised
\* lp1 = LP(a1,v1), lp0 = LP(a0,v0), lpc = LP(a1,vc): the TFP oracle, fixed point.
Log == JsonDeserialize(IOEnv.TRACE_FILE)

TOL == 8
Abs(x) == IF x < 0 THEN -x ELSE x
Close(x, y, big) == Abs(x - y) <= TOL + (big \div 16384)

EvLP(e, a, v) == IF a = e.a1 /\ v = e.v1 THEN e.lp1
                 ELSE IF a = e.a1 /\ v = e.vc THEN e.lpc
                 ELSE IF a = e.a0 /\ v = e.v0 THEN e.lp0
                 ELSE 0
Old(e) == [a |-> e.a0, v |-> e.v0, s |-> e.lp0]

\* what the specification says the operation returns, instantiated with the logged nondeterminism
Expected(e) ==
  LET LP(a, v) == EvLP(e, a, v) IN
  CASE e.op = "simulate"   -> SimRes(LP, e.a1, e.v1)
    [] e.op = "generate"   -> GenRes(LP, e.a1, e.cons, e.vc, e.v1)
    [] e.op = "update"     -> UpdRes(LP, Old(e), e.a1, e.cons, e.vc)
    [] e.op = "regenerate" -> RegenRes(LP, Old(e), e.a1, e.sel = 1, e.v1)
    [] e.op = "assess"     -> AssessRes(LP, e.a1, e.v0)
    [] e.op = "project"    -> [tr |-> Old(e), w |-> ProjRes(Old(e), e.sel = 1), disc |-> 0]

TwinBad(e) == \E k \in 1..Len(e.twins) :
                 LET t == e.twins[k] IN t[1] # e.v1 \/ Abs(t[2] - e.s1) > 1 \/ Abs(t[3] - e.w) > 1

\* the set of failing clauses of one event.  C24.* are the clauses of the property statement;
\* AUX.* are observations about regenerate / project / discard (owned by C07 / C10 / C05).
Verdicts(e) ==
  IF e.status # "ok"
  THEN IF e.raised THEN {"C24.run"} ELSE {}          \* "rejected" optional requests carry no clause
  ELSE LET x == Expected(e)
           main == e.op \in {"simulate", "generate", "update", "assess"}
       IN  (IF main /\ x.tr.v # e.v1 THEN {"C24.value"} ELSE {})
      \cup (IF e.op \in {"simulate", "generate", "update"} /\ x.tr.a # e.ar THEN {"C24.args"} ELSE {})
      \cup (IF main /\ e.fin /\ ~Close(x.tr.s, e.s1, e.big) THEN {"C24.score"} ELSE {})
      \cup (IF e.op \in {"generate", "update"} /\ e.fin /\ ~Close(x.w, e.w, e.big) THEN {"C24.weight"} ELSE {})
      \cup (IF e.fresh /\ ~e.sup THEN {"C24.support"} ELSE {})
      \cup (IF e.fresh /\ e.dt # e.dtdoc THEN {"C24.dtype"} ELSE {})
      \cup (IF e.fresh /\ e.shp # e.shpdoc THEN {"C24.shape"} ELSE {})
      \cup (IF TwinBad(e) THEN {"C24.kwargs"} ELSE {})
      \cup (IF e.op = "regenerate" /\ (x.tr.v # e.v1 \/ x.tr.a # e.ar) THEN {"AUX.regen.value"} ELSE {})
      \cup (IF e.op = "regenerate" /\ e.fin /\ ~Close(x.tr.s, e.s1, e.big) THEN {"AUX.regen.score"} ELSE {})
      \cup (IF e.op = "regenerate" /\ e.fin /\ ~Close(x.w, e.w, e.big) THEN {"AUX.regen.weight"} ELSE {})
      \cup (IF e.op = "project" /\ e.fin /\ ~Close(x.w, e.w, e.big) THEN {"AUX.project"} ELSE {})
      \cup (IF e.op \in {"update", "regenerate"} /\ x.disc # e.disc THEN {"AUX.discard"} ELSE {})

\* the driver's pre-state must be the post-state of the previous event of the same history
ChainBad(e) == e.i > 1 /\ e.status = "ok" /\ tr # NoTrace /\ (e.a0 # tr.a \/ e.v0 # tr.v \/ e.s0 # tr.s)

TraceInit == Init
TraceNext ==
  \/ /\ ti < Len(Log)
     /\ LET e == Log[ti + 1]
            vs == Verdicts(e) \cup (IF ChainBad(e) THEN {"MACH.chain"} ELSE {})
        IN  /\ \A c \in vs : PrintT(<<"VERDICT", ToJson([n |-> e.n, clause |-> c])>>)
            /\ tfails' = tfails + Cardinality(vs)
            /\ tr' = IF e.status = "ok" /\ e.op \in {"simulate", "generate", "update", "regenerate"}
                     THEN [a |-> e.a1, v |-> e.v1, s |-> e.s1]
                     ELSE IF e.i = 1 THEN NoTrace ELSE tr
     /\ ti' = ti + 1
     /\ UNCHANGED <<prev, last, wsum, s0, steps>>
  \/ /\ ti = Len(Log)
     /\ PrintT(<<"SUMMARY", ToJson([events |-> ti, failing |-> tfails])>>)
     /\ ti' = ti + 1
     /\ UNCHANGED <<tr, prev, last, wsum, s0, steps, tfails>>
TraceSpec == TraceInit /\ [][TraceNext]_vars
Done == ti <= Len(Log) + 1
=============================================================================
