------------------------------ MODULE HMCTrace ------------------------------
(***************************************************************************)
(* Trace validation (role D) for C28.  One event = one start state and one *)
(* key: the positions and alphas returned by HMC(sel, eps, L=k).edit for   *)
(* k = 1..4 with the SAME key (same initial momentum, so the positions are *)
(* prefixes of one trajectory).  The momentum is not observable: p0 is     *)
(* inferred from q_1, then q_2..q_4 and alpha_1..alpha_4 must follow Leap. *)
(* All numbers are fixed point, unit 2^-16.                                *)
(***************************************************************************)
EXTENDS HMC, IOUtils

CONSTANTS HBI,     \* Hoeffding half-width for the momentum-independence clause: HBI*HBI >= 16*N keys
          TOLQ,    \* tolerance on positions (units 2^-16)
          TOLA     \* tolerance on 2*alpha   (units 2^-16)

Log == ndJsonDeserialize(IOEnv.TRACE_FILE)
NLog == Len(Log)

VARIABLES i, nfail, nchk
tvars == <<i, nfail, nchk, cfg, st, k, phase>>

Abs(x) == IF x < 0 THEN 0 - x ELSE x
Fl(clause, diag) == [clause |-> clause, diag |-> diag]

SelOf(e) == {j \in 1..Len(e.sel) : e.sel[j] = 1}
P0(m, e) == [j \in 1..ND(m) |->
               IF e.sel[j] = 1 THEN (e.qs[1][j] - e.q0[j]) * (2^e.e) - TDiv(Grad(m, j, e.q0), 2^(e.e + 1)) ELSE 0]

RECURSIVE Traj(_, _, _, _, _)      \* sequence of the states after 1..n steps
Traj(m, Sel, ee, s, n) ==
  IF n = 0 THEN <<>>
  ELSE Bind(LeapOp(m, Sel, ee, s), LAMBDA t : <<t>> \o Traj(m, Sel, ee, t, n - 1))
RECURSIVE TrajStale(_, _, _, _, _, _)
TrajStale(m, Sel, ee, s, q0, n) ==
  IF n = 0 THEN <<>>
  ELSE Bind(LeapStale(m, Sel, ee, s, q0), LAMBDA t : <<t>> \o TrajStale(m, Sel, ee, t, q0, n - 1))

ChkHmc(e) ==
  LET m == Models[MIdx(e.model)]
      Sel == SelOf(e)
      n == Len(e.qs)
  IN  IF e.status # "ok" THEN {Fl("C28.leapfrog", e.status)}
      ELSE
      Bind([q |-> e.q0, p |-> P0(m, e)], LAMBDA s0 :
      Bind(Traj(m, Sel, e.e, s0, n), LAMBDA tr :
      Bind(TrajStale(m, Sel, e.e, s0, e.q0, n), LAMBDA ts :
        LET qok(t) == \A kk \in 1..n : \A j \in Sel : Abs(e.qs[kk][j] - t[kk].q[j]) <= TOLQ
            a2(t, kk) == TwoH(m, s0.q, s0.p) - TwoH(m, t[kk].q, t[kk].p)
            aok(t) == \A kk \in 1..n : Abs(2 * e.alphas[kk] - a2(t, kk)) <= TOLA
            stale == qok(ts) /\ aok(ts)
        IN  (IF \A kk \in 1..n : /\ \A j \in (1..ND(m)) \ Sel : e.qs[kk][j] = e.q0[j]
                                 /\ e.discs[kk] = e.disc0
             THEN {} ELSE {Fl("C28.selected", "unselected_or_discrete_choice_changed")})
            \cup (IF qok(tr) THEN {}
                  ELSE {Fl("C28.leapfrog", IF stale THEN "first_half_kick_reuses_initial_gradient" ELSE "other")})
            \cup (IF aok(tr) THEN {}
                  ELSE {Fl("C28.alpha",
                           IF stale THEN "first_half_kick_reuses_initial_gradient"
                           ELSE IF \A kk \in 1..n : Abs(2 * e.alphas[kk] + a2(tr, kk)) <= TOLA THEN "alpha_sign"
                           ELSE "other")}))))

\* Independence of the initial momenta of different selected coordinates (one start state, N keys, L = 1):
\* p0 is inferred per key and per coordinate from q_1; for independent symmetric momenta the signs of two
\* coordinates agree with probability 1/2, so |#agree - N/2| <= HBI (Hoeffding, ln(2/delta) <= 32).
ChkInd(e) ==
  LET m == Models[MIdx(e.model)]
      Sel == SelOf(e)
      N == Len(e.q1)
      p0(kk, j) == (e.q1[kk][j] - e.q0[j]) * (2^e.e) - TDiv(Grad(m, j, e.q0), 2^(e.e + 1))
      agree(a, b) == Cardinality({kk \in 1..N : (p0(kk, a) >= 0) = (p0(kk, b) >= 0)})
      same(a, b) == \A kk \in 1..N : Abs(p0(kk, a) - p0(kk, b)) <= 16
      pairs == {ab \in Sel \X Sel : ab[1] < ab[2]}
  IN  IF e.status # "ok" THEN {Fl("C28.leapfrog", e.status)}
      ELSE IF HBI * HBI < 16 * N THEN {Fl("MACHINERY", "HBI too small for N")}
      ELSE {Fl("C28.momenta", IF same(ab[1], ab[2]) THEN "identical_momenta_for_two_coordinates"
                              ELSE "momenta_of_two_coordinates_not_independent") :
               ab \in {ab \in pairs : Abs(2 * agree(ab[1], ab[2]) - N) > 2 * HBI}}

TInit == i = 0 /\ nfail = 0 /\ nchk = 0 /\ cfg = 0 /\ st = 0 /\ k = 0 /\ phase = "trace"
TNext ==
  /\ i < NLog
  /\ i' = i + 1
  /\ UNCHANGED <<cfg, st, k, phase>>
  /\ LET e == Log[i + 1]
         f == IF e.op = "hmcind" THEN ChkInd(e) ELSE ChkHmc(e)
     IN  /\ nfail' = nfail + Cardinality(f)
         /\ nchk' = nchk + 1
         /\ (f = {} \/ PrintT(<<"VERDICT", ToJson([ev |-> e.id, fails |-> f])>>))
  /\ (i' < NLog \/ PrintT(<<"DONE", ToJson([events |-> NLog, checked |-> nchk', failed |-> nfail'])>>))
TSpec == TInit /\ [][TNext]_tvars
=============================================================================
