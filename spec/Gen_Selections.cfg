CONSTANTS MaxDepth = 2
 Seed = 0
 NChains = 1
 NPerChain = 1
 Emit = TRUE
SPECIFICATION Spec
INVARIANT EmitCase
CHECK_DEADLOCK FALSE
