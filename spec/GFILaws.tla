------------------------------ MODULE GFILaws ------------------------------
(***************************************************************************)
(* The laws of the generative function interface, stated over abstract     *)
(* traces T = [args, choices, score, ret] and the denotational Exec.       *)
(* Each law is a predicate that the trace specification (GFITrace)         *)
(* evaluates on logged events and that the abstract machine (GFIMachine)   *)
(* satisfies by construction / by model checking.                          *)
(***************************************************************************)
EXTENDS GFICatalog

Score(r) == SumAll(r.lps)
ExecT(p, T) == Exec(p, T.args, T.choices, FALSE)
MkTrace(p, args, c) == LET r == Exec(p, args, c, FALSE) IN [args |-> args, choices |-> RestrictF(c, DOMAIN r.lps), score |-> Score(r), ret |-> r.ret]

\* potential address universe of a program (all branches, all indices)
RECURSIVE Addrs(_)
Addrs(p) ==
  CASE p.k \in {"dist", "cat"} -> {<<>>}
    [] p.k = "static" -> UNION {{p.sites[j].addr \o a : a \in Addrs(p.sites[j].callee)} : j \in 1..Len(p.sites)}
    [] p.k \in {"closure", "mask", "dimap"} -> Addrs(p.subs[1])
    [] p.k \in {"switch", "orelse"} -> UNION {Addrs(p.subs[j]) : j \in 1..Len(p.subs)}
    [] p.k = "mix" -> {<<"mixture_component">>} \cup {<<"component_sample">> \o a : a \in UNION {Addrs(p.subs[j]) : j \in 1..Len(p.subs)}}
    [] OTHER -> UNION {{<<IdxStr(i)>> \o a : a \in Addrs(p.subs[1])} : i \in 0..(p.n - 1)}

ProjWt(r, sel) == SumF(r.lps, {a \in DOMAIN r.lps : Selected(sel, a)})
GenWt(r, eff)  == SumF(r.lps, DOMAIN r.lps \cap eff)

---------------------------------------------------------------------------
\* Honest change analysis: which sub-executions may legitimately be RESAMPLED by an
\* update (a switch whose index is tagged/changed -- the documented trigger), given
\* honest argument taints and the set of constrained addresses.  Returns
\* [ret |-> may the return value be tagged Unknown, rs |-> prefixes that may be resampled].
SubSet(p, S) == {DropP(a, Len(p)) : a \in {a \in S : IsPrefixP(p, a)}}
PreSet(p, S) == {p \o a : a \in S}
C2(ret, rs) == [ret |-> ret, rs |-> rs]
AllT(n, b) == [j \in 1..n |-> b]

RECURSIVE Chg(_, _, _, _, _), ChgSites(_, _, _, _, _, _, _, _, _), ChgLoop(_, _, _, _, _, _, _, _, _)
Chg(p, args, targs, chm, cons) ==
  CASE p.k \in {"dist", "cat"} -> C2(<<>> \in cons, {})
    [] p.k = "static"  -> ChgSites(p, args, targs, chm, cons, 1, <<>>, <<>>, {})
    \* a closure tags its stored arguments UnknownChange (conservative by design): they count as tainted
    \* (partial_apply's argument lives in the function itself and is not tagged at all)
    [] p.k = "closure" -> Chg(p.subs[1], CloArgs(p, args, p.x),
                              CloArgs(p, targs, [j \in 1..Len(p.x) |-> IF p.n = 1 \/ (p.n = 3 /\ j = 1) THEN FALSE ELSE TRUE]), chm, cons)
    [] p.k \in {"vmap", "repeat"} ->
         LET el(i) == IF p.k = "repeat" THEN args
                      ELSE [j \in 1..Len(args) |-> CASE p.x[j] = 1 -> Unstack(args[j], i)
                                                       [] p.x[j] = 2 -> Vc([r \in 1..Len(args[j].k) |-> args[j].k[r].k[i]])
                                                       [] OTHER -> args[j]]
         IN  ChgLoop("map", p.subs[1], p.n, 1, [i \in 1..p.n |-> el(i)], targs, chm, cons, C2(FALSE, {}))
    [] p.k = "scan" -> ChgLoop("scan", p.subs[1], p.n, 1, <<args[1], args[2]>>, <<targs[1], targs[2]>>, chm, cons, C2(FALSE, {}))
    [] p.k \in {"accumulate", "reduce"} -> ChgLoop("acc", p.subs[1], p.n, 1, <<args[1], args[2]>>, <<targs[1], targs[2]>>, chm, cons, C2(FALSE, {}))
    [] p.k \in {"iterate", "iteratefinal"} -> ChgLoop("iter", p.subs[1], p.n, 1, <<args[1], Nn>>, <<targs[1], FALSE>>, chm, cons, C2(FALSE, {}))
    [] p.k \in {"maskediterate", "maskediteratefinal"} -> ChgLoop("mit", p.subs[1], p.n, 1, <<args[1], args[2]>>, <<targs[1], targs[2]>>, chm, cons, C2(FALSE, {}))
    [] p.k \in {"switch", "orelse"} ->
         IF targs[1] THEN C2(TRUE, {<<>>})
         ELSE LET j == IF p.k = "switch" THEN Clamp(args[1].i, Len(p.subs)) + 1 ELSE (IF IsT(args[1]) THEN 1 ELSE 2)
              IN  Chg(p.subs[j], args[j + 1].k, AllT(Len(args[j + 1].k), targs[j + 1]), chm, cons)
    [] p.k = "mix" ->
         LET mc == <<"mixture_component">> IN
         IF mc \in cons \/ mc \notin DOMAIN chm THEN C2(TRUE, {<<"component_sample">>})
         ELSE LET j == Clamp(chm[mc], Len(p.subs)) + 1
                  c == Chg(p.subs[j], args[j + 1].k, AllT(Len(args[j + 1].k), targs[j + 1]), SubMap(<<"component_sample">>, chm), SubSet(<<"component_sample">>, cons))
              IN  C2(c.ret, PreSet(<<"component_sample">>, c.rs))
    [] p.k = "mask" ->
         IF IsT(args[1])
         THEN LET c == Chg(p.subs[1], Tail(args), Tail(targs), chm, cons) IN C2(c.ret \/ targs[1], c.rs)
         ELSE C2(targs[1], {})
    [] p.k = "dimap" ->
         LET xa  == [j \in 1..Len(p.x) |-> EvalE(p.x[j], args, <<>>, <<>>)]
             txa == [j \in 1..Len(p.x) |-> TaintE(p.x[j], targs, <<>>, <<>>)]
             c   == Chg(p.subs[1], xa, txa, chm, cons)
         IN  C2(TaintE(p.ret, targs, txa, <<c.ret>>), c.rs)

ChgSites(p, args, targs, chm, cons, j, env, tenv, rs) ==
  IF j > Len(p.sites) THEN C2(TaintE(p.ret, targs, <<>>, tenv), rs)
  ELSE LET s  == p.sites[j]
           a  == [i \in 1..Len(s.args) |-> EvalE(s.args[i], args, <<>>, env)]
           ta == [i \in 1..Len(s.args) |-> TaintE(s.args[i], targs, <<>>, tenv)]
           sub == SubMap(s.addr, chm)
           c  == Chg(s.callee, a, ta, sub, SubSet(s.addr, cons))
           r  == Exec(s.callee, a, sub, TRUE)
       IN  ChgSites(p, args, targs, chm, cons, j + 1, Append(env, r.ret), Append(tenv, c.ret), rs \cup PreSet(s.addr, c.rs))

ChgLoop(kind, body, n, i, st, tst, chm, cons, acc) ==
  IF i > n THEN acc
  ELSE LET ip  == <<IdxStr(i - 1)>>
           sub == SubMap(ip, chm)
           sc  == SubSet(ip, cons) IN
       CASE kind = "map" ->
              LET c == Chg(body, st[i], tst, sub, sc)
              IN  ChgLoop(kind, body, n, i + 1, st, tst, chm, cons, C2(acc.ret \/ c.ret, acc.rs \cup PreSet(ip, c.rs)))
         [] kind \in {"scan", "acc"} ->
              LET a == <<st[1], IF st[2].t = "n" THEN Nn ELSE Unstack(st[2], i)>>
                  c == Chg(body, a, tst, sub, sc)
                  r == Exec(body, a, sub, TRUE)
                  nc == IF kind = "scan" THEN r.ret.k[1] ELSE r.ret
              IN  ChgLoop(kind, body, n, i + 1, <<nc, st[2]>>, <<c.ret, tst[2]>>, chm, cons, C2(acc.ret \/ c.ret, acc.rs \cup PreSet(ip, c.rs)))
         [] kind = "iter" ->
              LET c == Chg(body, <<st[1]>>, <<tst[1]>>, sub, sc)
                  r == Exec(body, <<st[1]>>, sub, TRUE)
              IN  ChgLoop(kind, body, n, i + 1, <<r.ret, st[2]>>, <<c.ret, tst[2]>>, chm, cons, C2(acc.ret \/ c.ret, acc.rs \cup PreSet(ip, c.rs)))
         [] kind = "mit" ->
              IF IsT(Unstack(st[2], i))
              THEN LET c == Chg(body, <<st[1]>>, <<tst[1]>>, sub, sc)
                       r == Exec(body, <<st[1]>>, sub, TRUE)
                   IN  ChgLoop(kind, body, n, i + 1, <<r.ret, st[2]>>, <<c.ret \/ tst[2], tst[2]>>, chm, cons, C2(acc.ret \/ c.ret, acc.rs \cup PreSet(ip, c.rs)))
              ELSE ChgLoop(kind, body, n, i + 1, st, <<tst[1] \/ tst[2], tst[2]>>, chm, cons, acc)

UnderAny(a, rs) == \E p \in rs : IsPrefixP(p, a)

---------------------------------------------------------------------------
\* LAWS.  pre/post : abstract traces.  cons : finite map Path -> Int of EFFECTIVE
\* constraints (masked-False entries removed).  Each returns TRUE when the law holds.

\* C01/C02/C22: a trace is exactly the execution its choices and arguments describe
LawVisited(p, T) == LET r == ExecT(p, T) IN r.err = "none" /\ DOMAIN r.lps = DOMAIN T.choices
LawScore(p, T)   == Close(Score(ExecT(p, T)), T.score)
\* (masked_iterate documents nothing about the values it returns at False steps: only its score is specified)
\* (nor does the spec know the shape of an empty stack: zero-length maps are checked for choices/score/weights only)
LawRet(p, T)     == p.k = "maskediterate" \/ (p.k \in {"vmap", "repeat"} /\ p.n = 0) \/ NormV(ExecT(p, T).ret) = NormV(T.ret)

\* C03: importance
LawGenAgree(T, cons)     == \A a \in DOMAIN cons \cap DOMAIN T.choices : T.choices[a] = cons[a]
LawGenWeight(p, T, cons, w) == Close(w, GenWt(ExecT(p, T), DOMAIN cons))

\* C05: update.  tags[j] \in {"N","U"} honest taint of argument j.
RsD(p, post, tags, D) == Chg(p, post.args, [j \in 1..Len(tags) |-> tags[j] = "U"], post.choices, D).rs
Rs(p, post, tags, cons) == RsD(p, post, tags, DOMAIN cons)
\* td = the set of addresses whose request entry may taint what follows: the effectively constrained addresses, plus
\* -- when mask flags are traced -- the masked-off ones (the implementation cannot know a traced flag is False and
\* tags the value UnknownChange, which a downstream switch index documents as a resampling trigger).
FreshD(p, pre, post, tags, cons, td) ==
  {a \in DOMAIN post.choices : a \notin DOMAIN cons /\ (a \notin DOMAIN pre.choices \/ UnderAny(a, RsD(p, post, tags, td)))}
Fresh(p, pre, post, tags, cons) == FreshD(p, pre, post, tags, cons, DOMAIN cons)
LawUpdArgs(post, args2) == post.args = args2
LawUpdConstrained(post, cons) == \A a \in DOMAIN cons \cap DOMAIN post.choices : post.choices[a] = cons[a]
LawUpdKeptD(p, pre, post, tags, cons, td) ==
  \A a \in DOMAIN post.choices \cap DOMAIN pre.choices :
     (a \notin DOMAIN cons /\ ~UnderAny(a, RsD(p, post, tags, td))) => post.choices[a] = pre.choices[a]
LawUpdKept(p, pre, post, tags, cons) == LawUpdKeptD(p, pre, post, tags, cons, DOMAIN cons)
LawUpdWeightD(p, pre, post, tags, cons, td, w) ==
  FreshD(p, pre, post, tags, cons, td) = {} => Close(w, post.score - pre.score)
LawUpdWeight(p, pre, post, tags, cons, w) == LawUpdWeightD(p, pre, post, tags, cons, DOMAIN cons, w)
LawUpdDiscardD(p, pre, post, tags, cons, td, disc) ==
  /\ \A a \in DOMAIN cons \cap DOMAIN pre.choices \cap DOMAIN post.choices : a \in DOMAIN disc   \* overwritten => recorded
  /\ \A a \in DOMAIN disc :
        \/ /\ a \in DOMAIN pre.choices /\ disc[a] = pre.choices[a]                                \* holds the previous values
           /\ (a \in DOMAIN cons \/ a \notin DOMAIN post.choices \/ UnderAny(a, RsD(p, post, tags, td)))
        \/ (a \notin DOMAIN pre.choices /\ a \in DOMAIN post.choices)   \* newly revealed address (mask False->True): its previous value was not observable
LawUpdDiscard(p, pre, post, tags, cons, disc) == LawUpdDiscardD(p, pre, post, tags, cons, DOMAIN cons, disc)

\* C06: the backward request restores
LawUndoRestore(pre, undo) == undo.choices = pre.choices /\ Close(undo.score, pre.score) /\ undo.ret = pre.ret /\ undo.args = pre.args
LawUndoWeight(w, uw) == Close(uw, -w)

\* C07: regenerate
LawRegenUnselected(pre, post, sel) ==
  \A a \in DOMAIN pre.choices : ~Selected(sel, a) => (a \in DOMAIN post.choices /\ post.choices[a] = pre.choices[a])
LawRegenWeight(pre, post, w) == Close(w, post.score - pre.score)
LawRegenEmpty(pre, post, sel, w, argsSame) ==
  (argsSame /\ \A a \in DOMAIN pre.choices : ~Selected(sel, a)) => (post = pre /\ Close(w, 0))

\* C22: programs of the static language proper (callees are distributions or static functions)
RECURSIVE PureStatic(_)
PureStatic(p) == \/ p.k \in {"dist", "cat"}
                 \/ p.k = "static" /\ \A j \in 1..Len(p.sites) : PureStatic(p.sites[j].callee)

\* C10: project
LawProject(p, T, sel, w) == Close(w, ProjWt(ExecT(p, T), sel))

\* C34: sub-trace at a static address of a static program
LawSubtrace(p, T, addr, sub) ==
  /\ sub.choices = SubMap(addr, T.choices)
  /\ Close(sub.score, SumF(ExecT(p, T).lps, {a \in DOMAIN T.choices : IsPrefixP(addr, a)}))
=============================================================================
