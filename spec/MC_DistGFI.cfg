CONSTANTS NArgs = 2
 NVals = 3
 MaxSteps = 3
SPECIFICATION Spec
INVARIANT TypeOK
INVARIANT ScoreIsLP
INVARIANT GenerateLaw
INVARIANT UpdateLaw
INVARIANT RegenerateLaw
INVARIANT ProjectLaw
INVARIANT AssessLaw
INVARIANT Telescopes
PROPERTY UndoRestores
CHECK_DEADLOCK FALSE
