CONSTANTS Emit = FALSE
 GridMax = 1
SPECIFICATION Spec
INVARIANT Reversible
INVARIANT AlphaAntisymmetric
INVARIANT OnlySelectedMove
INVARIANT EnergyBounded
CHECK_DEADLOCK FALSE
