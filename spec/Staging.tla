------------------------------ MODULE Staging ------------------------------
(***************************************************************************)
(* Staging helpers of GenJAX (genjax/_src/core/compiler/staging.py):       *)
(*   FlagOp.and_ / or_ / xor_ / not_ / where / cond                        *)
(*   tree_choose(idx, pytrees)           element idx MODULO len, dtype join *)
(*   multi_switch(idx, branches, args)   branch at the CLAMPED index runs,  *)
(*                                       the others leave zero placeholders *)
(*                                                                         *)
(* The module defines the meaning of each helper on a finite input grid    *)
(* and one state per case; numbers are in halves (value * 2) so that       *)
(* bool / int32 / float32 leaves share one integer universe:               *)
(*   bool False/True = 0/2,  int k = 2k,  float k + 1/2 = 2k + 1.          *)
(* Role A: Boolean-algebra laws of the flag operations under broadcasting, *)
(* where/cond duality, periodicity of the modular choice, two definitions  *)
(* of the dtype join, "exactly the clamped branch is filled".              *)
(* Role B: every case is printed with its expected result.                 *)
(***************************************************************************)
EXTENDS Integers, Sequences, FiniteSets, TLC, Json

CONSTANTS Emit,        \* TRUE: print every case (role B)
          Families     \* subset of {"flag","where","cond","choose","choosev","switch"}

ChooseIdx == (0 - 4)..6
SwitchIdx == (0 - 2)..4

MaxI(a, b) == IF a >= b THEN a ELSE b
Bc(b, p) == IF Len(b) = 1 THEN b[1] ELSE b[p]          \* a scalar broadcasts against a vector

---------------------------------------------------------------------------
\* Flags: a Python bool, a scalar Boolean array, or a Boolean vector of length 2.
FlagOperands == {[k |-> kk, b |-> <<x>>] : kk \in {"py", "arr"}, x \in BOOLEAN}
                \cup {[k |-> "vec", b |-> <<x, y>>] : x \in BOOLEAN, y \in BOOLEAN}
ScalarFlags == {f \in FlagOperands : f.k # "vec"}

FlagBin(op, x, y) ==
  [p \in 1..MaxI(Len(x.b), Len(y.b)) |->
     CASE op = "and" -> Bc(x.b, p) /\ Bc(y.b, p)
       [] op = "or"  -> Bc(x.b, p) \/ Bc(y.b, p)
       [] op = "xor" -> Bc(x.b, p) # Bc(y.b, p)]
FlagNot(x) == [p \in 1..Len(x.b) |-> ~x.b[p]]

\* (case enumerations are written as predicates on the case c: TLC enumerates them through Next without
\*  having to build and normalise sets of large records)
FlagCase(c) == \/ \E op \in {"and", "or", "xor"}, x \in FlagOperands, y \in FlagOperands :
                    c = [fam |-> "flag", op |-> op, x |-> x, y |-> y, exp |-> FlagBin(op, x, y)]
               \/ \E x \in FlagOperands : c = [fam |-> "flag", op |-> "not", x |-> x, y |-> x, exp |-> FlagNot(x)]

---------------------------------------------------------------------------
\* where(f, tf, ff): both values have one form (python scalar / scalar array / vector of length 2) and dtype.
WhereVal(vf, base) == IF vf = "vec" THEN <<base, base + 4>> ELSE <<base>>
Where(f, tf, ff) == [p \in 1..Len(tf) |-> IF Bc(f.b, p) THEN tf[p] ELSE ff[p]]
WhereCase(c) == \E f \in FlagOperands, vf \in {"py", "arr", "vec"}, dt \in {"int32", "float32"} :
                  /\ f.k = "vec" => vf = "vec"          \* lax.select: a vector predicate needs values of its shape
                  /\ c = [fam |-> "where", f |-> f, vf |-> vf, dt |-> dt, tf |-> WhereVal(vf, 6), ff |-> WhereVal(vf, 8),
                          exp |-> Where(f, WhereVal(vf, 6), WhereVal(vf, 8))]

\* cond(f, tf, ff, *args): branch functions return (their tag, *args); only scalar flags.
Cond(f, tagT, tagF, args) == <<IF f.b[1] THEN tagT ELSE tagF>> \o args
CondCase(c) == \E f \in ScalarFlags, a \in {<<>>, <<10>>, <<10, 14>>} :
                  c = [fam |-> "cond", f |-> f, tagT |-> 2, tagF |-> 4, args |-> a, exp |-> Cond(f, 2, 4, a)]

---------------------------------------------------------------------------
\* dtypes and their join (jnp.choose promotes bool < int32 < float32).
DT == <<"bool", "int32", "float32">>
Rank(dt) == CHOOSE i \in 1..3 : DT[i] = dt
Join2(a, b) == IF Rank(a) >= Rank(b) THEN a ELSE b
RECURSIVE JoinSeq(_)
JoinSeq(s) == IF Len(s) = 1 THEN s[1] ELSE Join2(s[1], JoinSeq(Tail(s)))
JoinMax(s) == DT[CHOOSE r \in 1..3 : (\E i \in 1..Len(s) : Rank(s[i]) = r) /\ \A i \in 1..Len(s) : Rank(s[i]) <= r]

\* The leaf of choice i (1-based) at leaf position l with dtype dt, in halves.
LeafVal(dt, i, l) == CASE dt = "bool"    -> IF i % 2 = 1 THEN 2 ELSE 0
                       [] dt = "int32"   -> 2 * (i + 1 + 3 * (l - 1))
                       [] dt = "float32" -> 2 * (i + 3 * (l - 1)) + 1
MkLeaf(dt, i, l) == [dt |-> dt, v |-> LeafVal(dt, i, l)]

\* tree_choose on choices vs (each a sequence of leaves): leafwise, element idx mod n, dtype = join of that leaf's dtypes.
Choose(idx, vs) ==
  LET n == Len(vs)
      sel == (idx % n) + 1
  IN  [l \in 1..Len(vs[1]) |-> [dt |-> JoinSeq([i \in 1..n |-> vs[i][l].dt]), v |-> vs[sel][l].v]]

Pat(name, n) == CASE name = "I" -> [i \in 1..n |-> "int32"]
                  [] name = "F" -> [i \in 1..n |-> "float32"]
                  [] name = "M" -> [i \in 1..n |-> DT[((i - 1) % 3) + 1]]
                  [] name = "R" -> [i \in 1..n |-> DT[3 - ((i - 1) % 3)]]
\* choices for a tree shape: "leaf" (one leaf, every dtype assignment), "pair" (a, b), "nest" {"a": l1, "b": (l2, l3)}
ChoicesLeaf(n, dts) == [i \in 1..n |-> <<MkLeaf(dts[i], i, 1)>>]
ChoicesPat(n, pats) == [i \in 1..n |-> [l \in 1..Len(pats) |-> MkLeaf(Pat(pats[l], n)[i], i, l)]]

ChooseCase(idx, ik, form, shape, vs) ==
  [fam |-> "choose", idx |-> idx, ik |-> ik, form |-> form, shape |-> shape, vs |-> vs, exp |-> Choose(idx, vs)]
DT3 == {"bool", "int32", "float32"}
ChooseCaseP(c, idx) ==
  \E ik \in {"int", "arr"} :
     \/ \E form \in {"py", "arr"}, n \in 1..3 : \E dts \in [1..n -> DT3] :
           c = ChooseCase(idx, ik, form, "leaf", ChoicesLeaf(n, dts))
     \/ \E n \in {2, 3}, a \in {"I", "F", "M"}, b \in {"I", "M", "R"} :
           c = ChooseCase(idx, ik, "arr", "pair", ChoicesPat(n, <<a, b>>))
     \/ \E n \in {1, 2, 3} : c = ChooseCase(idx, ik, "arr", "nest", ChoicesPat(n, <<"M", "I", "R">>))

\* tree_choose with an index VECTOR over int32 vector leaves: positionwise.
VecChoice(i) == <<2 * (10 * i + 1), 2 * (10 * i + 2)>>
ChooseV(idx, vs) == [p \in 1..2 |-> vs[(idx[p] % Len(vs)) + 1][p]]
ChooseVCase(c, i1) == \E i2 \in ChooseIdx, n \in {2, 3} :
                    c = [fam |-> "choosev", idx |-> <<i1, i2>>, vs |-> [i \in 1..n |-> VecChoice(i)],
                         exp |-> ChooseV(<<i1, i2>>, [i \in 1..n |-> VecChoice(i)])]

---------------------------------------------------------------------------
\* multi_switch.  Branch kinds: the arguments of the branch at position j (1-based) and the leaves it returns
\* (branches only rearrange their arguments).  A leaf: [dt, v : sequence of halves (length 1 = scalar, 2 = vector)].
BArgs(kd, j) ==
  CASE kd = "A" -> << [dt |-> "int32", v |-> <<2 * (10 + j)>>] >>
    [] kd = "B" -> << [dt |-> "int32", v |-> <<2 * (20 + j)>>], [dt |-> "float32", v |-> <<2 * (30 + j) + 1>>] >>
    [] kd = "C" -> << [dt |-> "float32", v |-> <<2 * (40 + j) + 1, 2 * (50 + j) + 1>>] >>
    [] kd = "D" -> << [dt |-> "bool", v |-> <<2>>], [dt |-> "int32", v |-> <<2 * (60 + j)>>] >>
BOut(kd, a) ==
  CASE kd = "A" -> <<a[1]>>                  \* lambda x: x
    [] kd = "B" -> <<a[1], a[1], a[2]>>      \* lambda x, y: {"r": x, "e": [x, y]}   observed as r, e[0], e[1]
    [] kd = "C" -> <<a[1]>>                  \* lambda v: (v,)
    [] kd = "D" -> <<a[2], a[1]>>            \* lambda b, x: (x, b)
ZeroLeaf(lf) == [dt |-> lf.dt, v |-> [p \in 1..Len(lf.v) |-> 0]]
Clamp(i, lo, hi) == IF i < lo THEN lo ELSE IF i > hi THEN hi ELSE i
Switch(idx, kds) ==
  LET n == Len(kds)
      sel == Clamp(idx, 0, n - 1) + 1
  IN  [j \in 1..n |-> LET out == BOut(kds[j], BArgs(kds[j], j))
                      IN  IF j = sel THEN out ELSE [l \in 1..Len(out) |-> ZeroLeaf(out[l])]]
BK == {"A", "B", "C", "D"}
SwitchCase(idx, ik, kds) == [fam |-> "switch", idx |-> idx, ik |-> ik, kds |-> kds,
                             args |-> [j \in 1..Len(kds) |-> BArgs(kds[j], j)], exp |-> Switch(idx, kds)]
SwitchCaseP(c, idx) == \E ik \in {"int", "arr"}, n \in 1..3 : \E kds \in [1..n -> BK] :
                    c = SwitchCase(idx, ik, kds)

---------------------------------------------------------------------------
VARIABLE case
\* Start -> one selector state per (family, index value) -> the cases of that family with that index
\* (the selector layer only lets TLC's workers share the enumeration).
Start == [fam |-> "start"]
Sel(f, i) == [fam |-> "sel", of |-> f, i |-> i]
Init == case = Start
Next == \/ /\ case = Start
           /\ \E f \in Families : \E i \in ChooseIdx :
                 /\ f \in {"flag", "where", "cond"} => i = 0
                 /\ f = "switch" => i \in SwitchIdx
                 /\ case' = Sel(f, i)
        \/ /\ case.fam = "sel"
           /\ \/ case.of = "flag" /\ FlagCase(case')
              \/ case.of = "where" /\ WhereCase(case')
              \/ case.of = "cond" /\ CondCase(case')
              \/ case.of = "choose" /\ ChooseCaseP(case', case.i)
              \/ case.of = "choosev" /\ ChooseVCase(case', case.i)
              \/ case.of = "switch" /\ SwitchCaseP(case', case.i)
Spec == Init /\ [][Next]_case

---------------------------------------------------------------------------
\* Role A: laws of the definitions above, evaluated on every case.
AsFlag(b) == [k |-> IF Len(b) = 1 THEN "arr" ELSE "vec", b |-> b]
FlagLaws ==
  case.fam = "flag" /\ case.op # "not" =>
    LET x == case.x
        y == case.y
    IN  /\ FlagBin(case.op, x, y) = FlagBin(case.op, y, x)                                            \* commutative
        /\ FlagNot(AsFlag(FlagBin("and", x, y))) = FlagBin("or", AsFlag(FlagNot(x)), AsFlag(FlagNot(y)))   \* De Morgan
        /\ FlagNot(AsFlag(FlagBin("or", x, y))) = FlagBin("and", AsFlag(FlagNot(x)), AsFlag(FlagNot(y)))
        /\ FlagBin("xor", x, y) = FlagBin("and", AsFlag(FlagBin("or", x, y)), AsFlag(FlagNot(AsFlag(FlagBin("and", x, y)))))
        /\ FlagBin("and", x, x) = x.b /\ FlagBin("or", x, x) = x.b
        /\ FlagNot(AsFlag(FlagNot(x))) = x.b
        /\ \A p \in 1..Len(FlagBin("xor", x, x)) : ~FlagBin("xor", x, x)[p]
WhereLaws ==
  /\ case.fam = "where" =>
        /\ Where(case.f, case.tf, case.ff) = Where(AsFlag(FlagNot(case.f)), case.ff, case.tf)        \* swapping arms = negating the flag
        /\ Where(case.f, case.tf, case.tf) = case.tf
        /\ \A p \in 1..Len(case.exp) : case.exp[p] \in {case.tf[p], case.ff[p]}
  /\ case.fam = "cond" =>
        /\ Cond(case.f, case.tagT, case.tagF, case.args)[1] = Where(case.f, <<case.tagT>>, <<case.tagF>>)[1]   \* cond = where on the branch results
        /\ SubSeq(case.exp, 2, Len(case.exp)) = case.args
ChooseLaws ==
  /\ case.fam = "choose" =>
        LET n == Len(case.vs) IN
        /\ Choose(case.idx + n, case.vs) = case.exp /\ Choose(case.idx - n, case.vs) = case.exp    \* periodic in the index
        /\ (case.idx \in 0..(n - 1)) => \A l \in 1..Len(case.exp) : case.exp[l].v = case.vs[case.idx + 1][l].v   \* vs[idx] in range
        /\ \A l \in 1..Len(case.exp) :
              LET dts == [i \in 1..n |-> case.vs[i][l].dt] IN
              /\ case.exp[l].dt = JoinMax(dts)                                                        \* fold-join = maximum
              /\ \A i \in 1..n : Rank(dts[i]) <= Rank(case.exp[l].dt)
              /\ \E i \in 1..n : case.exp[l].v = case.vs[i][l].v                                      \* one of the choices, the same one for every leaf
        /\ \E i \in 1..n : \A l \in 1..Len(case.exp) : case.exp[l].v = case.vs[i][l].v
  /\ case.fam = "choosev" =>
        \A p \in 1..2 : case.exp[p] = Choose(case.idx[p], [i \in 1..Len(case.vs) |-> <<[dt |-> "int32", v |-> case.vs[i][p]]>>])[1].v
SwitchLaws ==
  case.fam = "switch" =>
    LET n == Len(case.kds)
        sel == Clamp(case.idx, 0, n - 1)
    IN  /\ sel \in 0..(n - 1)
        /\ Switch(sel, case.kds) = case.exp                                                          \* clamping is idempotent
        /\ (case.idx \in 0..(n - 1)) => sel = case.idx /\ sel = case.idx % n                         \* in range: clamp = wrap = identity
        /\ case.idx < 0 => sel = 0
        /\ case.idx > n - 1 => sel = n - 1
        /\ Cardinality({j \in 1..n : case.exp[j] = BOut(case.kds[j], case.args[j])}) = 1             \* exactly one branch ran (outputs are non-zero)
        /\ \A j \in 1..n : j # sel + 1 => \A l \in 1..Len(case.exp[j]) : \A p \in 1..Len(case.exp[j][l].v) : case.exp[j][l].v[p] = 0
        /\ \A j \in 1..n : \A l \in 1..Len(case.exp[j]) :                                            \* placeholders keep dtype and shape
              LET o == BOut(case.kds[j], case.args[j])[l]
              IN  case.exp[j][l].dt = o.dt /\ Len(case.exp[j][l].v) = Len(o.v)

\* Role B.
EmitCase == (Emit /\ case.fam \notin {"start", "sel"}) => PrintT(<<"CASE", ToJson(case)>>)
=============================================================================
