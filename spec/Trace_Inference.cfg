CONSTANTS Emit = FALSE
 Kinds = {}
 TOL = 4
 HB = 256
 HB2 = 2048
SPECIFICATION TSpec
CHECK_DEADLOCK FALSE
