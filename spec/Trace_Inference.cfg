CONSTANTS Emit = FALSE
 Kinds = {}
 TOL = 4
 HB = 256
SPECIFICATION TSpec
CHECK_DEADLOCK FALSE
