CONSTANTS Emit = FALSE
 Kinds = {"smc", "change", "marg", "mh"}
SPECIFICATION Spec
INVARIANT TablesNormalized
INVARIANT SamplerNormalized
INVARIANT WeightIsRatio
INVARIANT EvidenceUnbiased
INVARIANT EvidenceUnbiasedK
INVARIANT PAlgIsDistribution
INVARIANT PAlgK1IsProposal
INVARIANT DensitySampler
INVARIANT DensityEstimator
INVARIANT PAlgApproachesPosterior
INVARIANT ChangeProper
INVARIANT ChangeGrowMass
INVARIANT ChangeShrinkMass
INVARIANT ChangeParticle
INVARIANT MarginalUnbiased
INVARIANT MarginalExact
INVARIANT MarginalGuardCoverage
INVARIANT MHAntisymmetric
INVARIANT MHDetailedBalance
INVARIANT MHStationary
INVARIANT MHOldArgsDiffers
INVARIANT MHArgsAntisymmetric
INVARIANT MHVecLaws
CHECK_DEADLOCK FALSE
