----------------------------- MODULE AdevTrace -----------------------------
(***************************************************************************)
(* Trace validation for C29: every event logged by harness/eng_adev.py     *)
(* from the real genjax.adev code is judged against Adev.tla.              *)
(*                                                                         *)
(* Event kinds (all numbers are fixed-point ints, scale S = 1024):         *)
(*  jvp   : program term, th = thn/4, dth, outcome classes <<P, T, count>> *)
(*          of Expectation.jvp_estimate over n keys.  Law: every class is  *)
(*          Estimate(prog, th, dth, om) for some outcome vector om         *)
(*          (C29.primal / C29.tangent), and -- for programs whose sampled  *)
(*          sites are not preceded by an enumerating site -- the class     *)
(*          frequencies agree with P(om) within the Hoeffding bound hb     *)
(*          (C29.freq).                                                    *)
(*  grad  : grad_estimate vs the jvp tangent with unit tangent, same key.  *)
(*  est   : Expectation.estimate vs the jvp primal, same key.              *)
(*  cont  : continuous primitives with affine continuations: pathwise /    *)
(*          score-function formula with the noise inferred from the primal.*)
(*          (beta_implicit: range and sign conditions only)                *)
(***************************************************************************)
EXTENDS Adev, IOUtils

Log == JsonDeserialize(IOEnv.TRACE_FILE)
NChunks == 16

Diff(a, b) == IF a >= b THEN a - b ELSE b - a
Close(a, b, tol) == Diff(a, b) <= tol
\* fixed point of a rational without overflowing for |num| up to 2^31, den < 2^20
ToFPBig(q) == (q[1] \div q[2]) * S + ((q[1] % q[2]) * 2 * S + q[2]) \div (2 * q[2])
TolOf(x) == 3 + AbsI(x) \div 2048          \* 3 units (0.003) + 0.05 %

---------------------------------------------------------------------------
\* Discrete programs.
FPPair(d) == << ToFPBig(d[1]), ToFPBig(d[2]) >>
RECURSIVE EstTabFrom(_, _, _, _)
EstTabFrom(p, thq, dthq, n) ==
  IF n > 16 THEN <<>>
  ELSE << IF RelOm(p, n)
          THEN [ok |-> TRUE, n |-> n, e |-> FPPair(Estimate(p, thq, dthq, OmSeq[n]))]
          ELSE [ok |-> FALSE, n |-> n, e |-> <<0, 0>>] >> \o EstTabFrom(p, thq, dthq, n + 1)

MatchP(tab, o)  == {n \in 1..16 : tab[n].ok /\ Close(tab[n].e[1], o[1], TolOf(o[1]))}
MatchPT(tab, o) == {n \in MatchP(tab, o) : Close(tab[n].e[2], o[2], TolOf(tab[n].e[2]))}

\* a sampled site is never preceded by an enumerating site: the distribution of
\* the visited path is the product of the conditional Bernoulli probabilities
LinearProg(p) == /\ \A s \in 1..NSites(p) : SiteStmt(p, s).strat \in SampledStrats =>
                       \A s0 \in 1..(s - 1) : SiteStmt(p, s0).strat \in SampledStrats
                 \* (flip_mvd evaluates the other outcome with the same key: later sampled sites are coupled)
                 /\ \A s \in 1..NSites(p) : SiteStmt(p, s).strat = "MVD" =>
                       \A s1 \in (s + 1)..NSites(p) : SiteStmt(p, s1).strat \notin SampledStrats
RECURSIVE QSumSet(_, _, _)
QSumSet(p, thq, W) == IF W = {} THEN Q0
                      ELSE LET n == CHOOSE m \in W : TRUE IN QAdd(POm(p, thq, OmSeq[n]), QSumSet(p, thq, W \ {n}))
RECURSIVE CountOf(_, _, _, _)
CountOf(tab, outs, W, i) == IF i > Len(outs) THEN 0
                            ELSE (IF MatchPT(tab, outs[i]) = W THEN outs[i][3] ELSE 0) + CountOf(tab, outs, W, i + 1)
FreqOk(p, thq, tab, outs, ntot, hb) ==
  LET Ws == {MatchPT(tab, outs[i]) : i \in 1..Len(outs)} IN
  IF \E W1 \in Ws : \E W2 \in Ws : W1 # W2 /\ W1 \cap W2 # {} THEN "skip"
  ELSE IF \A W \in Ws : LET q == QSumSet(p, thq, W)
                            c == CountOf(tab, outs, W, 1)
                        IN  q[2] > 100000 \/ Diff(c * q[2], ntot * q[1]) <= hb * q[2]
       THEN "ok" ELSE "bad"

JvpVerdictTab(ev, thq, tab) ==
  IF \E i \in 1..Len(ev.outs) : MatchP(tab, ev.outs[i]) = {} THEN "C29.primal"
  ELSE IF \E i \in 1..Len(ev.outs) : MatchPT(tab, ev.outs[i]) = {} THEN "C29.tangent"
  ELSE IF ev.hb > 0 /\ HasSampled(ev.prog) /\ LinearProg(ev.prog)
          /\ FreqOk(ev.prog, thq, tab, ev.outs, ev.n, ev.hb) = "bad" THEN "C29.freq"
  ELSE "ok"
JvpVerdict(ev) ==
  IF ev.status # "ok" THEN "C29.run"
  ELSE JvpVerdictTab(ev, QN(ev.thn, 4), EstTabFrom(ev.prog, QN(ev.thn, 4), QI(ev.dth), 1))

\* grad_estimate agrees with jvp_estimate (unit tangent, same key);
\* Expectation.estimate returns the primal.
\* (reverse mode is optional where JAX cannot transpose the estimator: NotImplementedError = rejected)
PairVerdict(ev, clause) ==
  IF ev.status = "raised:NotImplementedError" THEN "rejected"
  ELSE IF ev.status # "ok" THEN clause \o ".run"
  ELSE IF \A i \in 1..Len(ev.a) : Close(ev.a[i], ev.b[i], TolOf(ev.a[i])) THEN "ok" ELSE clause

---------------------------------------------------------------------------
\* Continuous primitives.  x_i = mu_i + sum_j L_ij eps_j with mu = m0 + m1 th,
\* L = l0 + l1 th (integers), continuation y_i = a_i x_i + c_i th.
ThF(ev) == ev.thn * (S \div 4)
MuF(ev, i) == ev.m0[i] * S + ev.m1[i] * ThF(ev)
LF(ev, i, j) == ev.l0[i][j] * S + ev.l1[i][j] * ThF(ev)
XF(ev, o, i) == o.p[i] - ev.c[i] * ThF(ev)                       \* a_i * x_i
Eps1(ev, o) == ((XF(ev, o, 1) - ev.a[1] * MuF(ev, 1)) * S) \div (ev.a[1] * LF(ev, 1, 1))
Eps2(ev, o, e1) == (((XF(ev, o, 2) - ev.a[2] * MuF(ev, 2)) - ev.a[2] * ((LF(ev, 2, 1) * e1) \div S)) * S)
                     \div (ev.a[2] * LF(ev, 2, 2))
PathT1(ev, e1) == ev.a[1] * (ev.m1[1] * S + ev.l1[1][1] * e1) + ev.c[1] * S
PathT2(ev, e1, e2) == ev.a[2] * (ev.m1[2] * S + ev.l1[2][1] * e1 + ev.l1[2][2] * e2) + ev.c[2] * S
TolC == 24
SaneEps(e) == AbsI(e) <= 7 * S
PathOk1(ev, o, e1) == SaneEps(e1) => Close(o.t[1], PathT1(ev, e1), TolC)
PathOk2(ev, o, e1, e2) == (SaneEps(e1) /\ SaneEps(e2)) =>
                             (Close(o.t[1], PathT1(ev, e1), TolC) /\ Close(o.t[2], PathT2(ev, e1, e2), 2 * TolC))
PathwiseOk(ev, o) ==
  IF ev.d = 1 THEN PathOk1(ev, o, Eps1(ev, o))
  ELSE PathOk2(ev, o, Eps1(ev, o), Eps2(ev, o, Eps1(ev, o)))

\* score function of Normal(mu, sigma): d/dth log N(x) = (z m1 + (z^2 - 1) l1) / sigma, z = (x - mu)/sigma
ScoreT(ev, o, z) == ev.c[1] * S + (o.p[1] * (((z * ev.m1[1] + ((z * z) \div S - S) * ev.l1[1][1]) * S) \div LF(ev, 1, 1))) \div S
ScoreOkZ(ev, o, z) == AbsI(z) <= 5 * S => Close(o.t[1], ScoreT(ev, o, z), 24 + AbsI(ScoreT(ev, o, z)) \div 64)
ScoreOk(ev, o) == ScoreOkZ(ev, o, Eps1(ev, o))

UniformOk(ev, o) == /\ Close(o.t[1], ev.c[1] * S, 2)
                    /\ XF(ev, o, 1) >= -2 /\ XF(ev, o, 1) <= ev.a[1] * S + 2

\* beta_implicit(alpha, beta), alpha = m0[1] + m1[1] th, beta = m0[2] + m1[2] th.  TFP samples a Beta
\* variate from two Gamma variates, so the pathwise derivative is not a function of x alone: only the
\* coupling-independent necessary conditions are checked (x in (0,1); dx/dalpha > 0 > dx/dbeta).
BetaDir(ev) == IF ev.m1[1] >= 0 /\ ev.m1[2] <= 0 /\ ev.m1[1] - ev.m1[2] > 0 THEN 1
               ELSE IF ev.m1[1] <= 0 /\ ev.m1[2] >= 0 /\ ev.m1[2] - ev.m1[1] > 0 THEN -1 ELSE 0
BetaOk(ev, o) == /\ XF(ev, o, 1) >= -2 /\ XF(ev, o, 1) <= ev.a[1] * S + 2
                 /\ BetaDir(ev) * ev.a[1] * (o.t[1] - ev.c[1] * S) >= -2

\* geometric_reinforce with probs pi = (pi0 + pi1 thn)/pid: exact rational REINFORCE formula
GeoPi(ev) == QN(ev.pi0 + ev.pi1 * ev.thn, ev.pid)
GeoDPi(ev) == QN(4 * ev.pi1, ev.pid)
GeoV(ev, o) == (XF(ev, o, 1) + (ev.a[1] * S) \div 2) \div (ev.a[1] * S)
GeoT(ev, v) == QAdd(QI(ev.c[1]),
                    QMul(QAdd(QI(ev.a[1] * v), QMul(QI(ev.c[1]), QN(ev.thn, 4))),
                         QMul(GeoDPi(ev), QSub(QDiv(Q1, GeoPi(ev)), QDiv(QI(v), QSub(Q1, GeoPi(ev)))))))
GeoOkV(ev, o, v) == /\ v >= 0 /\ Close(XF(ev, o, 1), v * ev.a[1] * S, 3)
                    /\ (v <= 200 => Close(o.t[1], ToFPBig(GeoT(ev, v)), TolOf(o.t[1])))
GeoOk(ev, o) == GeoOkV(ev, o, GeoV(ev, o))

\* two consecutive tail-call sites (component i = site i): pathwise law per component, and
\* the inferred noises are independent: the number of keys on which they have the same sign
\* is within the Hoeffding bound hb of n/2 (C29.indep)
\* (mv_diag_batched: o.p, o.t hold row 1 then row 2; the compared noises are those of the first component of each row)
RowOf(o, k) == [p |-> << o.p[2 * k - 1], o.p[2 * k] >>, t |-> << o.t[2 * k - 1], o.t[2 * k] >>]
Noise1(ev, o) == IF ev.fam = "uniform_normal_reparam" THEN 2 * XF(ev, o, 1) - ev.a[1] * S
                 ELSE IF ev.fam = "mv_diag_batched" THEN Eps1(ev, RowOf(o, 1)) ELSE Eps1(ev, o)
Noise2(ev, o) == IF ev.fam = "mv_diag_batched" THEN Eps1(ev, RowOf(o, 2)) ELSE Eps2(ev, o, 0)
RECURSIVE SameSign(_, _)
SameSign(ev, i) == IF i > Len(ev.outs) THEN 0
                   ELSE (IF (Noise1(ev, ev.outs[i]) > 0) = (Noise2(ev, ev.outs[i]) > 0) THEN 1 ELSE 0) + SameSign(ev, i + 1)
IndepOk(ev) == ev.hb = 0 \/ Diff(2 * SameSign(ev, 1), Len(ev.outs)) <= 2 * ev.hb
RowOk(ev, ro) == PathOk2(ev, ro, Eps1(ev, ro), Eps2(ev, ro, 0))
TwoOk(ev, o) == IF ev.fam = "two_normal_reparam" THEN PathOk2(ev, o, Eps1(ev, o), Eps2(ev, o, 0))
                ELSE IF ev.fam = "mv_diag_batched" THEN RowOk(ev, RowOf(o, 1)) /\ RowOk(ev, RowOf(o, 2))
                ELSE /\ Close(o.t[1], ev.c[1] * S, 2) /\ XF(ev, o, 1) >= -2 /\ XF(ev, o, 1) <= ev.a[1] * S + 2
                     /\ SaneEps(Noise2(ev, o)) => Close(o.t[2], PathT2(ev, 0, Noise2(ev, o)), 2 * TolC)

ContOutOk(ev, o) ==
  CASE ev.fam \in {"normal_reparam", "mv_normal_diag_reparam", "mv_normal_reparam"} -> PathwiseOk(ev, o)
    [] ev.fam \in {"two_normal_reparam", "uniform_normal_reparam", "mv_diag_batched"} -> TwoOk(ev, o)
    [] ev.fam = "normal_reinforce" -> ScoreOk(ev, o)
    [] ev.fam = "uniform" -> UniformOk(ev, o)
    [] ev.fam = "beta_implicit" -> BetaOk(ev, o)
    [] ev.fam = "geometric_reinforce" -> GeoOk(ev, o)
ContVerdict(ev) ==
  IF ev.status # "ok" THEN "C29.run"
  ELSE IF ~(\A i \in 1..Len(ev.outs) : ContOutOk(ev, ev.outs[i])) THEN "C29.cont"
  ELSE IF ev.fam \in {"two_normal_reparam", "uniform_normal_reparam", "mv_diag_batched"} /\ ~IndepOk(ev) THEN "C29.indep"
  ELSE "ok"

Verdict(ev) ==
  CASE ev.kind = "jvp"  -> JvpVerdict(ev)
    [] ev.kind = "grad" -> PairVerdict(ev, "C29.grad")
    [] ev.kind = "est"  -> PairVerdict(ev, "C29.estimate")
    [] ev.kind = "cont" -> ContVerdict(ev)

---------------------------------------------------------------------------
\* One TLC step per event; NChunks independent chains so that workers share the log.
ChunkLen == (Len(Log) + NChunks - 1) \div NChunks
InitT == /\ body = <<>> /\ prog = NoProg /\ r = 0
         /\ \E c \in 0..(NChunks - 1) : th = <<c, 1>> /\ stage = c * ChunkLen
NextT == /\ stage < Len(Log) /\ stage < (th[1] + 1) * ChunkLen
         /\ stage' = stage + 1
         /\ PrintT(<<"VERDICT", ToJson([id |-> Log[stage + 1].id, clause |-> Verdict(Log[stage + 1])])>>)
         /\ UNCHANGED <<body, prog, th, r>>
SpecT == InitT /\ [][NextT]_vars
=============================================================================
