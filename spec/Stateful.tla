------------------------------ MODULE Stateful ------------------------------
(***************************************************************************)
(* C36.  The stateful interpreter of GenJAX (interpreters/stateful.py)     *)
(* walks the equations of the staged program: it reads the operands from   *)
(* an environment (variables, literals, closed-over constants), asks the   *)
(* handler whether it handles the primitive, and otherwise binds the       *)
(* primitive itself; structured primitives (cond / scan / while) and       *)
(* initial-style primitives (call) are bound as ONE primitive.             *)
(*                                                                         *)
(* StEval(p, inputs, H) is that loop over the JaxIR program p with a       *)
(* handler that handles the set of ops H (returning zeros of the shape).   *)
(* The property is  StEval(p, x, {}) = EvalProg(p, x)  for every program   *)
(* and valuation: role A checks it on the spec for every program TLC       *)
(* builds (Transparent) and that a handling handler is observable          *)
(* (HandlerObservable is reported as coverage, not required); role B       *)
(* prints the EvalProg table for replay on stateful(f)(h0, args..).        *)
(* The program source is the one of Incremental.tla (SpecAll).             *)
(***************************************************************************)
EXTENDS Incremental

RECURSIVE StEnv(_, _, _, _)
StEnv(eqs, i, env, H) ==
  IF i > Len(eqs) THEN env
  ELSE LET e == eqs[i] IN
       LetIn(EvalEq(e, env), LAMBDA real :
         LetIn(IF e.op \in H THEN Norm([j \in 1..Len(real) |-> Norm([x \in 1..Len(real[j]) |-> 0])]) ELSE real,
               LAMBDA outs : StEnv(eqs, i + 1, env \o outs, H)))
StEval(p, inputs, H) == LetIn(StEnv(p.eqs, 1, inputs, H), LAMBDA env : Opnds(env, p.outs))

Transparent == Len(prog.eqs) >= 1 =>
  \A n \in 1..Pow3(NIn) : StEval(prog, ValOf(ityp, n - 1), {}) = tab[n]

\* coverage only: handling the op of the last equation changes some output on some valuation
HandlerObservable ==
  \E n \in 1..Pow3(NIn) : StEval(prog, ValOf(ityp, n - 1), {prog.eqs[Len(prog.eqs)].op}) # tab[n]

EmitCase36 == (Emit /\ Len(prog.eqs) >= 1) =>
  PrintT(<<"CASE", ToJson([prog |-> prog, ityp |-> ityp, chain |-> chain, cnt |-> cnt, kc |-> KConsts,
                           vals |-> [n \in 1..Pow3(NIn) |-> ValOf(ityp, n - 1)],
                           ev |-> tab, hobs |-> IF HandlerObservable THEN 1 ELSE 0])>>)
=============================================================================
