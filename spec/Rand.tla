-------------------------------- MODULE Rand --------------------------------
(* Deterministic pseudo-random streams inside TLA+ (no reliance on TLC's own *)
(* RNG): a 16-bit Lehmer generator (the ZX81 one), r' = 75 r + 74 mod 65537. *)
(* Generators thread the stream explicitly: every Gen operator returns a     *)
(* record with the produced value and the advanced stream state.             *)
EXTENDS Naturals
RNext(r) == (r * 75 + 74) % 65537
RPick(r, n) == (r \div 7) % n             \* index in 0..n-1 from the current state
RSeed(s, i) == RNext(RNext((s * 7919 + i * 104729 + 1) % 65537))
=============================================================================
