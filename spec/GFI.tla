-------------------------------- MODULE GFI --------------------------------
(***************************************************************************)
(* The generative function interface of GenJAX as an abstract machine.     *)
(*                                                                         *)
(* Programs are terms [k, n, subs, sites, ret, x] (distributions, the      *)
(* static language, combinators).  Exec is the DENOTATIONAL semantics Gen  *)
(* defines: run the program reading every random choice from a choice map *)
(* (finite map Path -> Int) and return the per-choice log densities, the   *)
(* return value and an error status.  Everything the GFI laws mention      *)
(* (score, projection weights, importance weights, update/regenerate laws, *)
(* backward requests) is defined from Exec in GFILaws below.               *)
(*                                                                         *)
(* Log densities are fixed point x256.  Table distribution d in 0..3 has   *)
(* the FINGERPRINT density LP(d,a,v) = -32^d (1+v+3a): one base-32 digit   *)
(* per distribution, so a sum of log densities identifies which multiset   *)
(* of (site, value, parent value) terms was summed.                        *)
(***************************************************************************)
EXTENDS GFIBase

Pg(k, n, subs, sites, ret, x) == [k |-> k, n |-> n, subs |-> subs, sites |-> sites, ret |-> ret, x |-> x]
NoE == Ex("none", 0, <<>>)
Arg(i) == Ex("arg", i, <<>>)
XArg(i) == Ex("xarg", i, <<>>)
SiteR(i) == Ex("site", i, <<>>)
Cst(c) == Ex("const", c, <<>>)
Lit(c) == Ex("lit", c, <<>>)
Add(a, b) == Ex("add", 0, <<a, b>>)
Tup(s) == Ex("tup", 0, s)
Ix(e, i) == Ex("ix", i, <<e>>)

Dist(d)            == Pg("dist", d, <<>>, <<>>, NoE, <<>>)
Cat                == Pg("cat", 0, <<>>, <<>>, NoE, <<>>)       \* genjax.categorical(logits = arg), arg = array of log2 probabilities
Site(addr, callee, args) == [addr |-> addr, callee |-> callee, args |-> args]
Static(sites, ret) == Pg("static", 0, <<>>, sites, ret, <<>>)
Vmap(p, n, axes)   == Pg("vmap", n, <<p>>, <<>>, NoE, axes)      \* axes[j] = 1: argument j mapped over axis 0, 2: over axis 1, 0: broadcast
Repeat(p, n)       == Pg("repeat", n, <<p>>, <<>>, NoE, <<>>)
Scan(p, n)         == Pg("scan", n, <<p>>, <<>>, NoE, <<>>)      \* n = static length (also when xs is None)
Switch(bs)         == Pg("switch", 0, bs, <<>>, NoE, <<>>)
Mask(p)            == Pg("mask", 0, <<p>>, <<>>, NoE, <<>>)
Dimap(p, pre, post) == Pg("dimap", 0, <<p>>, <<>>, post, pre)    \* x = pre : Seq(expr) over args;  ret = post over (args, xargs, site 1 = inner retval)
OrElse(p, q)       == Pg("orelse", 0, <<p, q>>, <<>>, NoE, <<>>)
Mix(bs)            == Pg("mix", 0, bs, <<>>, NoE, <<>>)
Accumulate(p, n)   == Pg("accumulate", n, <<p>>, <<>>, NoE, <<>>)
Reduce(p, n)       == Pg("reduce", n, <<p>>, <<>>, NoE, <<>>)
Iterate(p, n)      == Pg("iterate", n, <<p>>, <<>>, NoE, <<>>)
IterateFinal(p, n) == Pg("iteratefinal", n, <<p>>, <<>>, NoE, <<>>)
MaskedIterate(p, n)      == Pg("maskediterate", n, <<p>>, <<>>, NoE, <<>>)
MaskedIterateFinal(p, n) == Pg("maskediteratefinal", n, <<p>>, <<>>, NoE, <<>>)
Closure(p, stored) == Pg("closure", 0, <<p>>, <<>>, NoE, stored)  \* gen_fn(*stored): closure; n = 1: partial_apply(*stored); n = 2: gen_fn(**stored as trailing keywords)

---------------------------------------------------------------------------
Pow32(d) == CASE d = 0 -> 1 [] d = 1 -> 32 [] d = 2 -> 1024 [] d = 3 -> 32768
LP(d, a, v) == -(Pow32(d) * (1 + v + 3 * a) * 256)
LN2x256k == 177445                                  \* ln 2 * 256 * 1000
LPcat(l2) == -(((-l2) * LN2x256k) \div 1000)          \* log2-probability l2 <= 0  ->  l2 * ln2 * 256

\* full argument list of the function a closure wraps (n = 0: gen_fn(*stored); 1: partial_apply(*stored);
\* 2: stored as trailing keyword arguments; 3: partial_apply(stored[1]) and the other stored values as trailing keywords)
CloArgs(p, args, st) == CASE p.n = 2 -> args \o st
                          [] p.n = 3 -> <<st[1]>> \o args \o Tail(st)
                          [] OTHER -> st \o args

R3(lps, ret, err) == [lps |-> lps, ret |-> ret, err |-> err]
Err2(e1, e2) == IF e1 # "none" THEN e1 ELSE e2

RECURSIVE Exec(_, _, _, _), ExecSites(_, _, _, _, _, _, _), ExecLoop(_, _, _, _, _, _, _, _, _)

\* dflt = TRUE: a missing choice reads as 0 with no density and no error (used only
\* to learn the SHAPE of a return value, e.g. for the zero content of an invalid mask)
Exec(p, args, chm, dflt) ==
  CASE p.k = "dist" ->
         IF <<>> \in DOMAIN chm
         THEN R3(<<>> :> LP(p.n, args[1].i, chm[<<>>]), I(chm[<<>>]), "none")
         ELSE R3(EmptyF, I(0), IF dflt THEN "none" ELSE "missing")
    [] p.k = "cat" ->
         IF <<>> \in DOMAIN chm
         THEN R3(<<>> :> LPcat(args[1].k[chm[<<>>] + 1].i), I(chm[<<>>]), "none")
         ELSE R3(EmptyF, I(0), IF dflt THEN "none" ELSE "missing")
    [] p.k = "static" -> ExecSites(p, args, chm, dflt, 1, <<>>, R3(EmptyF, Nn, "none"))
    [] p.k = "closure" -> Exec(p.subs[1], CloArgs(p, args, p.x), chm, dflt)
    [] p.k \in {"vmap", "repeat"} ->
         LET n  == p.n
             el(i) == IF p.k = "repeat" THEN args
                      ELSE [j \in 1..Len(args) |-> CASE p.x[j] = 1 -> Unstack(args[j], i)
                                                       [] p.x[j] = 2 -> Vc([r \in 1..Len(args[j].k) |-> args[j].k[r].k[i]])   \* in_axes = 1
                                                       [] OTHER -> args[j]]
         IN  ExecLoop("map", p.subs[1], n, 1, [i \in 1..n |-> el(i)], chm, dflt, <<>>, R3(EmptyF, Nn, "none"))
    [] p.k = "scan" ->
         LET n == p.n
         IN  ExecLoop("scan", p.subs[1], n, 1, <<args[1], args[2]>>, chm, dflt, <<>>, R3(EmptyF, Nn, "none"))
    [] p.k \in {"accumulate", "reduce"} ->
         ExecLoop(p.k, p.subs[1], p.n, 1, <<args[1], args[2]>>, chm, dflt, <<args[1]>>, R3(EmptyF, Nn, "none"))
    [] p.k \in {"iterate", "iteratefinal"} ->
         ExecLoop(p.k, p.subs[1], p.n, 1, <<args[1], Nn>>, chm, dflt, <<args[1]>>, R3(EmptyF, Nn, "none"))
    [] p.k \in {"maskediterate", "maskediteratefinal"} ->
         ExecLoop(p.k, p.subs[1], p.n, 1, <<args[1], args[2]>>, chm, dflt, <<args[1]>>, R3(EmptyF, Nn, "none"))
    [] p.k = "switch" ->
         LET j == Clamp(args[1].i, Len(p.subs)) + 1 IN Exec(p.subs[j], args[j + 1].k, chm, dflt)
    [] p.k = "orelse" ->
         LET j == IF IsT(args[1]) THEN 1 ELSE 2 IN Exec(p.subs[j], args[j + 1].k, chm, dflt)
    [] p.k = "mix" ->
         LET mc == <<"mixture_component">> IN
         IF mc \notin DOMAIN chm
         THEN R3(EmptyF, I(0), IF dflt THEN "none" ELSE "missing")
         ELSE LET j == Clamp(chm[mc], Len(p.subs)) + 1
                  r == Exec(p.subs[j], args[j + 1].k, SubMap(<<"component_sample">>, chm), dflt)
              IN  R3((mc :> LPcat(args[1].k[chm[mc] + 1].i)) @@ PrefixMap(<<"component_sample">>, r.lps), r.ret, r.err)
    [] p.k = "mask" ->
         IF IsT(args[1])
         THEN LET r == Exec(p.subs[1], Tail(args), chm, dflt) IN R3(r.lps, Mk(Bv(TRUE), r.ret), r.err)
         ELSE R3(EmptyF, Mk(Bv(FALSE), ZeroLike(Exec(p.subs[1], Tail(args), EmptyF, TRUE).ret)), "none")
    [] p.k = "dimap" ->
         LET xa == [j \in 1..Len(p.x) |-> EvalE(p.x[j], args, <<>>, <<>>)]
             r  == Exec(p.subs[1], xa, chm, dflt)
         IN  R3(r.lps, EvalE(p.ret, args, xa, <<r.ret>>), r.err)

ExecSites(p, args, chm, dflt, j, env, acc) ==
  IF j > Len(p.sites) THEN R3(acc.lps, EvalE(p.ret, args, <<>>, env), acc.err)
  ELSE LET s   == p.sites[j]
           a   == [i \in 1..Len(s.args) |-> EvalE(s.args[i], args, <<>>, env)]
           r   == Exec(s.callee, a, SubMap(s.addr, chm), dflt)
           dup == \E j2 \in 1..(j - 1) : p.sites[j2].addr = s.addr
           e   == Err2(acc.err, IF dup THEN "reuse" ELSE r.err)
       IN  ExecSites(p, args, chm, dflt, j + 1, Append(env, r.ret), R3(acc.lps @@ PrefixMap(s.addr, r.lps), Nn, e))

\* The documented Python loops of vmap/repeat, scan, accumulate, reduce, iterate(_final),
\* masked_iterate(_final).  st = <<carry, xs>> (or all args for "map"); outs = collected outputs.
ExecLoop(kind, body, n, i, st, chm, dflt, outs, acc) ==
  IF i > n THEN
     R3(acc.lps,
        CASE kind = "map"  -> IF n = 0 THEN Nn ELSE Stack(outs)
          [] kind = "scan" -> Tp(<<st[1], IF n = 0 THEN Vc(<<>>) ELSE Stack(outs)>>)
          [] kind \in {"accumulate", "iterate", "maskediterate"} -> Stack(outs)
          [] OTHER -> st[1],
        acc.err)
  ELSE LET sub == SubMap(<<IdxStr(i - 1)>>, chm)
           pre(f) == PrefixMap(<<IdxStr(i - 1)>>, f) IN
       CASE kind = "map" ->
              LET r == Exec(body, st[i], sub, dflt)                 \* st[i] = the i-th element's arguments
              IN  ExecLoop(kind, body, n, i + 1, st, chm, dflt, Append(outs, r.ret), R3(acc.lps @@ pre(r.lps), Nn, Err2(acc.err, r.err)))
         [] kind = "scan" ->
              LET x == IF st[2].t = "n" THEN Nn ELSE Unstack(st[2], i)
                  r == Exec(body, <<st[1], x>>, sub, dflt)
              IN  ExecLoop(kind, body, n, i + 1, <<r.ret.k[1], st[2]>>, chm, dflt, Append(outs, r.ret.k[2]), R3(acc.lps @@ pre(r.lps), Nn, Err2(acc.err, r.err)))
         [] kind \in {"accumulate", "reduce"} ->
              LET r == Exec(body, <<st[1], Unstack(st[2], i)>>, sub, dflt)
              IN  ExecLoop(kind, body, n, i + 1, <<r.ret, st[2]>>, chm, dflt, Append(outs, r.ret), R3(acc.lps @@ pre(r.lps), Nn, Err2(acc.err, r.err)))
         [] kind \in {"iterate", "iteratefinal"} ->
              LET r == Exec(body, <<st[1]>>, sub, dflt)
              IN  ExecLoop(kind, body, n, i + 1, <<r.ret, st[2]>>, chm, dflt, Append(outs, r.ret), R3(acc.lps @@ pre(r.lps), Nn, Err2(acc.err, r.err)))
         [] kind \in {"maskediterate", "maskediteratefinal"} ->
              IF IsT(Unstack(st[2], i))
              THEN LET r == Exec(body, <<st[1]>>, sub, dflt)
                   IN  ExecLoop(kind, body, n, i + 1, <<r.ret, st[2]>>, chm, dflt, Append(outs, r.ret), R3(acc.lps @@ pre(r.lps), Nn, Err2(acc.err, r.err)))
              ELSE ExecLoop(kind, body, n, i + 1, st, chm, dflt, Append(outs, st[1]), acc)   \* a False step is inert
=============================================================================
