------------------------------- MODULE Masks -------------------------------
(***************************************************************************)
(* Mask algebra of GenJAX                                                  *)
(* (genjax/_src/core/generative/functional_types.py, class Mask, and the   *)
(* FlagOp short cuts of genjax/_src/core/compiler/staging.py).             *)
(*                                                                         *)
(* A Mask pairs a value with a validity flag.  The flag is a scalar, or a  *)
(* vector ("vectorized mask") whose shape prefixes every value leaf; the   *)
(* value is any pytree.  Here: NPos positions (1 = scalar flag, 2 = flag   *)
(* vector of length 2) and NComp components (1 = one array, 2 = a pair of  *)
(* arrays); a value is a matrix v[p][c] of positive integers, 0 standing   *)
(* for "not specified by the documentation".                               *)
(*                                                                         *)
(* A mask expression is a uniform record [op, c, v, f, k]:                 *)
(*   leaf   Mask(v, f)                                      (c unused)     *)
(*   or     k[1] | k[2]          xor    k[1] ^ k[2]                        *)
(*   not    ~k[1]                build  Mask.build(k[1], f)                *)
(* observed through: the mask itself, .flatten(), Mask.maybe_mask(m, g),   *)
(* m.unmask(default), and for leaves Mask.build(raw value, f) and          *)
(* Mask.maybe_mask(raw value, f).                                          *)
(*                                                                         *)
(* Three meanings are given:                                               *)
(*   Ev     the DOCUMENTED truth tables, positionwise (docstrings of       *)
(*          _or_idx, build, flatten, maybe_mask, unmask and the tests):    *)
(*          |  valid iff either side is; value of the first valid side     *)
(*          ^  valid iff exactly one side is; value of that side           *)
(*          ~  flips the flag, keeps the value                             *)
(*          build(m, g)  ands g into the flag, keeps the value             *)
(*          The value kept inside a mask that an operation made INVALID    *)
(*          (| of two invalid sides, ^ of two sides with equal flags) is   *)
(*          not documented: Ev gives 0 there, and 0 propagates.            *)
(*   EvIdx  the traced code path: index arithmetic                         *)
(*          first + 2*(~first /\ second) - 1 in {-1,0,1}, choice with      *)
(*          wrap-around among [self, other]  (tree_choose, mode="wrap")    *)
(*   EvConc the concrete (Python bool) code path of __or__/__xor__         *)
(* Role A: TLC checks that EvIdx and EvConc refine Ev wherever Ev is       *)
(* specified, that the vector meaning is the scalar meaning positionwise,  *)
(* and the algebraic laws below.  Role B: every term is printed with the   *)
(* expected observation of every observer for replay on the real class in  *)
(* the modes python-bool / array eager / mixed / jit / vmap.               *)
(***************************************************************************)
EXTENDS Integers, Sequences, FiniteSets, TLC, Json, Rand

CONSTANTS MaxDepth,     \* depth of terms enumerated by Next
          WideKinds,    \* kinds whose binary operands range over all terms of depth <= 1 (other kinds: leaves only)
          KindSet,      \* subset of 1..4 : 1 = scalar flag/one array, 2 = scalar flag/pair, 3 = flag vector/one array, 4 = flag vector/pair
          Seed, NChains, NPerChain, RandDepth,   \* random generation (SpecRand)
          Emit          \* TRUE: print every case (role B)

NPosOf(kd)  == IF kd \in {1, 2} THEN 1 ELSE 2
NCompOf(kd) == IF kd \in {1, 3} THEN 1 ELSE 2
Pos(kd)  == 1..NPosOf(kd)
Comp(kd) == 1..NCompOf(kd)

\* The value matrix of the leaf with value id v (all entries distinct over v, p, c) and the unmask default.
ValOf(kd, v) == [p \in Pos(kd) |-> [c \in Comp(kd) |-> v + 2 * (p - 1) + 4 * (c - 1)]]
DefOf(kd)    == [p \in Pos(kd) |-> [c \in Comp(kd) |-> 11 + 2 * (p - 1) + 4 * (c - 1)]]
UnkRow(kd)   == [c \in Comp(kd) |-> 0]

FlagVecs(kd)   == [Pos(kd) -> BOOLEAN]                 \* flags of leaves: one Boolean per position
BuildFlags(kd) == [1..1 -> BOOLEAN] \cup FlagVecs(kd)   \* flag argument of build / maybe_mask: scalar (length 1, broadcast) or per position

T(op, c, v, f, k) == [op |-> op, c |-> c, v |-> v, f |-> f, k |-> k]
Leaf(kd, v, f) == T("leaf", "", ValOf(kd, v), f, <<>>)
Or(a, b)    == T("or", "", <<>>, <<>>, <<a, b>>)
Xor(a, b)   == T("xor", "", <<>>, <<>>, <<a, b>>)
Not(a)      == T("not", "", <<>>, <<>>, <<a>>)
Build(a, g) == T("build", "", <<>>, g, <<a>>)

Leaves(kd) == {Leaf(kd, v, f) : v \in {1, 2}, f \in FlagVecs(kd)}
Depth1(kd) == LET L == Leaves(kd) IN
              {Or(a, b) : a \in L, b \in L} \cup {Xor(a, b) : a \in L, b \in L}
              \cup {Not(a) : a \in L} \cup {Build(a, g) : a \in L, g \in BuildFlags(kd)}

Bc(g, p) == IF Len(g) = 1 THEN g[1] ELSE g[p]           \* broadcasting of a scalar flag

---------------------------------------------------------------------------
\* (1) Documented truth tables.  Result: [f : flag per position, v : value matrix (0 = unspecified)].
RECURSIVE Ev(_, _)
Ev(kd, t) ==
  CASE t.op = "leaf"  -> [f |-> t.f, v |-> t.v]
    [] t.op = "not"   -> LET a == Ev(kd, t.k[1]) IN [f |-> [p \in Pos(kd) |-> ~a.f[p]], v |-> a.v]
    [] t.op = "build" -> LET a == Ev(kd, t.k[1]) IN [f |-> [p \in Pos(kd) |-> a.f[p] /\ Bc(t.f, p)], v |-> a.v]
    [] t.op = "or"    -> LET a == Ev(kd, t.k[1])
                             b == Ev(kd, t.k[2])
                         IN  [f |-> [p \in Pos(kd) |-> a.f[p] \/ b.f[p]],
                              v |-> [p \in Pos(kd) |-> IF a.f[p] THEN a.v[p] ELSE IF b.f[p] THEN b.v[p] ELSE UnkRow(kd)]]
    [] t.op = "xor"   -> LET a == Ev(kd, t.k[1])
                             b == Ev(kd, t.k[2])
                         IN  [f |-> [p \in Pos(kd) |-> a.f[p] # b.f[p]],
                              v |-> [p \in Pos(kd) |-> IF a.f[p] /\ ~b.f[p] THEN a.v[p]
                                                       ELSE IF b.f[p] /\ ~a.f[p] THEN b.v[p] ELSE UnkRow(kd)]]

\* (2) The traced code path: _or_idx arithmetic and wrap-around choice, keeping every hidden value.
B2I(b) == IF b THEN 1 ELSE 0
OrIdx(first, second) == B2I(first) + 2 * B2I(~first /\ second) - 1
WrapIdx(i, n) == i % n                                    \* TLA+ % is the floor modulus: (-1) % 2 = 1
RECURSIVE EvIdx(_, _)
EvIdx(kd, t) ==
  CASE t.op = "leaf"  -> [f |-> t.f, v |-> t.v]
    [] t.op = "not"   -> LET a == EvIdx(kd, t.k[1]) IN [f |-> [p \in Pos(kd) |-> ~a.f[p]], v |-> a.v]
    [] t.op = "build" -> LET a == EvIdx(kd, t.k[1]) IN [f |-> [p \in Pos(kd) |-> Bc(t.f, p) /\ a.f[p]], v |-> a.v]
    [] t.op = "or"    -> LET a == EvIdx(kd, t.k[1])
                             b == EvIdx(kd, t.k[2])
                             side == [p \in Pos(kd) |-> WrapIdx(OrIdx(a.f[p], b.f[p]), 2)]
                         IN  [f |-> [p \in Pos(kd) |-> IF side[p] = 0 THEN a.f[p] ELSE b.f[p]],
                              v |-> [p \in Pos(kd) |-> IF side[p] = 0 THEN a.v[p] ELSE b.v[p]]]
    [] t.op = "xor"   -> LET a == EvIdx(kd, t.k[1])
                             b == EvIdx(kd, t.k[2])
                             side == [p \in Pos(kd) |-> WrapIdx(OrIdx(a.f[p], b.f[p]), 2)]
                         IN  [f |-> [p \in Pos(kd) |-> a.f[p] # b.f[p]],
                              v |-> [p \in Pos(kd) |-> IF side[p] = 0 THEN a.v[p] ELSE b.v[p]]]

\* (3) The concrete code path (scalar flags only): match on the pair of Python booleans.
RECURSIVE EvConc(_, _)
EvConc(kd, t) ==
  CASE t.op = "leaf"  -> [f |-> t.f, v |-> t.v]
    [] t.op = "not"   -> LET a == EvConc(kd, t.k[1]) IN [f |-> <<~a.f[1]>>, v |-> a.v]
    [] t.op = "build" -> LET a == EvConc(kd, t.k[1]) IN [f |-> <<t.f[1] /\ a.f[1]>>, v |-> a.v]
    [] t.op = "or"    -> LET a == EvConc(kd, t.k[1]) IN IF a.f[1] THEN a ELSE EvConc(kd, t.k[2])
    [] t.op = "xor"   -> LET a == EvConc(kd, t.k[1])
                             b == EvConc(kd, t.k[2])
                         IN  IF a.f[1] = b.f[1] THEN [f |-> <<FALSE>>, v |-> a.v]
                             ELSE IF a.f[1] THEN a ELSE b

\* Observable part of a result: the flag, and the value where the flag holds (0 elsewhere).
Norm(kd, e) == [f |-> e.f, v |-> [p \in Pos(kd) |-> IF e.f[p] THEN e.v[p] ELSE UnkRow(kd)]]
\* e refines the documented result d: same flags, same value wherever d specifies one.
Refines(kd, e, d) == /\ e.f = d.f
                     /\ \A p \in Pos(kd) : \A c \in Comp(kd) : d.v[p][c] # 0 => e.v[p][c] = d.v[p][c]

\* Observers.  fc / fa: the documented FORM of the result when every flag is a concrete Python bool /
\* when every flag is an array or tracer: "none", "raw" (the bare value) or "mask".
AllValid(kd) == [p \in Pos(kd) |-> TRUE]
FlatForm(kd, e) == IF NPosOf(kd) = 1 THEN (IF e.f[1] THEN "raw" ELSE "none") ELSE "mask"
ObsRec(ob, g, e, fc, fa) == [ob |-> ob, g |-> g, d |-> <<>>, f |-> e.f, v |-> e.v, fc |-> fc, fa |-> fa]
ObsId(kd, t)      == LET e == Norm(kd, Ev(kd, t)) IN ObsRec("id", <<>>, e, "mask", "mask")
ObsFlatten(kd, t) == LET e == Norm(kd, Ev(kd, t)) IN ObsRec("flatten", <<>>, e, FlatForm(kd, e), "mask")
ObsMM(kd, t, g)   == LET e == Norm(kd, Ev(kd, Build(t, g))) IN ObsRec("mm", g, e, FlatForm(kd, e), "mask")
ObsMMRaw(kd, t)   == LET e == Norm(kd, Ev(kd, t)) IN ObsRec("mmraw", <<>>, e, FlatForm(kd, e), "mask")
ObsBRaw(kd, t)    == LET e == Norm(kd, Ev(kd, t)) IN ObsRec("braw", <<>>, e, "mask", "mask")
ObsUnmask(kd, t)  == LET e == Ev(kd, t)
                         d == DefOf(kd)
                     IN  [ObsRec("unmask", <<>>, [f |-> AllValid(kd), v |-> [p \in Pos(kd) |-> IF e.f[p] THEN e.v[p] ELSE d[p]]], "raw", "raw")
                            EXCEPT !.d = d]

MMFlags(kd) == IF NPosOf(kd) = 1 THEN << <<TRUE>>, <<FALSE>> >>
               ELSE << <<TRUE>>, <<FALSE>>, <<TRUE, FALSE>>, <<FALSE, TRUE>> >>
Observations(kd, t) ==
  << ObsId(kd, t), ObsFlatten(kd, t), ObsUnmask(kd, t) >>
  \o [i \in 1..Len(MMFlags(kd)) |-> ObsMM(kd, t, MMFlags(kd)[i])]
  \o (IF t.op = "leaf" THEN << ObsMMRaw(kd, t), ObsBRaw(kd, t) >> ELSE <<>>)

---------------------------------------------------------------------------
VARIABLES kind, term, depth, r
vars == <<kind, term, depth, r>>

\* second operand of a binary operator: leaves at depth 0; at depth >= 1 every term of depth <= 1 for the wide
\* kinds, and the leaves with value id 2 for the others
Leaves2(kd) == {Leaf(kd, 2, f) : f \in FlagVecs(kd)}
Sub(kd, d) == IF d = 0 THEN Leaves(kd)
              ELSE IF kd \in WideKinds THEN Leaves(kd) \cup Depth1(kd) ELSE Leaves2(kd)

Init == /\ kind \in KindSet
        /\ term \in Leaves(kind)
        /\ depth = 0 /\ r = 0

Next == /\ depth < MaxDepth
        /\ depth' = depth + 1
        /\ UNCHANGED <<kind, r>>
        /\ \/ term' = Not(term)
           \/ \E g \in BuildFlags(kind) : term' = Build(term, g)
           \/ \E x \in Sub(kind, depth) : term' \in {Or(term, x), Or(x, term), Xor(term, x), Xor(x, term)}

Spec == Init /\ [][Next]_vars

\* Random terms of depth <= d from the explicit stream rr: returns [v, r].
LeafSeq(kd) == IF NPosOf(kd) = 1
               THEN << Leaf(kd, 1, <<TRUE>>), Leaf(kd, 1, <<FALSE>>), Leaf(kd, 2, <<TRUE>>), Leaf(kd, 2, <<FALSE>>) >>
               ELSE << Leaf(kd, 1, <<TRUE, TRUE>>), Leaf(kd, 1, <<TRUE, FALSE>>), Leaf(kd, 1, <<FALSE, TRUE>>), Leaf(kd, 1, <<FALSE, FALSE>>),
                       Leaf(kd, 2, <<TRUE, TRUE>>), Leaf(kd, 2, <<TRUE, FALSE>>), Leaf(kd, 2, <<FALSE, TRUE>>), Leaf(kd, 2, <<FALSE, FALSE>>) >>
RECURSIVE GenTerm(_, _, _)
GenTerm(kd, rr, d) ==
  IF d = 0 \/ RPick(rr, 6) = 0
  THEN [v |-> LeafSeq(kd)[RPick(RNext(rr), Len(LeafSeq(kd))) + 1], r |-> RNext(RNext(rr))]
  ELSE LET c == RPick(RNext(rr), 6) IN
       IF c = 0
       THEN LET x == GenTerm(kd, RNext(RNext(rr)), d - 1) IN [v |-> Not(x.v), r |-> x.r]
       ELSE IF c = 1
       THEN LET x == GenTerm(kd, RNext(RNext(rr)), d - 1)
                g == MMFlags(kd)[RPick(x.r, Len(MMFlags(kd))) + 1]
            IN  [v |-> Build(x.v, g), r |-> RNext(x.r)]
       ELSE LET x == GenTerm(kd, RNext(RNext(rr)), d - 1)
                y == GenTerm(kd, x.r, d - 1)
            IN  [v |-> IF c \in {2, 3} THEN Or(x.v, y.v) ELSE Xor(x.v, y.v), r |-> y.r]

KindOfChain(i) == ((i - 1) % 4) + 1
InitRand == \E i \in 1..NChains :
              LET g == GenTerm(KindOfChain(i), RSeed(Seed, i), RandDepth)
              IN  kind = KindOfChain(i) /\ term = g.v /\ r = g.r /\ depth = 0
NextRand == /\ depth < NPerChain
            /\ LET g == GenTerm(kind, r, RandDepth) IN term' = g.v /\ r' = g.r
            /\ depth' = depth + 1
            /\ UNCHANGED kind
SpecRand == InitRand /\ [][NextRand]_vars

---------------------------------------------------------------------------
\* Role A.
\* Both code paths implement the documented tables wherever those specify a value.
IdxRefinesTable  == Refines(kind, EvIdx(kind, term), Ev(kind, term))
ConcRefinesTable == NPosOf(kind) = 1 => Refines(kind, EvConc(kind, term), Ev(kind, term))
\* ... hence concrete and traced evaluation can differ only where the documentation is silent.
PathsAgreeWhereSpecified ==
  NPosOf(kind) = 1 =>
    LET a == EvIdx(kind, term)
        b == EvConc(kind, term)
        d == Ev(kind, term)
    IN  a.f = b.f /\ \A c \in Comp(kind) : d.v[1][c] # 0 => a.v[1][c] = b.v[1][c]

\* Vectorized masks are the scalar masks positionwise: project the term to one position, evaluate in the scalar kind.
RECURSIVE ProjTerm(_, _)
ProjTerm(t, p) ==
  CASE t.op = "leaf"  -> T("leaf", t.c, <<t.v[p]>>, <<t.f[p]>>, <<>>)
    [] t.op = "build" -> Build(ProjTerm(t.k[1], p), <<Bc(t.f, p)>>)
    [] t.op = "not"   -> Not(ProjTerm(t.k[1], p))
    [] t.op = "or"    -> Or(ProjTerm(t.k[1], p), ProjTerm(t.k[2], p))
    [] t.op = "xor"   -> Xor(ProjTerm(t.k[1], p), ProjTerm(t.k[2], p))
Elementwise ==
  NPosOf(kind) = 2 =>
    \A p \in 1..2 : LET e == Ev(kind, term)
                        s == Ev(kind - 2, ProjTerm(term, p))
                    IN  e.f[p] = s.f[1] /\ e.v[p] = s.v[1]

ObsEq(kd, a, b) == Norm(kd, Ev(kd, a)) = Norm(kd, Ev(kd, b))
Flags(kd, t) == Ev(kd, t).f
\* Laws with one operand (every state).
Laws ==
  LET kd == kind
      e  == Ev(kd, term)
  IN  /\ Ev(kd, Not(Not(term))) = e                                             \* involution
      /\ ObsEq(kd, Or(term, term), term)                                        \* idempotence of |
      /\ \A p \in Pos(kd) : ~Flags(kd, Xor(term, term))[p]                      \* m ^ m is nowhere valid
      /\ Ev(kd, Build(term, <<TRUE>>)) = e                                      \* build with True is neutral
      /\ \A p \in Pos(kd) : ~Flags(kd, Build(term, <<FALSE>>))[p]               \* build with False invalidates
      /\ LET u == ObsUnmask(kd, term) IN                                        \* unmask(default) is total and agrees with the mask where valid
            \A p \in Pos(kd) : u.v[p] = IF e.f[p] THEN e.v[p] ELSE DefOf(kd)[p]
\* Laws with several operands: every term of depth <= 1 against every leaf (composites up to depth 3).
BinaryLaws ==
  depth <= 1 =>
  LET kd == kind
      L  == Leaves(kd)
      e  == Ev(kd, term)
  IN  /\ \A g, h \in BuildFlags(kd) :                                           \* nested build ands the flags
            Ev(kd, Build(Build(term, g), h)) = Ev(kd, Build(term, [p \in Pos(kd) |-> Bc(g, p) /\ Bc(h, p)]))
      /\ \A x \in L :
            /\ \A p \in Pos(kd) :                                               \* De Morgan on flags
                  Flags(kd, Not(Or(term, x)))[p] = (Flags(kd, Not(term))[p] /\ Flags(kd, Not(x))[p])
            /\ \A p \in Pos(kd) :                                               \* ^ is | without the overlap
                  LET fx == Flags(kd, x)[p]
                      o  == Ev(kd, Or(term, x))
                      z  == Ev(kd, Xor(term, x))
                  IN  /\ z.f[p] = (o.f[p] /\ ~(e.f[p] /\ fx))
                      /\ z.f[p] => z.v[p] = o.v[p]
            /\ Flags(kd, Or(term, x)) = Flags(kd, Or(x, term))                  \* flags commute (values do not: left bias)
            /\ Flags(kd, Xor(term, x)) = Flags(kd, Xor(x, term))
            /\ ObsEq(kd, Xor(term, x), Xor(x, term))                            \* ^ is commutative on observables
            /\ \A p \in Pos(kd) : e.f[p] => Norm(kd, Ev(kd, Or(term, x))).v[p] = e.v[p]   \* left bias of |
            /\ \A y \in L : ObsEq(kd, Or(Or(term, x), y), Or(term, Or(x, y)))   \* | is associative on observables

\* Role B: print the case.
EmitCase == Emit => PrintT(<<"CASE", ToJson([kind |-> kind, term |-> term, depth |-> depth,
                                               obs |-> Observations(kind, term)])>>)
=============================================================================
