------------------------------ MODULE Inference ------------------------------
(***************************************************************************)
(* Exact weight algebra of GenJAX's programmable inference layer           *)
(*   genjax/_src/inference/sp.py    Target, Marginal                       *)
(*   genjax/_src/inference/smc.py   Importance, ImportanceK, ChangeTarget, *)
(*                                  SMCAlgorithm.random_weighted / csmc    *)
(*   genjax/_src/inference/requests/rejuvenate.py   Rejuvenate             *)
(* over finite discrete programs whose probabilities are powers of two.    *)
(*                                                                         *)
(* A model is a sequence of sites; site i draws a value in 0..n_i-1 from a *)
(* row of a table of EXPONENTS (probability 2^-e) selected by the value of *)
(* at most one earlier site.  Every log-density is therefore an integer    *)
(* multiple of ln 2 (the unit of all "LP" quantities below) and every      *)
(* probability / expectation is an exact rational <<num, den>>.            *)
(*                                                                         *)
(* The module holds the catalogue (models, proposals, MH proposals), the   *)
(* definitions (joint, marginal, posterior, Z, importance weight, K-       *)
(* particle sampler output distribution P_alg, ChangeTarget, Marginal      *)
(* weight, MH ratio) and the laws TLC checks on them (role A).  The same   *)
(* definitions are used by InferenceTrace.tla to judge what the real code  *)
(* returned (role D).                                                      *)
(***************************************************************************)
EXTENDS Integers, Sequences, FiniteSets, TLC, Json, Folds, FiniteSetsExt

CONSTANTS Emit,         \* TRUE: print catalogue and scenarios as JSON (role B)
          Kinds         \* scenario kinds explored: subset of {"smc", "change", "marg", "mh"}

Minus1 == 0 - 1

---------------------------------------------------------------------------
\* Rationals <<n, d>> with n >= 0, d > 0, always in lowest terms.
RECURSIVE GCD(_, _)
GCD(a, b) == IF b = 0 THEN a ELSE GCD(b, a % b)
RNorm(n, d) == IF n = 0 THEN <<0, 1>> ELSE LET g == GCD(n, d) IN <<n \div g, d \div g>>
RAdd(a, b) == LET g == GCD(a[2], b[2])
              IN  RNorm(a[1] * (b[2] \div g) + b[1] * (a[2] \div g), (a[2] \div g) * b[2])
RMul(a, b) == IF a[1] = 0 \/ b[1] = 0 THEN <<0, 1>>
              ELSE LET x == RNorm(a[1], b[2])
                       y == RNorm(b[1], a[2])
                   IN  <<x[1] * y[1], x[2] * y[2]>>
RInv(a)    == <<a[2], a[1]>>                      \* a[1] > 0
RDiv(a, b) == RMul(a, RInv(b))
RLe(a, b)  == a[1] * b[2] <= b[1] * a[2]
RMin(a, b) == IF RLe(a, b) THEN a ELSE b
RCeil(a)   == (a[1] + a[2] - 1) \div a[2]
Pow2(k)    == IF k >= 0 THEN <<2^k, 1>> ELSE <<1, 2^(0 - k)>>
ROne  == <<1, 1>>
RZero == <<0, 1>>
RSum(S, F(_)) == MapThenFoldSet(RAdd, RZero, F, LAMBDA s : CHOOSE x \in s : TRUE, S)
RMaxOver(S, F(_)) == MapThenFoldSet(LAMBDA a, b : IF RLe(a, b) THEN b ELSE a, RZero, F,
                                    LAMBDA s : CHOOSE x \in s : TRUE, S)
ISum(S, F(_)) == MapThenSumSet(F, S)

---------------------------------------------------------------------------
\* Catalogue.  Exponent rows (probabilities 2^-e, each row sums to 1).
R3a == <<1, 2, 2>>
R3b == <<2, 1, 2>>
R3c == <<2, 2, 1>>
R4a == <<1, 2, 3, 3>>
R4b == <<3, 3, 1, 2>>
R4u == <<2, 2, 2, 2>>
R2  == <<1, 1>>

\* kind: "cat" = genjax.categorical(probs=row); "flip" = genjax.flip(0.5) (value 1 = True);
\* a path of length 2 is traced through a nested static generative function.
Site(a, kind, pa, t) == [a |-> a, kind |-> kind, pa |-> pa, t |-> t]

Models == <<
  [name |-> "indep",  fam |-> "indep",  nargs |-> 0, arg |-> 0, sites |-> <<
      Site(<<"x">>, "cat", 0, <<R3a>>),
      Site(<<"y">>, "cat", 0, <<R3c>>) >>],
  [name |-> "chain",  fam |-> "chain",  nargs |-> 0, arg |-> 0, sites |-> <<
      Site(<<"x">>, "cat", 0, <<R3a>>),
      Site(<<"y">>, "cat", 1, <<R3a, R3a, R3c>>) >>],
  [name |-> "fork",   fam |-> "fork",   nargs |-> 0, arg |-> 0, sites |-> <<
      Site(<<"z">>, "cat", 0, <<R3b>>),
      Site(<<"x">>, "cat", 1, <<R3a, R3c, R3c>>),
      Site(<<"y">>, "cat", 1, <<R4a, R4u, R4b>>) >>],
  [name |-> "nest",   fam |-> "nest",   nargs |-> 0, arg |-> 0, sites |-> <<
      Site(<<"b">>, "flip", 0, <<R2>>),
      Site(<<"s", "y">>, "cat", 1, <<R3a, R3c>>),
      Site(<<"x">>, "cat", 2, <<R3b, R3b, R3a>>) >>],
  [name |-> "nestf",  fam |-> "nestf",  nargs |-> 0, arg |-> 0, sites |-> <<       \* the FIRST traced call is a nested static function
      Site(<<"s", "z">>, "cat", 0, <<R3a>>),
      Site(<<"x">>, "cat", 0, <<R3c>>),
      Site(<<"y">>, "cat", 2, <<R3a, R3c, R3b>>) >>],
  [name |-> "leaf3",  fam |-> "leaf3",  nargs |-> 0, arg |-> 0, sites |-> <<
      Site(<<"x">>, "cat", 0, <<R3a>>),
      Site(<<"y">>, "cat", 1, <<R3b, R3a, R3c>>),
      Site(<<"z">>, "cat", 2, <<R4a, R4b, R4u>>) >>],
  [name |-> "argm0",  fam |-> "argm",   nargs |-> 1, arg |-> 0, sites |-> <<
      Site(<<"x">>, "cat", 0, <<R3a>>),
      Site(<<"y">>, "cat", 1, <<R3b, R3b, R3a>>) >>],
  [name |-> "argm1",  fam |-> "argm",   nargs |-> 1, arg |-> 1, sites |-> <<
      Site(<<"x">>, "cat", 0, <<R3c>>),
      Site(<<"y">>, "cat", 1, <<R3b, R3b, R3a>>) >>],
  [name |-> "indep2", fam |-> "indep2", nargs |-> 0, arg |-> 0, sites |-> <<
      Site(<<"x">>, "cat", 0, <<R3a>>),
      Site(<<"y">>, "cat", 1, <<R3c, R3c, R3c>>) >> ]
>>
NM == Len(Models)
MIdx(n) == CHOOSE i \in 1..NM : Models[i].name = n
\* Program with an ARRAY-valued choice (C27 only): sites 1 and 2 are the two elements of one choice
\* x ~ categorical(probs = 2x3 matrix) @ "x" (value of shape (2,), log-density = SUM over the elements);
\* y depends on x[0].  The joint is the product over the sites, as for every other model.
VecModels == <<
  [name |-> "vec", fam |-> "vec", nargs |-> 0, arg |-> 0, sites |-> <<
      Site(<<"x">>, "vec", 0, <<R3a>>),
      Site(<<"x">>, "vec", 0, <<R3c>>),
      Site(<<"y">>, "cat", 1, <<R3b, R3a, R3c>>) >>]
>>
VecAt == {1, 2}
AllModels == Models \o VecModels
ModelNamed(n) == AllModels[CHOOSE i \in 1..Len(AllModels) : AllModels[i].name = n]

\* Proposals q(.; target): independent tables for the sites in `on`; the row of every table is
\* selected by the OBSERVED value of site `dep` (0: constant proposal).
\* kind "exact": harness-defined genjax.exact_density; kind "marg": a generative function
\* wrapped by genjax.marginal (its weight goes through Marginal.random_weighted).
Prop(name, fam, kind, on, dep, t) == [name |-> name, fam |-> fam, kind |-> kind, on |-> on, dep |-> dep, t |-> t]
Props == <<
  Prop("indep_x",   "indep",  "exact", <<1>>,    0, << <<R3c>> >>),
  Prop("indep_xy",  "indep",  "exact", <<1, 2>>, 0, << <<R3b>>, <<R3a>> >>),
  Prop("chain_c",   "chain",  "exact", <<1>>,    0, << <<R3c>> >>),
  Prop("chain_d",   "chain",  "exact", <<1>>,    2, << <<R3c, R3a, R3b>> >>),
  Prop("chain_m",   "chain",  "marg",  <<1>>,    2, << <<R3b, R3c, R3a>> >>),
  Prop("fork_z",    "fork",   "exact", <<1>>,    2, << <<R3a, R3b, R3c>> >>),
  Prop("fork_zx",   "fork",   "exact", <<1, 2>>, 3, << <<R3a, R3b, R3c, R3b>>, <<R3c, R3c, R3a, R3b>> >>),
  Prop("nest_b",    "nest",   "exact", <<1>>,    0, << <<R2>> >>),
  Prop("nest_by",   "nest",   "exact", <<1, 2>>, 3, << <<R2, R2, R2>>, <<R3b, R3a, R3c>> >>),
  Prop("nestf_m",   "nestf",  "marg",  <<2>>,    0, << <<R3a>> >>),       \* same row as s/z: shared keys make x = z
  Prop("leaf3_x",   "leaf3",  "exact", <<1>>,    0, << <<R3b>> >>),
  Prop("leaf3_xy",  "leaf3",  "exact", <<1, 2>>, 3, << <<R3c, R3c, R3a, R3b>>, <<R3a, R3b, R3c, R3a>> >>),
  Prop("leaf3_m",   "leaf3",  "marg",  <<1, 2>>, 3, << <<R3b, R3a, R3c, R3c>>, <<R3c, R3b, R3a, R3a>> >>),
  Prop("argm_x",    "argm",   "exact", <<1>>,    2, << <<R3b, R3c, R3a>> >>),
  Prop("indep2_x",  "indep2", "exact", <<1>>,    0, << <<R3b>> >>)
>>
NP == Len(Props)
NoProp == Prop("none", "any", "none", <<>>, 0, <<>>)
PropAt(p) == IF p = 0 THEN NoProp ELSE Props[p]
PIdx(n) == IF n = "none" THEN 0 ELSE CHOOSE i \in 1..NP : Props[i].name = n

\* Metropolis-Hastings proposals for Rejuvenate at one 3-valued site `at`.
\*  "rw":   random walk on Z_3, argument = current value of the site: q(v | cur) = 2^-RW[(v-cur) mod 3 + 1]
\*  "const": no argument dependence: q(v) = 2^-CT[v+1]
\*  "dep":  argument = current value of ANOTHER site `dep` (unchanged by the move): q(v | c[dep])
RWT == <<2, 1, 2>>
CTT == R3c
DPT == <<R3a, R3c, R3b, R3a>>
MHKinds == {"rw", "const", "dep"}

---------------------------------------------------------------------------
\* Densities.
NS(m) == Len(m.sites)
Card(m, i) == Len(m.sites[i].t[1])
Asg(m) == {c \in [1..NS(m) -> 0..3] : \A i \in 1..NS(m) : c[i] < Card(m, i)}
LPs(m, i, c) == LET s == m.sites[i] IN 0 - s.t[IF s.pa = 0 THEN 1 ELSE c[s.pa] + 1][c[i] + 1]
SumLP(m, I, c) == ISum(I, LAMBDA i : LPs(m, i, c))
JointLP(m, c) == SumLP(m, 1..NS(m), c)
Pj(m, c) == Pow2(JointLP(m, c))

\* Observations: sequence o, o[i] = observed value of site i or -1.
ObsIdx(o) == {i \in 1..Len(o) : o[i] # Minus1}
Agrees(c, o) == \A i \in 1..Len(o) : o[i] = Minus1 \/ c[i] = o[i]
Overlay(c, o) == [i \in 1..Len(o) |-> IF o[i] # Minus1 THEN o[i] ELSE c[i]]
Latents(m, o) == {c \in Asg(m) : Agrees(c, o)}
ZOf(m, o) == RSum(Latents(m, o), LAMBDA c : Pj(m, c))
Post(m, o, c) == RDiv(Pj(m, c), ZOf(m, o))
\* marginal probability that the sites in S take the values they have in c
PMarg(m, S, c) == RSum({d \in Asg(m) : \A i \in S : d[i] = c[i]}, LAMBDA d : Pj(m, d))

\* Proposal density and the internal (ancestral) proposal for what q does not propose.
OnSet(pr) == {pr.on[j] : j \in 1..Len(pr.on)}
LPq(pr, o, c) == ISum(1..Len(pr.on), LAMBDA j : 0 - pr.t[j][IF pr.dep = 0 THEN 1 ELSE o[pr.dep] + 1][c[pr.on[j]] + 1])
Fresh(m, o, pr) == (1..NS(m)) \ (ObsIdx(o) \cup OnSet(pr))
\* log-probability that one particle of Importance(target, q) is c (c agrees with o)
QLP(m, o, pr, c) == LPq(pr, o, c) + SumLP(m, Fresh(m, o, pr), c)

\* Importance log-weight, in the shape of the code: the target's importance weight
\* (scores of the constrained sites = observed + proposed) minus the proposal's score.
LW(m, o, pr, c) == SumLP(m, ObsIdx(o) \cup OnSet(pr), c) - LPq(pr, o, c)
Wt(m, o, pr, c) == Pow2(LW(m, o, pr, c))
\* ... and from first principles: target density over sampling density.
WtRatio(m, o, pr, c) == RDiv(Pj(m, c), Pow2(QLP(m, o, pr, c)))

ValidScenario(m, o, pr) ==
  /\ Len(o) = NS(m)
  /\ \A i \in 1..NS(m) : o[i] = Minus1 \/ o[i] \in 0..(Card(m, i) - 1)
  /\ pr.fam \in {"any", m.fam}
  /\ OnSet(pr) \cap ObsIdx(o) = {}
  /\ pr.dep # 0 => pr.dep \in ObsIdx(o)

---------------------------------------------------------------------------
\* K-particle sampling importance resampling (SMCAlgorithm.random_weighted):
\* draw K particles, pick index j with probability W_j / sum W, return particle j and the
\* density estimate P(c_j, obs) / (sum W / K).   K \in {1, 2}.
\* A particle tuple is described by the particle s at position j and the sequence of the others.
Others(m, o, K) == IF K = 1 THEN {<<>>} ELSE {<<d>> : d \in Latents(m, o)}
Tup(K, j, s, oth) == IF K = 1 THEN <<s>> ELSE IF j = 1 THEN <<s, oth[1]>> ELSE <<oth[1], s>>
TupleP(m, o, pr, tp) == Pow2(ISum(1..Len(tp), LAMBDA j : QLP(m, o, pr, tp[j])))
WSum(m, o, pr, tp) == RSum(1..Len(tp), LAMBDA j : Wt(m, o, pr, tp[j]))
ZHat(m, o, pr, tp) == RDiv(WSum(m, o, pr, tp), <<Len(tp), 1>>)
PickP(m, o, pr, tp, j) == RDiv(Wt(m, o, pr, tp[j]), WSum(m, o, pr, tp))
DensEst(m, o, pr, tp, j) == RDiv(Pj(m, tp[j]), ZHat(m, o, pr, tp))

\* output distribution of the sampler at s: sum over the position j of s and over the others
PAlg(m, o, pr, K, s) ==
  RSum(1..K, LAMBDA j : RSum(Others(m, o, K), LAMBDA oth :
     LET tp == Tup(K, j, s, oth) IN RMul(TupleP(m, o, pr, tp), PickP(m, o, pr, tp, j))))
\* E[ 1/estimate ; S = s ]
InvDensMass(m, o, pr, K, s) ==
  RSum(1..K, LAMBDA j : RSum(Others(m, o, K), LAMBDA oth :
     LET tp == Tup(K, j, s, oth)
     IN  RMul(TupleP(m, o, pr, tp), RDiv(PickP(m, o, pr, tp, j), DensEst(m, o, pr, tp, j)))))
\* conditional SMC density estimate of s: s retained in the last slot, the others drawn afresh
CsmcMean(m, o, pr, K, s) ==
  RSum(Others(m, o, K), LAMBDA oth :
     LET tp == Tup(K, K, s, oth)
     IN  RMul(Pow2(ISum(1..(K - 1), LAMBDA j : QLP(m, o, pr, tp[j]))), DensEst(m, o, pr, tp, K)))
\* E[ZHat] over all particle tuples
MeanZHat(m, o, pr, K) ==
  RSum(Latents(m, o), LAMBDA s : RSum(Others(m, o, K), LAMBDA oth :
     LET tp == Tup(K, 1, s, oth) IN RMul(TupleP(m, o, pr, tp), ZHat(m, o, pr, tp))))
\* bounds used by the Hoeffding clauses (ranges "taken from the model")
WMax(m, o, pr) == RMaxOver(Latents(m, o), LAMBDA c : Wt(m, o, pr, c))
InvDensRange(m, o, pr, s) == RCeil(RDiv(WMax(m, o, pr), Pj(m, s)))

---------------------------------------------------------------------------
\* ChangeTarget: particle c of target (m, o) becomes Overlay(c, o2) for (m2, o2) (same
\* unconstrained sites), log-weight changes by the log ratio of the target densities.
ChangeOK(m, o, m2, o2) == /\ NS(m) = NS(m2) /\ ObsIdx(o) \subseteq ObsIdx(o2)
                          /\ \A i \in 1..NS(m) : Card(m, i) = Card(m2, i)
\* "one more observation arrives": the new target observes sites that were latent (sampled, possibly
\* proposed) under the old one.  The new particle takes the new target's value there (the target's own
\* constraint wins over the particle's stale value); the weight still changes by the density ratio.
Dropped(o, o2) == ObsIdx(o2) \ ObsIdx(o)
\* "an observation is withdrawn": the new target no longer observes sites in Withdrawn; importance draws them afresh
\* (from their conditional given the new particle's parents) and its weight covers every OTHER site
Withdrawn(o, o2) == ObsIdx(o) \ ObsIdx(o2)
LWShrunk(m, o, pr, o2, c, c2) == LW(m, o, pr, c) + SumLP(m, (1..NS(m)) \ Withdrawn(o, o2), c2) - JointLP(m, c)
LWChanged(m, o, pr, m2, o2, c) == LW(m, o, pr, c) + JointLP(m2, Overlay(c, o2)) - JointLP(m, c)

---------------------------------------------------------------------------
\* Marginal(gen_fn, selection): sample c ~ P, return the selected part and the weight
\* project(selection) = scores of the selected sites (importance weight of constraining them).
MW(m, S, c) == SumLP(m, S, c)
MWComplement(m, S, c) == SumLP(m, (1..NS(m)) \ S, c)     \* diagnosis only: project(~selection)
SelCells(m, S) == {[i \in 1..NS(m) |-> IF i \in S THEN c[i] ELSE Minus1] : c \in Asg(m)}
Extends(c, s) == \A i \in 1..Len(s) : s[i] = Minus1 \/ c[i] = s[i]
\* "the unselected choices do not influence the selected ones": P(s | u) = P(s) for all u
IndepSel(m, S) == \A c \in Asg(m) : Pj(m, c) = RMul(PMarg(m, S, c), PMarg(m, (1..NS(m)) \ S, c))
\* sum over the unselected part of P(s,u) 2^-w(s,u), for a weight table w (in ln 2 units)
UnbiasedMass(m, s, W(_)) == RSum({c \in Asg(m) : Extends(c, s)}, LAMBDA c : RMul(Pj(m, c), Pow2(0 - W(c))))

---------------------------------------------------------------------------
\* Rejuvenate = Metropolis-Hastings proposal without accept/reject; returns the log ratio.
\* MHq(k, dep, from, v): log q(new value v | arguments computed from the choices `from`)
MHq(k, at, dep, from, v) ==
  CASE k = "rw"    -> 0 - RWT[((v - from[at] + 3) % 3) + 1]
    [] k = "const" -> 0 - CTT[v + 1]
    [] k = "dep"   -> 0 - DPT[from[dep] + 1][v + 1]
MHW(m, k, at, dep, c, d) ==
  JointLP(m, d) + MHq(k, at, dep, d, c[at]) - JointLP(m, c) - MHq(k, at, dep, c, d[at])
\* diagnosis only: the backward density evaluated with arguments taken from the OLD choices
MHWOldArgs(m, k, at, dep, c, d) ==
  JointLP(m, d) + MHq(k, at, dep, c, c[at]) - JointLP(m, c) - MHq(k, at, dep, c, d[at])
\* the same edit also changes the model's arguments (model m -> m2 of the same family): p(x') is the
\* density under the NEW arguments, p(x) under the old ones
MHWArgs(m, m2, k, at, dep, c, d) ==
  JointLP(m2, d) + MHq(k, at, dep, d, c[at]) - JointLP(m, c) - MHq(k, at, dep, c, d[at])
\* array-valued choice: the proposal acts elementwise on the sites in At, densities are summed
MHqV(k, At, from, to) ==
  ISum(At, LAMBDA i : CASE k = "rw" -> 0 - RWT[((to[i] - from[i] + 3) % 3) + 1]
                        [] k = "const" -> 0 - CTT[to[i] + 1])
MHWV(m, k, At, c, d) == JointLP(m, d) + MHqV(k, At, d, c) - JointLP(m, c) - MHqV(k, At, c, d)
Moved(c, at, v) == [c EXCEPT ![at] = v]
MHAcc(w) == IF w >= 0 THEN ROne ELSE Pow2(w)

---------------------------------------------------------------------------
\* Scenario space (states).  Uniform record shape.
VARIABLE sc

Sc(kind, m, o, p, K, m2, o2, S, mh) ==
  [kind |-> kind, m |-> m, o |-> o, p |-> p, K |-> K, m2 |-> m2, o2 |-> o2, S |-> S, mh |-> mh]

\* observed index sets: proper subsets; 3-site models always observe something
ObsSets(m) == {I \in SUBSET (1..NS(m)) : I # 1..NS(m) /\ (NS(m) > 2 => I # {})}
ObsSeqs(m) == UNION {{o \in [1..NS(m) -> Minus1..3] :
                        /\ \A i \in I : o[i] \in 0..(Card(m, i) - 1)
                        /\ \A i \in (1..NS(m)) \ I : o[i] = Minus1} : I \in ObsSets(m)}

Init == sc = Sc("catalogue", 0, <<>>, 0, 0, 0, <<>>, {}, "none")

\* catalogue -> one node per (kind, model) -> (for smc/change) one node per target -> scenarios,
\* so that TLC's workers share the evaluation of the laws.
Next ==
  \/ /\ sc.kind = "catalogue"
     /\ \E mi \in 1..NM : \E k \in Kinds : sc' = Sc("node", mi, <<>>, 0, 0, 0, <<>>, {}, k)
  \/ /\ sc.kind = "node" /\ sc.mh \in {"smc", "change"}
     /\ \E o \in ObsSeqs(Models[sc.m]) : sc' = Sc("node2", sc.m, o, 0, 0, 0, <<>>, {}, sc.mh)
  \/ /\ sc.kind = "node2" /\ sc.mh = "smc"
     /\ \E p \in 0..NP : \E K \in {1, 2} :
          /\ ValidScenario(Models[sc.m], sc.o, PropAt(p))
          /\ sc' = Sc("smc", sc.m, sc.o, p, K, 0, <<>>, {}, "none")
  \/ /\ sc.kind = "node2" /\ sc.mh = "change"
     /\ \E m2 \in {j \in 1..NM : Models[j].fam = Models[sc.m].fam} :
        \E o2 \in {x \in [1..NS(Models[m2]) -> Minus1..3] :
                     \A i \in 1..NS(Models[m2]) :
                        IF sc.o[i] = Minus1 THEN x[i] = Minus1 ELSE x[i] \in 0..(Card(Models[m2], i) - 1)} :
          /\ <<sc.m, sc.o>> # <<m2, o2>>
          /\ ChangeOK(Models[sc.m], sc.o, Models[m2], o2)
          /\ \E p \in 0..NP :
               /\ ValidScenario(Models[sc.m], sc.o, PropAt(p))
               /\ sc' = Sc("change", sc.m, sc.o, p, 1, m2, o2, {}, "none")
  \/ /\ sc.kind = "node2" /\ sc.mh = "change"            \* the observed set grows by one site
     /\ \E i \in {j \in 1..NS(Models[sc.m]) : sc.o[j] = Minus1} : \E v \in 0..(Card(Models[sc.m], i) - 1) :
          LET o2 == [sc.o EXCEPT ![i] = v] IN
          /\ o2 \in ObsSeqs(Models[sc.m])
          /\ \E p \in 0..NP :
               /\ ValidScenario(Models[sc.m], sc.o, PropAt(p))
               /\ sc' = Sc("change", sc.m, sc.o, p, 1, sc.m, o2, {}, "none")
  \/ /\ sc.kind = "node2" /\ sc.mh = "change"            \* one observation is withdrawn
     /\ \E i \in ObsIdx(sc.o) :
          LET o2 == [sc.o EXCEPT ![i] = Minus1] IN
          /\ o2 \in ObsSeqs(Models[sc.m])
          /\ \E p \in 0..NP :
               /\ ValidScenario(Models[sc.m], sc.o, PropAt(p))
               /\ sc' = Sc("change", sc.m, sc.o, p, 1, sc.m, o2, {}, "none")
  \/ /\ sc.kind = "node" /\ sc.mh = "marg"
     /\ \E S \in SUBSET (1..NS(Models[sc.m])) : sc' = Sc("marg", sc.m, <<>>, 0, 0, 0, <<>>, S, "none")
  \/ /\ sc.kind = "node" /\ sc.mh = "mh"
     /\ \E at \in 1..NS(Models[sc.m]) : \E k \in MHKinds : \E dep \in 0..NS(Models[sc.m]) :
          /\ Card(Models[sc.m], at) = 3
          /\ (k = "dep") = (dep # 0)
          /\ dep # at
          /\ \/ sc' = Sc("mh", sc.m, <<>>, at, dep, 0, <<>>, {}, k)
             \/ \E m2 \in {j \in 1..NM : Models[j].fam = Models[sc.m].fam /\ j # sc.m} :
                   sc' = Sc("mha", sc.m, <<>>, at, dep, m2, <<>>, {}, k)
  \/ /\ sc.kind = "catalogue" /\ "mh" \in Kinds
     /\ \E k \in {"rw", "const"} : sc' = Sc("mhv", 1, <<>>, 0, 0, 0, <<>>, {}, k)

Spec == Init /\ [][Next]_sc

---------------------------------------------------------------------------
\* Role A: laws of the definitions above, checked by TLC on every scenario.

\* every table row is a probability vector; joint sums to one
TablesNormalized ==
  sc.kind = "catalogue" =>
    /\ \A mi \in 1..NM : LET m == Models[mi] IN
         /\ \A i \in 1..NS(m) : \A r \in 1..Len(m.sites[i].t) :
              RSum(1..Len(m.sites[i].t[r]), LAMBDA v : Pow2(0 - m.sites[i].t[r][v])) = ROne
         /\ \A i \in 1..NS(m) : m.sites[i].pa < i
                                /\ (m.sites[i].pa # 0 => Len(m.sites[i].t) = Card(m, m.sites[i].pa))
         /\ RSum(Asg(m), LAMBDA c : Pj(m, c)) = ROne
    /\ \A p \in 1..NP : \A j \in 1..Len(Props[p].on) : \A r \in 1..Len(Props[p].t[j]) :
         RSum(1..Len(Props[p].t[j][r]), LAMBDA v : Pow2(0 - Props[p].t[j][r][v])) = ROne
    /\ RSum(1..3, LAMBDA v : Pow2(0 - RWT[v])) = ROne
    /\ \A r \in 1..Len(DPT) : RSum(1..3, LAMBDA v : Pow2(0 - DPT[r][v])) = ROne

SmcM == Models[sc.m]
SmcP == PropAt(sc.p)

\* the particle sampler is a probability distribution on the latents
SamplerNormalized ==
  sc.kind = "smc" => RSum(Latents(SmcM, sc.o), LAMBDA c : Pow2(QLP(SmcM, sc.o, SmcP, c))) = ROne
\* the two definitions of the importance weight agree
WeightIsRatio ==
  sc.kind = "smc" => \A c \in Latents(SmcM, sc.o) : Wt(SmcM, sc.o, SmcP, c) = WtRatio(SmcM, sc.o, SmcP, c)
\* E_q[2^lw] = Z   (hence the K-particle mean is unbiased too)
EvidenceUnbiased ==
  sc.kind = "smc" =>
    RSum(Latents(SmcM, sc.o), LAMBDA c : RMul(Pow2(QLP(SmcM, sc.o, SmcP, c)), Wt(SmcM, sc.o, SmcP, c)))
      = ZOf(SmcM, sc.o)
EvidenceUnbiasedK ==
  sc.kind = "smc" =>
    MeanZHat(SmcM, sc.o, SmcP, sc.K) = ZOf(SmcM, sc.o)
\* P_alg is a distribution with the support of the exact posterior
PAlgIsDistribution ==
  sc.kind = "smc" =>
    /\ RSum(Latents(SmcM, sc.o), LAMBDA s : PAlg(SmcM, sc.o, SmcP, sc.K, s)) = ROne
    /\ \A s \in Latents(SmcM, sc.o) :
          (PAlg(SmcM, sc.o, SmcP, sc.K, s)[1] > 0) <=> (Post(SmcM, sc.o, s)[1] > 0)
\* K = 1: the sampler's output distribution is the proposal itself
PAlgK1IsProposal ==
  (sc.kind = "smc" /\ sc.K = 1) =>
    \A s \in Latents(SmcM, sc.o) : PAlg(SmcM, sc.o, SmcP, 1, s) = Pow2(QLP(SmcM, sc.o, SmcP, s))
\* unbiased density sampler: E[1/est | S = s] = 1 / P_alg(s)
DensitySampler ==
  sc.kind = "smc" => \A s \in Latents(SmcM, sc.o) : InvDensMass(SmcM, sc.o, SmcP, sc.K, s) = ROne
\* unbiased density estimator by conditional SMC: E[est_csmc(s)] = P_alg(s)
DensityEstimator ==
  sc.kind = "smc" => \A s \in Latents(SmcM, sc.o) :
        CsmcMean(SmcM, sc.o, SmcP, sc.K, s) = PAlg(SmcM, sc.o, SmcP, sc.K, s)
\* with the exact posterior as proposal the weights are constant (= Z) and P_alg is the posterior
\* for every K; in general P_alg moves towards the posterior: total variation does not grow from K=1 to 2
TVNum(m, o, pr, K) ==    \* sum_s |P_alg(s) - Post(s)| as a rational
  RSum(Latents(m, o), LAMBDA s :
     LET a == PAlg(m, o, pr, K, s)
         b == Post(m, o, s)
     IN  IF RLe(a, b) THEN <<b[1] * a[2] - a[1] * b[2], a[2] * b[2]>> ELSE <<a[1] * b[2] - b[1] * a[2], a[2] * b[2]>>)
PAlgApproachesPosterior ==
  (sc.kind = "smc" /\ sc.K = 2) =>
     LET t1 == TVNum(SmcM, sc.o, SmcP, 1)
         t2 == TVNum(SmcM, sc.o, SmcP, 2)
     IN  t2[1] * t1[2] <= t1[1] * t2[2]

\* ChangeTarget yields properly weighted particles for the new target
ChangeMass(m, o, pr, m2, o2) ==
  RSum(Latents(m, o), LAMBDA c :
      RMul(Pow2(QLP(m, o, pr, c)), Pow2(LWChanged(m, o, pr, m2, o2, c))))
ChangeProper ==
  (sc.kind = "change" /\ Dropped(sc.o, sc.o2) = {} /\ Withdrawn(sc.o, sc.o2) = {}) =>
    ChangeMass(Models[sc.m], sc.o, PropAt(sc.p), Models[sc.m2], sc.o2) = ZOf(Models[sc.m2], sc.o2)
\* when the observed set grows, every new particle is reached from Card(site) old particles (one per
\* discarded value) and the density-ratio weight has no backward term for the discarded value:
\* E[2^lw'] = (product of the cardinalities of the newly observed sites) * Z_new  -- the ratio the
\* statement names, NOT a properly weighted collection (recorded in notes/inference.md)
ChangeGrowMass ==
  (sc.kind = "change" /\ Dropped(sc.o, sc.o2) # {}) =>
    LET m == Models[sc.m]
        n == MapThenFoldSet(LAMBDA a, b : a * b, 1, LAMBDA i : Card(m, i), LAMBDA S : CHOOSE x \in S : TRUE,
                            Dropped(sc.o, sc.o2))
    IN  ChangeMass(m, sc.o, PropAt(sc.p), Models[sc.m2], sc.o2) = RMul(<<n, 1>>, ZOf(Models[sc.m2], sc.o2))
\* a withdrawn observation is redrawn from the model: the reweighted collection is properly weighted for the new target
ChangeShrinkMass ==
  (sc.kind = "change" /\ Withdrawn(sc.o, sc.o2) # {}) =>
    LET m == Models[sc.m]  W == Withdrawn(sc.o, sc.o2)  pr == PropAt(sc.p) IN
    RSum(Latents(m, sc.o), LAMBDA c :
       RSum({c2 \in Latents(m, sc.o2) : \A i \in (1..NS(m)) \ W : c2[i] = c[i]}, LAMBDA c2 :
          RMul(RMul(Pow2(QLP(m, sc.o, pr, c)), Pow2(SumLP(m, W, c2))), Pow2(LWShrunk(m, sc.o, pr, sc.o2, c, c2)))))
      = ZOf(m, sc.o2)
\* the changed particle always satisfies the new constraint and keeps the other latents
ChangeParticle ==
  (sc.kind = "change" /\ Withdrawn(sc.o, sc.o2) = {}) =>
    \A c \in Latents(Models[sc.m], sc.o) :
       /\ Agrees(Overlay(c, sc.o2), sc.o2)
       /\ \A i \in 1..Len(c) : sc.o2[i] = Minus1 => Overlay(c, sc.o2)[i] = c[i]

\* Marginal: the selected-score weight is an unbiased density sampler weight, and it is the exact
\* marginal density whenever the unselected part does not influence the selected part
MarginalUnbiased ==
  sc.kind = "marg" =>
    LET m == Models[sc.m] IN
    \A s \in SelCells(m, sc.S) : UnbiasedMass(m, s, LAMBDA c : MW(m, sc.S, c)) = ROne
MarginalExact ==
  (sc.kind = "marg" /\ IndepSel(Models[sc.m], sc.S)) =>
    LET m == Models[sc.m] IN \A c \in Asg(m) : Pow2(MW(m, sc.S, c)) = PMarg(m, sc.S, c)
\* (the guard is not vacuous and not trivial in the catalogue)
MarginalGuardCoverage ==
  sc.kind = "catalogue" =>
    /\ \E mi \in 1..NM : \E S \in SUBSET (1..NS(Models[mi])) :
          S # {} /\ S # 1..NS(Models[mi]) /\ IndepSel(Models[mi], S)
    /\ \E mi \in 1..NM : \E S \in SUBSET (1..NS(Models[mi])) : ~IndepSel(Models[mi], S)

\* MH: log ratio is antisymmetric, satisfies detailed balance with acceptance min(1, 2^w),
\* and the resulting kernel leaves the model's distribution invariant
MhM == Models[sc.m]
MhAt == sc.p
MhDep == sc.K
MhQ(c, v) == Pow2(MHq(sc.mh, MhAt, MhDep, c, v))
MhW(c, d) == MHW(MhM, sc.mh, MhAt, MhDep, c, d)
MHAntisymmetric ==
  sc.kind = "mh" => \A c \in Asg(MhM) : \A v \in 0..2 :
      MhW(c, Moved(c, MhAt, v)) = 0 - MhW(Moved(c, MhAt, v), c)
MHDetailedBalance ==
  sc.kind = "mh" => \A c \in Asg(MhM) : \A v \in 0..2 :
      LET d == Moved(c, MhAt, v) IN
      RMul(RMul(Pj(MhM, c), MhQ(c, v)), MHAcc(MhW(c, d)))
        = RMul(RMul(Pj(MhM, d), MhQ(d, c[MhAt])), MHAcc(MhW(d, c)))
MHStationary ==
  sc.kind = "mh" => \A d \in Asg(MhM) :
      LET inflow == RSum(0..2, LAMBDA u :
                      LET c == Moved(d, MhAt, u) IN
                      RMul(RMul(Pj(MhM, c), MhQ(c, d[MhAt])), MHAcc(MhW(c, d))))
          stay   == RSum(0..2, LAMBDA v :
                      LET e == Moved(d, MhAt, v)
                          a == MHAcc(MhW(d, e))
                      IN  RMul(RMul(Pj(MhM, d), MhQ(d, v)), <<a[2] - a[1], a[2]>>))
      IN  RAdd(inflow, stay) = Pj(MhM, d)
\* argument change: the ratio of the move m -> m2 is minus the ratio of the reverse move m2 -> m
MHArgsAntisymmetric ==
  sc.kind = "mha" =>
    LET m == Models[sc.m]  m2 == Models[sc.m2] IN
    \A c \in Asg(m) : \A v \in 0..2 :
      /\ MHWArgs(m, m2, sc.mh, sc.p, sc.K, c, Moved(c, sc.p, v))
           = 0 - MHWArgs(m2, m, sc.mh, sc.p, sc.K, Moved(c, sc.p, v), c)
      /\ MHWArgs(m, m, sc.mh, sc.p, sc.K, c, Moved(c, sc.p, v)) = MHW(m, sc.mh, sc.p, sc.K, c, Moved(c, sc.p, v))
\* array-valued choice: antisymmetry and detailed balance of the elementwise proposal with summed densities
VMoves(m, c) == {d \in Asg(m) : \A i \in (1..NS(m)) \ VecAt : d[i] = c[i]}
MHVecLaws ==
  sc.kind = "mhv" =>
    LET m == VecModels[sc.m] IN
    \A c \in Asg(m) : \A d \in VMoves(m, c) :
      /\ MHWV(m, sc.mh, VecAt, c, d) = 0 - MHWV(m, sc.mh, VecAt, d, c)
      /\ RMul(RMul(Pj(m, c), Pow2(MHqV(sc.mh, VecAt, c, d))), MHAcc(MHWV(m, sc.mh, VecAt, c, d)))
           = RMul(RMul(Pj(m, d), Pow2(MHqV(sc.mh, VecAt, d, c))), MHAcc(MHWV(m, sc.mh, VecAt, d, c)))
      /\ RSum(VMoves(m, c), LAMBDA e : Pow2(MHqV(sc.mh, VecAt, c, e))) = ROne
\* the "old arguments" variant (diagnosis) is NOT the MH ratio for the random walk
MHOldArgsDiffers ==
  (sc.kind = "mh" /\ sc.mh = "rw") =>
     \E c \in Asg(MhM) : \E v \in 0..2 :
        MHWOldArgs(MhM, "rw", MhAt, 0, c, Moved(c, MhAt, v)) # MhW(c, Moved(c, MhAt, v))

---------------------------------------------------------------------------
\* Role B: print the catalogue and the scenarios.
Flags(m, S) == [i \in 1..NS(m) |-> IF i \in S THEN 1 ELSE 0]
EmitCase ==
  Emit =>
    CASE sc.kind = "catalogue" ->
           PrintT(<<"CATALOG", ToJson([models |-> Models, vmodels |-> VecModels, props |-> Props,
                                       rwt |-> RWT, ctt |-> CTT, dpt |-> DPT])>>)
      [] sc.kind = "marg" ->
           PrintT(<<"CASE", ToJson([kind |-> "marg", model |-> Models[sc.m].name,
                                    sel |-> Flags(Models[sc.m], sc.S),
                                    indep |-> IndepSel(Models[sc.m], sc.S)])>>)
      [] sc.kind = "mh" ->
           PrintT(<<"CASE", ToJson([kind |-> "mh", model |-> Models[sc.m].name, at |-> sc.p,
                                    dep |-> sc.K, mh |-> sc.mh, model2 |-> Models[sc.m].name])>>)
      [] sc.kind = "mha" ->
           PrintT(<<"CASE", ToJson([kind |-> "mh", model |-> Models[sc.m].name, at |-> sc.p,
                                    dep |-> sc.K, mh |-> sc.mh, model2 |-> Models[sc.m2].name])>>)
      [] sc.kind = "mhv" ->
           PrintT(<<"CASE", ToJson([kind |-> "mhv", model |-> VecModels[sc.m].name, mh |-> sc.mh])>>)
      [] sc.kind = "smc" ->
           PrintT(<<"CASE", ToJson([kind |-> "smc", model |-> Models[sc.m].name, o |-> sc.o,
                                    prop |-> PropAt(sc.p).name, K |-> sc.K,
                                    full |-> (Fresh(Models[sc.m], sc.o, PropAt(sc.p)) = {})])>>)
      [] sc.kind = "change" ->
           PrintT(<<"CASE", ToJson([kind |-> "change", model |-> Models[sc.m].name, o |-> sc.o,
                                    prop |-> PropAt(sc.p).name, model2 |-> Models[sc.m2].name,
                                    o2 |-> sc.o2, grow |-> (Dropped(sc.o, sc.o2) # {}),
                                    shrink |-> (Withdrawn(sc.o, sc.o2) # {})])>>)
      [] OTHER -> TRUE
=============================================================================
