------------------------------- MODULE GFIGen -------------------------------
(***************************************************************************)
(* Role B for the GFI family: TLC generates the CASES -- a program of the  *)
(* catalogue, an argument sample and a history of GFI requests -- either   *)
(* bounded-exhaustively (SpecSub: every subset of the program's address    *)
(* universe as constrained set) or from explicit LCG streams (SpecRand).   *)
(* Requests only mention addresses of Addrs(prog), argument samples of the *)
(* catalogue entry and selection terms; the values the implementation      *)
(* samples are not known here -- they are logged by the driver and checked *)
(* by GFITrace.                                                            *)
(***************************************************************************)
EXTENDS GFILaws, Rand, Json, SequencesExt

CONSTANTS ProgIds,      \* sequence of catalogue ids to draw programs from
          FirstOps,     \* sequence of first operations: "simulate" | "generate"
          EditOps,      \* sequence of edit operations to draw from (repetition = weight)
          Depth,        \* edits per history
          Seed, NChains, NPerChain

\* deterministic ordering of a set of paths (TLC's CHOOSE is deterministic)
AddrSeq(p) == SetToSeq(Addrs(p))

NoSel == [t |-> "none", p |-> <<>>, k |-> <<>>]
ST(t, p, k) == [t |-> t, p |-> p, k |-> k]
Rq(op, a, tg, cons, sel, idx, sub) == [op |-> op, a |-> a, tg |-> tg, cons |-> cons, sel |-> sel, idx |-> idx, sub |-> sub]
CE(p, v, f) == [p |-> p, v |-> v, f |-> f]

\* ---- random pieces.  Every generator is a pure function of a seed; independent
\* sub-seeds come from RAt (no threading of stream state, so TLC's call-by-name
\* evaluation of LET never re-evaluates a generator exponentially often).
RAt(r, j) == RSeed(r, j)

GenCons(r, addrs, num, maskp) ==
  \* the constrained ADDRESS SET comes from a pool of 4 per (Seed, program) so that the driver's compiled
  \* code is reused across cases; values and flags vary freely
  LET pool == RPick(r, 4)
      el(j) == LET fr == RPick(RAt(r, 3 * j + 2), 4) IN
               [p |-> addrs[j], v |-> RPick(RAt(r, 3 * j + 1), 3),
                f |-> IF maskp THEN (CASE fr = 0 -> "F" [] fr = 1 -> "T" [] OTHER -> "-") ELSE "-",
                take |-> RPick(RSeed(Seed + pool, j), 8) < num]
  IN  SelectSeq([j \in 1..Len(addrs) |-> el(j)], LAMBDA c : c.take)

\* selections over the static parts of the program's addresses
StatSeq(p) == SetToSeq({StaticPart(a) : a \in Addrs(p)})
GenSelAtom(r, p) ==
  LET ss == IF Addrs(p) = {} THEN << <<"x">> >> ELSE StatSeq(p)     \* (a zero-length map has no addresses)
      a  == ss[RPick(r, Len(ss)) + 1]
      c  == RPick(RNext(r), 8)
  IN  CASE c = 0 -> ST("all", <<>>, <<>>)
        [] c = 1 -> ST("none", <<>>, <<>>)
        [] c = 2 /\ Len(a) > 1 -> ST("at", <<a[1]>>, <<>>)                 \* a whole sub-call
        [] c = 3 /\ Len(a) > 1 -> ST("at", <<"*">> \o Tail(a), <<>>)       \* wildcard first component
        [] c = 4 -> ST("lf", a, <<>>)
        [] OTHER -> ST("at", a, <<>>)
GenSel(r, p) ==
  LET x == GenSelAtom(RAt(r, 1), p)
      y == GenSelAtom(RAt(r, 2), p)
      c == RPick(r, 6)
  IN  CASE c = 0 -> ST("not", <<>>, <<x>>)
        [] c = 1 -> ST("or", <<>>, <<x, y>>)
        [] c = 2 -> ST("and", <<>>, <<x, ST("not", <<>>, <<y>>)>>)
        [] OTHER -> x

GenEdit(r, e, opname) ==
  LET p   == e.p
      na  == Len(e.as)
      a   == IF RPick(r, 3) = 0 THEN RPick(RNext(r), na) + 1 ELSE 0          \* 0 = keep the current arguments
      tg  == IF RPick(RNext(RNext(r)), 4) = 0 THEN "allU" ELSE "honest"
      r3  == RAt(r, 7)
      r4  == RAt(r, 8)
  IN  CASE opname = "update"     -> Rq("update", a, tg, GenCons(r3, AddrSeq(p), 3, FALSE), NoSel, 0, "")
        [] opname = "updatemask" -> Rq("update", a, tg, GenCons(r3, AddrSeq(p), 4, TRUE), NoSel, 0, "")
        [] opname = "updateargs" -> Rq("update", RPick(r3, na) + 1, "honest", <<>>, NoSel, 0, "")
        [] opname = "regenerate" -> Rq("regenerate", a, tg, <<>>, GenSel(r3, p), 0, "")
        [] opname = "empty"      -> Rq("empty", a, tg, <<>>, NoSel, 0, "")
        [] opname = "indexupdate" -> Rq("index", 0, "honest", GenCons(r4, AddrSeq(p.subs[1]), 4, FALSE), NoSel, RPick(r3, p.n), "update")
        [] opname = "indexregen"  -> Rq("index", 0, "honest", <<>>, GenSel(r4, p.subs[1]), RPick(r3, p.n), "regenerate")
        [] opname = "project"    -> Rq("project", 0, "honest", <<>>, GenSel(r3, p), 0, "")
        [] opname = "staticreq"  -> Rq("static", a, tg, GenCons(r3, AddrSeq(p), 3, FALSE), GenSel(r4, p), RPick(r4, 4), "")
        [] opname = "assess"     -> Rq("assess", a, "honest", GenCons(r3, AddrSeq(p), IF RPick(r4, 3) = 0 THEN 5 ELSE 8, FALSE), NoSel, 0, "")
        [] opname = "subtrace"   -> Rq("subtrace", 0, "honest", <<>>, NoSel, RPick(r3, 4), "")
        [] opname = "diffannotate" -> Rq("diffannotate", a, tg, GenCons(r3, AddrSeq(p), 3, FALSE), NoSel, 0, "")
        [] OTHER -> Rq(opname, 0, "honest", <<>>, NoSel, 0, "")

OpAllowed(p, opname) ==
  CASE opname \in {"indexupdate", "indexregen"} -> p.k \in {"vmap", "scan"} /\ p.n > 0
    [] opname = "staticreq" -> p.k = "static"
    [] opname = "subtrace" -> LET okL(L) == L.k = "static" /\ L.sites # <<>> /\ \A j \in 1..Len(L.sites) : L.sites[j].callee.k \in {"dist", "static"} IN
                              \/ p.k = "static" /\ okL(p)
                              \/ p.k \in {"vmap", "repeat", "scan", "mask", "dimap"} /\ okL(p.subs[1])
                              \/ p.k = "switch" /\ \A j \in 1..Len(p.subs) : okL(p.subs[j])     \* the driver addresses a site of the branch that executed
    [] OTHER -> TRUE

GenEdits(r, e, d) ==
  [j \in 1..d |->
     LET opname == EditOps[RPick(RAt(r, 2 * j), Len(EditOps)) + 1]
         nm     == IF OpAllowed(e.p, opname) THEN opname ELSE "update"
     IN  GenEdit(RAt(r, 2 * j + 1), e, nm)]

GenCase(r) ==
  LET e   == Entry(ProgIds[RPick(r, Len(ProgIds)) + 1])
      a0  == RPick(RNext(r), Len(e.as)) + 1
      fo  == FirstOps[RPick(RNext(RNext(r)), Len(FirstOps)) + 1]
      c0  == GenCons(RAt(r, 5), AddrSeq(e.p), IF fo = "generatemask" THEN 4 ELSE 3, fo = "generatemask")
      first == IF fo = "simulate" THEN Rq("simulate", a0, "honest", <<>>, NoSel, 0, "")
               ELSE Rq("generate", a0, "honest", c0, NoSel, 0, "")
  IN  [pid |-> e.id, key |-> RPick(RAt(r, 6), 60000), ops |-> <<first>> \o GenEdits(RAt(r, 9), e, Depth)]

VARIABLES case, n, r
vars == <<case, n, r>>
InitRand == \E i \in 1..NChains : r = RSeed(Seed, i) /\ case = GenCase(r) /\ n = 1
NextRand == /\ n < NPerChain
            /\ r' = RNext(r)
            /\ case' = GenCase(r')
            /\ n' = n + 1
SpecRand == InitRand /\ [][NextRand]_vars

\* bounded-exhaustive: every subset of the address universe constrained in a generate
\* (values from the stream), for every program of ProgIds and every argument sample
SubCase(id, a0, S, i) ==
  LET e  == Entry(id)
      as == AddrSeq(e.p)
      rr == RSeed(Seed, i)
      cons == [j \in 1..Len(as) |-> [p |-> as[j], v |-> RPick(RSeed(Seed + j, i), 3), f |-> "-", take |-> TRUE]]
      sel  == SelectSeq(cons, LAMBDA c : c.p \in S)
  IN  [pid |-> id, key |-> RPick(rr, 60000), ops |-> <<Rq("generate", a0, "honest", sel, NoSel, 0, "")>> \o GenEdits(rr, e, Depth)]
InitSub == /\ n = 0 /\ r = 0
           /\ case = [pid |-> "", key |-> 0, ops |-> <<>>]
NextSub == /\ n = 0 /\ n' = 1 /\ r' = 0
           /\ \E j \in 1..Len(ProgIds) :
                LET e == Entry(ProgIds[j]) IN
                \E a0 \in 1..Len(e.as) : \E S \in SUBSET Addrs(e.p) :
                   Cardinality(Addrs(e.p)) <= 6 /\ case' = SubCase(e.id, a0, S, j * 97 + a0 * 13 + Cardinality(S))
SpecSub == InitSub /\ [][NextSub]_vars

EmitCase == case.pid # "" => PrintT(<<"CASE", ToJson(case)>>)

\* the catalogue itself, printed once (programs, argument samples, address universes)
CatJson == [j \in 1..Len(Catalog) |->
              [id |-> Catalog[j].id, p |-> Catalog[j].p, as |-> Catalog[j].as,
               g |-> SetToSeq(Catalog[j].g), addrs |-> AddrSeq(Catalog[j].p)]]
EmitCatalog == PrintT(<<"CATALOG", ToJson(CatJson)>>)
=============================================================================
