--------------------------- MODULE InferenceTrace ---------------------------
(***************************************************************************)
(* Trace validation (role D) for C25 / C26 / C27: every event the driver   *)
(* logged from the real genjax code (one JSON object per line in the file  *)
(* named by the environment variable TRACE_FILE) is judged against the     *)
(* definitions of Inference.tla.  One TLC step per event; verdicts are     *)
(* total (a failing clause is printed, never a deadlock).                  *)
(*                                                                         *)
(* Numbers: log-weights are logged as round(w / ln2 * 256) ("w256");       *)
(* linear-domain quantities as round(2^(w/ln2) * 2^F).                     *)
(***************************************************************************)
EXTENDS Inference, IOUtils

CONSTANTS TOL,          \* tolerance on w256 quantities (units of ln2/256)
          HB2,          \* the same for the N2 keys of the C25 statistical fallback (HB2*HB2 >= 16*N2)
          HB            \* Hoeffding half-width numerator: |sum - N*mean| <= HB * range for N = NStat keys
                        \* HB = least b with b*b >= 16*NStat (ln(2/delta) <= 32, delta = 2.6e-14 per test)

Log == ndJsonDeserialize(IOEnv.TRACE_FILE)
NLog == Len(Log)

VARIABLES i, nfail, nchk
tvars == <<i, nfail, nchk, sc>>

Close(a, b) == (a - b) \in (0 - TOL)..TOL
Abs(x) == IF x < 0 THEN 0 - x ELSE x
Fl(clause, diag) == [clause |-> clause, diag |-> diag]
InRange(m, c) == Len(c) = NS(m) /\ \A j \in 1..NS(m) : c[j] \in 0..(Card(m, j) - 1)
\* w256 is a multiple of 256 up to tolerance  ->  the integer exponent
IsDyadic(w) == Abs(w - 256 * ((w + 128 + 256 * 64) \div 256 - 64)) <= TOL
Expo(w) == (w + 128 + 256 * 64) \div 256 - 64
HoeffdingOK(NStat) == HB * HB >= 16 * NStat

---------------------------------------------------------------------------
\* C26: Importance / ImportanceK run_smc
LwDiag(m, o, pr, c, w) ==
  IF Close(w, 256 * SumLP(m, ObsIdx(o) \cup OnSet(pr), c)) /\ LPq(pr, o, c) # 0 THEN "q_score_zero"
  ELSE IF Close(w, 256 * (SumLP(m, ObsIdx(o) \cup OnSet(pr), c) + LPq(pr, o, c))) /\ LPq(pr, o, c) # 0 THEN "q_score_sign"
  ELSE IF Close(w, 256 * (JointLP(m, c) - LPq(pr, o, c))) THEN "full_score"
  ELSE "other"

ChkSmc(e) ==
  LET m  == ModelNamed(e.model)
      pr == PropAt(PIdx(e.prop))
      K  == Len(e.parts)
      bad == {j \in 1..K : ~InRange(m, e.parts[j])}
      sumlin == ISum(1..K, LAMBDA j : e.lwlin[j])
  IN  IF bad # {} THEN {Fl("C26.constraints", "value_out_of_support")}
      ELSE
        {Fl("C26.constraints", "particle_violates_constraint") : j \in {j \in 1..K : ~Agrees(e.parts[j], e.o)}}
        \cup {Fl("C26.lw", LwDiag(m, e.o, pr, e.parts[j], e.lw[j])) :
                 j \in {j \in 1..K : ~Close(e.lw[j], 256 * LW(m, e.o, pr, e.parts[j]))}}
        \cup (IF Abs(K * e.lmllin - sumlin) <= K + 1 + sumlin \div 256 THEN {}
              ELSE {Fl("C26.lml", IF Abs(e.lmllin - sumlin) <= K + 1 + sumlin \div 256 THEN "sum_not_mean" ELSE "other")})
        \cup (IF e.K = K THEN {} ELSE {Fl("C26.constraints", "particle_count")})

\* ChangeTarget.run_smc against prev.run_smc with the same key
ChkChange(e) ==
  LET m  == ModelNamed(e.model)
      m2 == ModelNamed(e.model2)
      K  == Len(e.parts)
      wf(j) == InRange(m, e.parts[j]) /\ InRange(m2, e.parts2[j])
      sat(j) == Agrees(e.parts2[j], e.o2)
      \* the new particle: the new target's observations over the old particle's latents
      W  == Withdrawn(e.o, e.o2)          \* withdrawn observations are redrawn: any in-range value there
      ok(j) == wf(j) /\ sat(j) /\ \A q \in (1..NS(m)) \ W : e.parts2[j][q] = Overlay(e.parts[j], e.o2)[q]
      want(j) == 256 * (SumLP(m2, (1..NS(m2)) \ W, e.parts2[j]) - JointLP(m, e.parts[j]))
      sumlin == ISum(1..K, LAMBDA j : e.lw2lin[j])
  IN  {Fl("C26.constraints", IF Dropped(e.o, e.o2) # {} /\ e.parts2[j] = e.parts[j]
                                THEN "stale_value_kept_at_newly_observed_address"
                                ELSE "changed_particle_violates_new_constraint") :
            j \in {j \in 1..K : wf(j) /\ ~sat(j)}}
      \cup {Fl("C26.change", "particle_changed") : j \in {j \in 1..K : ~wf(j) \/ (sat(j) /\ ~ok(j))}}
      \cup {Fl("C26.change", IF Close(e.lw[j] - e.lw2[j], want(j)) /\ want(j) # 0 THEN "ratio_inverted" ELSE "other") :
               j \in {j \in 1..K : wf(j) /\ ~Close(e.lw2[j] - e.lw[j], want(j))}}
      \cup (IF Abs(K * e.lml2lin - sumlin) <= K + 1 + sumlin \div 256 THEN {} ELSE {Fl("C26.lml", "changed_collection")})

\* SMCAlgorithm.random_weighted, one key: returned addresses; K = 1: the density estimate is exact
ChkRw(e) ==
  LET m  == ModelNamed(e.model)
      pr == PropAt(PIdx(e.prop))
      s  == Overlay(e.vals, e.o)
      all == \A j \in 1..NS(m) : e.o[j] = Minus1 => e.present[j] = 1
  IN  (IF e.extra = 0 /\ \A j \in 1..NS(m) : e.present[j] = 1 => e.o[j] = Minus1 THEN {}
       ELSE {Fl("C26.rw", "constrained_or_unknown_address_returned")})
      \cup (IF e.K = 1 /\ all /\ InRange(m, s) /\ ~Close(e.w, 256 * QLP(m, e.o, pr, s))
            THEN {Fl("C26.dens", IF Close(e.w, 256 * (JointLP(m, s) - SumLP(m, ObsIdx(e.o) \cup OnSet(pr), s)))
                                      /\ LPq(pr, e.o, s) # 0 THEN "q_score_zero" ELSE "other")}
            ELSE {})

\* SMCAlgorithm.random_weighted, N keys aggregated per returned sample s (K <= 2):
\* empirical output distribution vs P_alg, E[1/est ; S=s] = 1, E[2^lml] = Z   (Hoeffding)
CellOf(e, s, n) == LET hit == {k \in 1..Len(e.cells) : SubSeq(e.cells[k], 1, n) = s}
                   IN  IF hit = {} THEN <<0, 0>>
                       ELSE LET k == CHOOSE k \in hit : TRUE IN <<e.cells[k][n + 1], e.cells[k][n + 2]>>
ChkRwStat(e) ==
  LET m  == ModelNamed(e.model)
      pr == PropAt(PIdx(e.prop))
      n  == NS(m)
      N  == e.N
      Z  == ZOf(m, e.o)
      wmax == RCeil(WMax(m, e.o, pr))
      stray == {k \in 1..Len(e.cells) : ~(InRange(m, SubSeq(e.cells[k], 1, n)) /\ Agrees(SubSeq(e.cells[k], 1, n), e.o))}
      badP == {s \in Latents(m, e.o) :
                 LET pa == PAlg(m, e.o, pr, e.K, s)  c == CellOf(e, s, n)
                 IN  Abs(c[1] * pa[2] - N * pa[1]) > HB * pa[2]}
      badD == {s \in Latents(m, e.o) :
                 LET c == CellOf(e, s, n)
                 IN  Abs(c[2] - N * 256) > HB * InvDensRange(m, e.o, pr, s) * 256 + N}
  IN  IF ~HoeffdingOK(N) THEN {Fl("MACHINERY", "HB too small for N")}
      ELSE
      (IF stray = {} THEN {} ELSE {Fl("C26.constraints", "sample_outside_posterior_support")})
      \cup {Fl("C26.palg", "output_distribution") : s \in badP}
      \cup {Fl("C26.densstat", "E[1/est;S=s]#1") : s \in badD}
      \cup (IF Abs(e.lmlsum * Z[2] - N * Z[1] * 256) <= (HB * wmax * 256 + N) * Z[2] THEN {}
            ELSE {Fl("C26.evidence", "E[2^lml]#Z")})

\* run_csmc: the retained particle is the last one and holds the retained choices
ChkCsmc(e) ==
  LET m == ModelNamed(e.model)
      K == Len(e.parts)
  IN  IF e.status # "ok" THEN {}
      ELSE (IF K >= 1 /\ e.parts[K] = Overlay(e.ret, e.o) THEN {} ELSE {Fl("C26.csmc", "retained_not_last")})
           \cup {Fl("C26.csmc", "particle_violates_constraint") : j \in {j \in 1..K : ~Agrees(e.parts[j], e.o)}}

---------------------------------------------------------------------------
\* C25: Marginal without algorithm: table of w(s,u)
SelSet(e) == {j \in 1..Len(e.sel) : e.sel[j] = 1}
ChkMarg(e) ==
  LET m == ModelNamed(e.model)
      n == NS(m)
      S == SelSet(e)
      cellc(k) == SubSeq(e.cells[k], 1, n)
      cnt(k)  == e.cells[k][n + 1]
      wmin(k) == e.cells[k][n + 2]
      wmax(k) == e.cells[k][n + 3]
      lin(k)  == e.cells[k][n + 4]
      KS == 1..Len(e.cells)
      idx(c) == CHOOSE k \in KS : cellc(k) = c
      present == {cellc(k) : k \in KS}
      wellformed == \A k \in KS : InRange(m, cellc(k))
      func == \A k \in KS : wmax(k) - wmin(k) <= TOL
      dyadic == \A k \in KS : IsDyadic(wmin(k))
      complement == \A k \in KS : Close(wmin(k), 256 * MWComplement(m, S, cellc(k)))
      diag == IF complement THEN "weight_is_project_of_complement" ELSE "other"
      \* exact identity (dyadic weights)
      massExact(s) == UnbiasedMass(m, s, LAMBDA c : Expo(wmin(idx(c))))
      \* approximate identity (non-dyadic weights), scale 2^7 * 2^10, 2 percent
      massLin(s) == ISum({c \in Asg(m) : Extends(c, s)}, LAMBDA c : (2^(7 + JointLP(m, c))) * lin(idx(c)))
      indep == IndepSel(m, S)
  IN  (IF e.retok = 1 THEN {} ELSE {Fl("C25.sel", "returned_addresses_not_the_selected")})
      \cup
      (IF e.consistent = 0 /\ e.retok = 0 THEN {}      \* no table: the returned choices are already wrong (C25.sel)
       ELSE IF e.consistent = 0 THEN {Fl("MACHINERY", "the sample of a key depends on the selection: no table w(s,u)")}
       ELSE IF ~wellformed THEN {Fl("C25.sel", "value_out_of_support")}
       ELSE IF ~func THEN
         \* randomised weight: E[2^-w ; S = s] = 1 by Hoeffding over N2 keys, range of 2^-w from the model
         (IF HB2 * HB2 < 16 * e.N2 THEN {Fl("MACHINERY", "HB2 too small for N2")}
          ELSE {Fl("C25.unbiased", "randomised_weight_E[2^-w;S=s]#1") : s \in {s \in SelCells(m, S) :
                 LET hit == {k \in 1..Len(e.stat) : SubSeq(e.stat[k], 1, n) = s}
                     sum8 == IF hit = {} THEN 0 ELSE e.stat[CHOOSE k \in hit : TRUE][n + 2]
                     rng == RCeil(RMaxOver({c \in Asg(m) : Extends(c, s)}, LAMBDA c : Pow2(0 - MW(m, S, c))))
                 IN  Abs(sum8 - e.N2 * 256) > HB2 * rng * 256 + e.N2}})
       ELSE IF Asg(m) \ present # {} THEN {Fl("C25.unbiased", "cell_never_sampled")}
       ELSE
         {Fl("C25.unbiased", diag) : s \in {s \in SelCells(m, S) :
               IF dyadic THEN massExact(s) # ROne
               ELSE Abs(massLin(s) - 2^17) > 2^17 \div 50}}
         \cup
         (IF indep
          THEN {Fl("C25.exact", diag) : k \in {k \in KS :
                   ~(IsDyadic(wmin(k)) /\ Pow2(Expo(wmin(k))) = PMarg(m, S, cellc(k)))}}
          ELSE {}))
      \cup
      (IF ~indep THEN {}
       ELSE IF e.eststatus # "ok" THEN {Fl("C25.exact", "estimate_logpdf_" \o e.eststatus)}
       ELSE {Fl("C25.exact", "estimate_logpdf_differs") : k \in {k \in 1..Len(e.est) :
                LET c == SubSeq(e.est[k], 1, n)  lo == e.est[k][n + 1]  hi == e.est[k][n + 2]
                IN  ~(hi - lo <= TOL /\ IsDyadic(lo) /\ Pow2(Expo(lo)) = PMarg(m, S, [j \in 1..n |-> IF j \in S THEN c[j] ELSE 0]))}})

\* Marginal with an inference algorithm: statistical clause only
\* range of 2^-w "taken from the model": the reciprocal of the smallest importance weight the
\* algorithm's particles can have for the target (m, s) when proposed for the placeholder target
MargAlgRange(m, S, s, o0) ==
  RCeil(RMaxOver({c \in Asg(m) : Extends(c, s)},
                 LAMBDA c : RDiv(Pow2(QLP(m, o0, NoProp, Overlay(c, o0))), Pj(m, c))))
ChkMargAlg(e) ==
  LET m == ModelNamed(e.model)
      n == NS(m)
      S == SelSet(e)
      N == e.N
      cell(s) == LET hit == {k \in 1..Len(e.cells) : SubSeq(e.cells[k], 1, n) = s}
                 IN  IF hit = {} THEN 0 ELSE e.cells[CHOOSE k \in hit : TRUE][n + 2]
  IN  IF e.status # "ok" THEN {Fl("C25.alg", e.status)}
      ELSE IF ~HoeffdingOK(N) THEN {Fl("MACHINERY", "HB too small for N")}
      ELSE
        (IF e.retok = 1 THEN {} ELSE {Fl("C25.sel", "returned_addresses_not_the_selected")})
        \cup {Fl("C25.alg", "E[1/w;S=s]#1") : s \in {s \in SelCells(m, S) :
                 Abs(cell(s) - N * 256) > HB * MargAlgRange(m, S, s, e.o0) * 256 + N}}

---------------------------------------------------------------------------
\* C27: Rejuvenate
\* cells: c (start choices), d (choices of the new trace), wmin, wmax, count, smin, smax (score of the new trace)
ChkRejuv(e) ==
  LET m  == ModelNamed(e.model)
      m2 == ModelNamed(e.model2)          \* model after the edit (= m unless the arguments change)
      n == NS(m)
      vec == e.vec = 1
      KS == 1..Len(e.cells)
      cc(k) == SubSeq(e.cells[k], 1, n)
      dd(k) == SubSeq(e.cells[k], n + 1, 2 * n)
      lo(k) == e.cells[k][2 * n + 1]
      hi(k) == e.cells[k][2 * n + 2]
      slo(k) == e.cells[k][2 * n + 4]
      shi(k) == e.cells[k][2 * n + 5]
      wf(k) == InRange(m, cc(k)) /\ InRange(m, dd(k))
      qf(k) == IF vec THEN MHqV(e.mh, VecAt, cc(k), dd(k)) ELSE MHq(e.mh, e.at, e.dep, cc(k), dd(k)[e.at])   \* forward
      qb(k) == IF vec THEN MHqV(e.mh, VecAt, dd(k), cc(k)) ELSE MHq(e.mh, e.at, e.dep, dd(k), cc(k)[e.at])   \* backward
      want(k) == 256 * (JointLP(m2, dd(k)) + qb(k) - JointLP(m, cc(k)) - qf(k))
      old(k)  == IF vec THEN want(k) + 1 ELSE 256 * MHWOldArgs(m, e.mh, e.at, e.dep, cc(k), dd(k))
      sign(k) == 256 * (JointLP(m2, dd(k)) - JointLP(m, cc(k)) - qb(k) + qf(k))
      oldarg(k) == 256 * (JointLP(m, dd(k)) + qb(k) - JointLP(m, cc(k)) - qf(k))       \* p(x') under the OLD arguments
      all(W(_)) == \A k \in KS : wf(k) /\ hi(k) - lo(k) <= TOL /\ Close(lo(k), W(k))
      good(k) == wf(k) /\ hi(k) - lo(k) <= TOL /\ Close(lo(k), want(k))
      bad == {k \in KS : ~good(k)}
      diag == IF m2 # m /\ all(oldarg) THEN "scored_under_old_arguments"
              ELSE IF m2 = m /\ ~vec /\ all(old) THEN "backward_args_from_old_choices"
              ELSE IF all(sign) THEN "proposal_terms_sign"
              ELSE "other"
      starts == {cc(k) : k \in KS}
      reach(c) == IF vec THEN {<<dd(k)[1], dd(k)[2]>> : k \in {k \in KS : cc(k) = c}} = (0..2) \X (0..2)
                  ELSE {dd(k)[e.at] : k \in {k \in KS : cc(k) = c}} = 0..2
  IN  IF e.status # "ok" THEN {Fl("C27.weight", e.status)}
      ELSE
        (IF bad = {} THEN {} ELSE {Fl("C27.weight", diag)})
        \cup (IF starts = Asg(m) /\ \A c \in starts : reach(c) THEN {}
              ELSE {Fl("C27.trace", "proposal_support_not_reached")})
        \cup (IF e.arg2 = (IF m2.nargs = 0 THEN Minus1 ELSE m2.arg) THEN {}
              ELSE {Fl("C27.trace", "trace_keeps_old_arguments")})
        \cup (IF \A k \in KS : wf(k) => (shi(k) - slo(k) <= TOL /\ Close(slo(k), 256 * JointLP(m2, dd(k)))) THEN {}
              ELSE {Fl("C27.trace", "score_not_the_density_of_the_new_choices_under_the_new_arguments")})

Check(e) ==
  CASE e.op = "smc"     -> ChkSmc(e)
    [] e.op = "change"  -> ChkChange(e)
    [] e.op = "rw"      -> ChkRw(e)
    [] e.op = "rwstat"  -> ChkRwStat(e)
    [] e.op = "csmc"    -> ChkCsmc(e)
    [] e.op = "marg"    -> ChkMarg(e)
    [] e.op = "margalg" -> ChkMargAlg(e)
    [] e.op = "rejuv"   -> ChkRejuv(e)
    [] OTHER            -> {Fl("MACHINERY", "unknown event kind")}

TInit == i = 0 /\ nfail = 0 /\ nchk = 0 /\ sc = 0
TNext ==
  /\ i < NLog
  /\ i' = i + 1
  /\ UNCHANGED sc
  /\ LET e == Log[i + 1]
         f == Check(e)
     IN  /\ nfail' = nfail + Cardinality(f)
         /\ nchk' = nchk + 1
         /\ (f = {} \/ PrintT(<<"VERDICT", ToJson([ev |-> e.id, fails |-> f])>>))
  /\ (i' < NLog \/ PrintT(<<"DONE", ToJson([events |-> NLog, checked |-> nchk', failed |-> nfail'])>>))
TSpec == TInit /\ [][TNext]_tvars
=============================================================================
