-------------------------------- MODULE HMM --------------------------------
(***************************************************************************)
(* Discrete hidden Markov model: exact posterior over latent sequences by  *)
(* ENUMERATION, and forward filtering / backward sampling (FFBS), the      *)
(* algorithm of genjax/_src/generative_functions/distributions/custom/     *)
(* discrete_hmm.py.  Linear-domain arithmetic on 15-bit "soft floats"      *)
(* [m, e] = m * 2^e with 2^14 <= m < 2^15 (or m = 0), renormalised after   *)
(* every operation (relative error <= 2^-13 per operation), so that all    *)
(* intermediate integers stay below 2^31.                                  *)
(*                                                                         *)
(* A case is a record                                                      *)
(*   [N, T, pi (N), A (N x N, row = from), B (N x N, row = state), obs (T)] *)
(* with table entries as soft floats; states and symbols are 1..N.         *)
(*   W(z)      = pi[z1] B[z1][y1] * PROD_t A[z(t-1)][z(t)] B[z(t)][y(t)]    *)
(*   Post(z)   = W(z) / SUM_z' W(z')             (enumeration)             *)
(*   Fwd       = forward recursion, Filt = normalised forward messages     *)
(*   FFBS(z)   = Filt_T[z_T] * PROD_t  Filt_t[z_t] A[z_t][z_t+1]            *)
(*                                     / SUM_j Filt_t[j] A[j][z_t+1]        *)
(* Role A (Spec): for built-in dyadic tables and every observation         *)
(* sequence of length <= MaxT, TLC checks FFBS(z) = Post(z) for all z,      *)
(* SUM Post = 1 and SUM_x Fwd_T(x) = SUM_z W(z).                            *)
(* Role D (TraceSpec): one step per logged case: tables computed by the     *)
(* driver (softmax of config.transition_tensor() etc.), and what the        *)
(* implementation returned: exp(estimate_logpdf(z)) for every z,            *)
(* exp(data_logpdf), (z, weight, estimate_logpdf(z)) of random_weighted     *)
(* draws, and per-cell counts of 4096 samples; clauses C37.post, C37.data,  *)
(* C37.rw, C37.freq (Hoeffding, integer arithmetic), C37.run.               *)
(***************************************************************************)
EXTENDS Integers, Sequences, FiniteSets, TLC, Json, IOUtils

CONSTANTS MaxT          \* role A: longest observation sequence

---------------------------------------------------------------------------
\* soft floats
LO == 16384
HI == 32768
FZero == [m |-> 0, e |-> 0]
RECURSIVE FNorm(_, _)
FNorm(m, e) == IF m = 0 THEN FZero
               ELSE IF m >= HI THEN FNorm(m \div 2, e + 1)
               ELSE IF m < LO THEN FNorm(m * 2, e - 1)
               ELSE [m |-> m, e |-> e]
FInt(n) == FNorm(n, 0)
FOne == FInt(1)
FMul(x, y) == IF x.m = 0 \/ y.m = 0 THEN FZero ELSE FNorm((x.m * y.m) \div LO, x.e + y.e + 14)
FDiv(x, y) == IF x.m = 0 THEN FZero ELSE FNorm((x.m * LO) \div y.m, x.e - y.e - 14)        \* y.m # 0
FLeq(x, y) == IF x.m = 0 THEN TRUE ELSE IF y.m = 0 THEN FALSE
              ELSE x.e < y.e \/ (x.e = y.e /\ x.m <= y.m)
FAdd(x, y) == IF x.m = 0 THEN y ELSE IF y.m = 0 THEN x
              ELSE LET hi == IF FLeq(x, y) THEN y ELSE x
                       lo == IF FLeq(x, y) THEN x ELSE y
                       d  == hi.e - lo.e
                   IN  IF d > 15 THEN hi ELSE FNorm(hi.m * (2 ^ d) + lo.m, lo.e)
\* |x - y|
FAbsDiff(x, y) == LET hi == IF FLeq(x, y) THEN y ELSE x
                      lo == IF FLeq(x, y) THEN x ELSE y
                  IN  IF lo.m = 0 THEN hi
                      ELSE LET d == hi.e - lo.e
                           IN  IF d > 15 THEN hi ELSE FNorm(hi.m * (2 ^ d) - lo.m, lo.e)
\* |x - y| * k <= max(x, y): relative closeness 1/k
FRelClose(x, y, k) == LET hi == IF FLeq(x, y) THEN y ELSE x
                      IN  FLeq(FMul(FAbsDiff(x, y), FInt(k)), hi)
RECURSIVE FSumSeq(_)
FSumSeq(s) == IF s = <<>> THEN FZero ELSE FAdd(Head(s), FSumSeq(Tail(s)))
\* floor(x * 2^14) for 0 <= x <= 2
FFix14(x) == IF x.m = 0 THEN 0
             ELSE LET sh == x.e + 14 IN
                  IF sh >= 0 THEN x.m * (2 ^ sh) ELSE IF sh < -15 THEN 0 ELSE x.m \div (2 ^ (-sh))
FRat(n, d) == FDiv(FInt(n), FInt(d))

---------------------------------------------------------------------------
\* the model
RECURSIVE Pow(_, _)
Pow(b, k) == IF k = 0 THEN 1 ELSE b * Pow(b, k - 1)
NSeq(c) == Pow(c.N, c.T)
\* latent sequences in lexicographic order, index 1..N^T; states 1..N
SeqOf(c, idx) == [t \in 1..c.T |-> (((idx - 1) \div Pow(c.N, c.T - t)) % c.N) + 1]

RECURSIVE WPrefix(_, _, _)
WPrefix(c, z, t) ==
  IF t = 1 THEN FMul(c.pi[z[1]], c.B[z[1]][c.obs[1]])
  ELSE FMul(WPrefix(c, z, t - 1), FMul(c.A[z[t - 1]][z[t]], c.B[z[t]][c.obs[t]]))
W(c, z) == WPrefix(c, z, c.T)
WAll(c) == [i \in 1..NSeq(c) |-> W(c, SeqOf(c, i))]
\* TLC re-evaluates a LET definition at every use; binding a value through a singleton set evaluates it once:
\*   Bind({ body(x) : x \in {expr} })  is  LET x == expr IN body(x)
Bind(S) == CHOOSE x \in S : TRUE
\* exact posterior by enumeration
PostOf(w) == Bind({ [i \in 1..Len(w) |-> FDiv(w[i], zz)] : zz \in {FSumSeq(w)} })
PostAll(c) == Bind({ PostOf(w) : w \in {WAll(c)} })
Evidence(c) == FSumSeq(WAll(c))

\* forward recursion: FwdAll(c)[t][x] = p(x_t = x, y_1..y_t)
FwdFirst(c) == [x \in 1..c.N |-> FMul(c.pi[x], c.B[x][c.obs[1]])]
FwdStep(c, p, t) == [x \in 1..c.N |-> FMul(FSumSeq([j \in 1..c.N |-> FMul(p[j], c.A[j][x])]), c.B[x][c.obs[t]])]
RECURSIVE FwdUpTo(_, _)
FwdUpTo(c, t) == IF t = 1 THEN << FwdFirst(c) >>
                 ELSE Bind({ Append(prev, FwdStep(c, prev[t - 1], t)) : prev \in {FwdUpTo(c, t - 1)} })
FwdAll(c) == FwdUpTo(c, c.T)
NormVec(a) == Bind({ [x \in 1..Len(a) |-> FDiv(a[x], s)] : s \in {FSumSeq(a)} })
\* forward filters p(x_t | y_1..y_t), t = 1..T
FiltAll(c) == Bind({ [t \in 1..c.T |-> NormVec(fw[t])] : fw \in {FwdAll(c)} })
\* backward conditional p(x_t = j | x_{t+1} = nx, y_1..y_t), from the forward filter f of step t
Back(c, f, nx) == NormVec([j \in 1..c.N |-> FMul(f[j], c.A[j][nx])])
RECURSIVE FFBSFrom(_, _, _, _)
FFBSFrom(c, fl, z, t) ==   \* probability that backward sampling produces z[1..t] given z[t+1]
  IF t = 0 THEN FOne ELSE FMul(Back(c, fl[t], z[t + 1])[z[t]], FFBSFrom(c, fl, z, t - 1))
\* fl = FiltAll(c)
FFBS(c, fl, z) == FMul(fl[c.T][z[c.T]], FFBSFrom(c, fl, z, c.T - 1))

---------------------------------------------------------------------------
\* Role A: built-in dyadic tables (numerators over 8), every observation sequence up to MaxT.
R8(row) == [i \in 1..Len(row) |-> FRat(row[i], 8)]
M8(mat) == [i \in 1..Len(mat) |-> R8(mat[i])]
Tables == <<
  [N |-> 3, pi |-> R8(<<4, 2, 2>>), A |-> M8(<< <<4, 2, 2>>, <<2, 4, 2>>, <<2, 2, 4>> >>),
                                    B |-> M8(<< <<6, 1, 1>>, <<1, 6, 1>>, <<1, 1, 6>> >>)],
  [N |-> 3, pi |-> R8(<<1, 5, 2>>), A |-> M8(<< <<5, 2, 1>>, <<1, 4, 3>>, <<2, 2, 4>> >>),
                                    B |-> M8(<< <<4, 3, 1>>, <<2, 2, 4>>, <<1, 1, 6>> >>)],
  [N |-> 2, pi |-> R8(<<6, 2>>),    A |-> M8(<< <<7, 1>>, <<3, 5>> >>),
                                    B |-> M8(<< <<5, 3>>, <<1, 7>> >>)],
  [N |-> 3, pi |-> R8(<<2, 3, 3>>), A |-> M8(<< <<1, 1, 6>>, <<6, 1, 1>>, <<1, 6, 1>> >>),
                                    B |-> M8(<< <<3, 3, 2>>, <<1, 2, 5>>, <<4, 2, 2>> >>)]
>>

VARIABLES tab, obs,         \* role A: table index and observation sequence so far
          ti, tfails        \* role D
vars == <<tab, obs, ti, tfails>>

Case == [N |-> Tables[tab].N, T |-> Len(obs), pi |-> Tables[tab].pi, A |-> Tables[tab].A, B |-> Tables[tab].B, obs |-> obs]

Init == tab \in 1..Len(Tables) /\ obs = <<>> /\ ti = 0 /\ tfails = 0
Next == /\ Len(obs) < MaxT
        /\ \E y \in 1..Tables[tab].N : obs' = Append(obs, y)
        /\ UNCHANGED <<tab, ti, tfails>>
Spec == Init /\ [][Next]_vars

RA == 400    \* role A closeness: 1/400 (soft-float rounding accumulates ~ 2^-13 per operation)
\* FFBS's sampling distribution (product of backward conditionals) is the enumerated posterior
FFBSIsPosterior == Len(obs) > 0 =>
    \A c \in {Case} : \A p \in {PostAll(c)} : \A fl \in {FiltAll(c)} :
       \A i \in 1..NSeq(c) : FRelClose(FFBS(c, fl, SeqOf(c, i)), p[i], RA)
PosteriorSumsToOne == Len(obs) > 0 => FRelClose(FSumSeq(PostAll(Case)), FOne, RA)
FFBSSumsToOne == Len(obs) > 0 =>
    \A c \in {Case} : \A fl \in {FiltAll(c)} :
       FRelClose(FSumSeq([i \in 1..NSeq(c) |-> FFBS(c, fl, SeqOf(c, i))]), FOne, RA)
\* the forward algorithm's evidence is the enumerated normaliser
ForwardIsEvidence == Len(obs) > 0 =>
    \A c \in {Case} : FRelClose(FSumSeq(FwdAll(c)[c.T]), Evidence(c), RA)
\* soft-float sanity on exactly representable numbers
ASSUME FloatSanity == /\ FMul(FRat(3, 8), FRat(1, 2)) = FRat(3, 16)
               /\ FAdd(FRat(3, 8), FRat(1, 8)) = FRat(1, 2)
               /\ FFix14(FRat(3, 8)) = 6144
               /\ FAbsDiff(FRat(1, 2), FRat(3, 8)) = FRat(1, 8)

---------------------------------------------------------------------------
\* Role D.  Logged case (harness/eng_hmm.py): n cfg N T pi A B obs
\*   post_st post      exp(estimate_logpdf(z)) for every z in lexicographic order, soft floats
\*   data_st data      exp(data_logpdf)
\*   rw_st rw          draws <<zidx, weight, estimate_logpdf(z)>> of random_weighted (fixed point 1/256 nat)
\*   rwc_st rw_counts ns     per-cell counts of ns random_weighted samples
\*   ffbs_st ffbs_counts     per-cell counts of ns forward_filtering_backward_sampling samples
\* *_st is "ok", "raised:<Exc>" or "skipped".
Log == JsonDeserialize(IOEnv.TRACE_FILE)

F(p) == [m |-> p[1], e |-> p[2]]
ToCase(r) == [N |-> r.N, T |-> r.T, pi |-> [i \in 1..r.N |-> F(r.pi[i])],
              A |-> [i \in 1..r.N |-> [j \in 1..r.N |-> F(r.A[i][j])]],
              B |-> [i \in 1..r.N |-> [j \in 1..r.N |-> F(r.B[i][j])]], obs |-> r.obs]

RD == 50     \* C37.post / C37.data: relative tolerance 2 %
Abs(x) == IF x < 0 THEN -x ELSE x
\* Hoeffding: P(|count/ns - p| >= b/ns) <= 2 exp(-2 b^2 / ns); union over M cells at delta = 1e-12:
\* 2 b^2 >= ns * ln(2 M / delta).  LnTerm(M) >= ln(2 M * 1e12), precomputed ceilings.
LnTerm(M) == IF M <= 27 THEN 32 ELSE IF M <= 81 THEN 33 ELSE IF M <= 256 THEN 34 ELSE 36
HBound(ns, M) == CHOOSE b \in 0..ns : 2 * b * b >= ns * LnTerm(M) /\ (b = 0 \/ 2 * (b - 1) * (b - 1) < ns * LnTerm(M))
\* counts against probabilities in units of 2^-14; the soft-float posterior carries a relative error <= ~2^-10,
\* FFix14 truncates: 32 units (0.002) of slack
FreqBad(counts, ns, p, M) == \E hb \in {HBound(ns, M)} :
    \E i \in 1..M : Abs(counts[i] * LO - ns * FFix14(p[i])) > hb * LO + 32 * ns

Raised(st) == st # "ok" /\ st # "skipped"
VerdictsOf(r, c, p) ==
  LET M == Len(p)
      ev == Evidence(c)
  IN  (IF Raised(r.post_st) THEN {"C37.run.estimate_logpdf"} ELSE {})
 \cup (IF Raised(r.data_st) THEN {"C37.run.data_logpdf"} ELSE {})
 \cup (IF Raised(r.rw_st) \/ Raised(r.rwc_st) THEN {"C37.run.random_weighted"} ELSE {})
 \cup (IF Raised(r.ffbs_st) THEN {"C37.run.ffbs"} ELSE {})
 \cup (IF r.post_st = "ok" /\ \E i \in 1..M : ~FRelClose(F(r.post[i]), p[i], RD) THEN {"C37.post"} ELSE {})
 \cup (IF r.data_st = "ok" /\ ~FRelClose(F(r.data), ev, RD) THEN {"C37.data"} ELSE {})
 \cup (IF r.rw_st = "ok" /\ \E k \in 1..Len(r.rw) : Abs(r.rw[k][2] - r.rw[k][3]) > 2 THEN {"C37.rw"} ELSE {})
 \cup (IF r.rwc_st = "ok" /\ FreqBad(r.rw_counts, r.ns, p, M) THEN {"C37.freq.random_weighted"} ELSE {})
 \cup (IF r.ffbs_st = "ok" /\ FreqBad(r.ffbs_counts, r.ns, p, M) THEN {"C37.freq.ffbs"} ELSE {})
Verdicts(r) == Bind({ Bind({ VerdictsOf(r, c, p) : p \in {PostAll(c)} }) : c \in {ToCase(r)} })

TraceInit == tab = 1 /\ obs = <<>> /\ ti = 0 /\ tfails = 0
TraceNext ==
  \/ /\ ti < Len(Log)
     /\ LET r == Log[ti + 1] vs == Verdicts(r)
        IN  /\ \A cl \in vs : PrintT(<<"VERDICT", ToJson([n |-> r.n, clause |-> cl])>>)
            /\ tfails' = tfails + Cardinality(vs)
     /\ ti' = ti + 1
     /\ UNCHANGED <<tab, obs>>
  \/ /\ ti = Len(Log)
     /\ PrintT(<<"SUMMARY", ToJson([cases |-> ti, failing |-> tfails])>>)
     /\ ti' = ti + 1
     /\ UNCHANGED <<tab, obs, tfails>>
TraceSpec == TraceInit /\ [][TraceNext]_vars
Done == ti <= Len(Log) + 1
=============================================================================
