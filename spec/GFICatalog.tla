----------------------------- MODULE GFICatalog -----------------------------
(* The bounded catalogue of generative functions the GFI checks quantify    *)
(* over.  Each entry: [id, p (program term), as (argument samples), g (tags  *)
(* used by the per-property profiles)].                                      *)
EXTENDS GFI

X == <<"x">>  Y == <<"y">>  Z == <<"z">>  U == <<"u">>  VW == <<"v", "w">>

\* unary static programs  a -> value
SOne   == Static(<<Site(X, Dist(0), <<Arg(1)>>)>>, SiteR(1))
SOneB  == Static(<<Site(X, Dist(1), <<Arg(1)>>)>>, Add(SiteR(1), Cst(1)))
SChain == Static(<<Site(X, Dist(0), <<Arg(1)>>), Site(Y, Dist(1), <<SiteR(1)>>)>>, Add(SiteR(1), SiteR(2)))
SIndep == Static(<<Site(X, Dist(0), <<Arg(1)>>), Site(Y, Dist(1), <<Arg(1)>>)>>, Tup(<<SiteR(1), SiteR(2)>>))
SNest  == Static(<<Site(U, SChain, <<Arg(1)>>), Site(VW, Dist(2), <<SiteR(1)>>)>>, Tup(<<SiteR(1), SiteR(2)>>))
SLit   == Static(<<Site(X, Dist(0), <<Arg(1)>>)>>, Tup(<<SiteR(1), Lit(1)>>))
SDup   == Static(<<Site(X, Dist(0), <<Arg(1)>>), Site(X, Dist(1), <<Arg(1)>>)>>, SiteR(2))
SYZ    == Static(<<Site(Y, Dist(1), <<Arg(1)>>), Site(Z, Dist(2), <<SiteR(1)>>)>>, SiteR(2))
\* binary
S2     == Static(<<Site(X, Dist(0), <<Arg(1)>>), Site(Y, Dist(1), <<Add(SiteR(1), Arg(2))>>)>>, Add(SiteR(2), Arg(2)))
\* scan kernels (carry, x) -> (carry', y)
K1 == Static(<<Site(X, Dist(0), <<Arg(1)>>)>>, Tup(<<SiteR(1), SiteR(1)>>))
K2 == Static(<<Site(X, Dist(0), <<Arg(1)>>), Site(Y, Dist(1), <<Add(SiteR(1), Arg(2))>>)>>, Tup(<<Add(Arg(1), SiteR(1)), SiteR(2)>>))
K3 == Static(<<Site(X, Dist(0), <<Arg(2)>>)>>, Tup(<<Arg(1), SiteR(1)>>))
\* accumulate / reduce kernels (acc, x) -> acc ; iterate steps x -> x
A1  == Static(<<Site(X, Dist(0), <<Add(Arg(1), Arg(2))>>)>>, Add(SiteR(1), Arg(1)))
St1 == Static(<<Site(X, Dist(0), <<Arg(1)>>)>>, Add(SiteR(1), Cst(1)))
StD == Static(<<Site(X, Dist(0), <<Arg(1)>>)>>, Add(Arg(1), Cst(1)))      \* deterministic non-identity step
\* switch
SwXY   == Switch(<<SOne, SYZ>>)
SwSame == Switch(<<SOne, SOneB>>)
Sw3    == Switch(<<SOne, SYZ, SChain>>)
KSw == Static(<<Site(U, SwSame, <<Arg(2), Tup(<<Arg(1)>>), Tup(<<Arg(1)>>)>>)>>, Tup(<<Arg(1), SiteR(1)>>))  \* kernel containing a switch
SSw == Static(<<Site(X, Dist(0), <<Arg(1)>>), Site(U, SwXY, <<SiteR(1), Tup(<<Arg(1)>>), Tup(<<Arg(1)>>)>>)>>, SiteR(2))
SVm == Static(<<Site(X, Dist(0), <<Arg(1)>>), Site(U, Repeat(SOneB, 2), <<SiteR(1)>>)>>, SiteR(1))
\* programs over DYADIC categorical distributions (for the sampling property C04)
LR(t, e) == Ex("lrow", t, <<e>>)
COne   == Static(<<Site(X, Cat, <<LR(1, Arg(1))>>)>>, SiteR(1))
COneB  == Static(<<Site(X, Cat, <<LR(2, Arg(1))>>)>>, SiteR(1))
CChain == Static(<<Site(X, Cat, <<LR(1, Arg(1))>>), Site(Y, Cat, <<LR(2, SiteR(1))>>)>>, Tup(<<SiteR(1), SiteR(2)>>))
CIndep == Static(<<Site(X, Cat, <<LR(1, Arg(1))>>), Site(Y, Cat, <<LR(1, Arg(1))>>)>>, Tup(<<SiteR(1), SiteR(2)>>))
CNest  == Static(<<Site(U, CIndep, <<Arg(1)>>), Site(Z, Cat, <<LR(1, Ix(SiteR(1), 2))>>)>>, SiteR(2))
CYZ    == Static(<<Site(Y, Cat, <<LR(2, Arg(1))>>), Site(Z, Cat, <<LR(1, SiteR(1))>>)>>, SiteR(2))
CK     == Static(<<Site(X, Cat, <<LR(1, Arg(1))>>)>>, Tup(<<SiteR(1), SiteR(1)>>))
CKI    == Static(<<Site(X, Cat, <<LR(1, Cst(0))>>)>>, Tup(<<Arg(1), SiteR(1)>>))       \* iterations independent of the carry
\* argument samples
A(a) == <<I(a)>>
V3(a, b, c) == Vc(<<I(a), I(b), I(c)>>)
V2(a, b) == Vc(<<I(a), I(b)>>)
SwArgs(i, a, b) == <<I(i), Tp(<<I(a)>>), Tp(<<I(b)>>)>>
Half == Vc(<<I(-1), I(-2), I(-2)>>)         \* log2 probabilities (1/2, 1/4, 1/4)
Quart == Vc(<<I(-2), I(-1), I(-2)>>)

E(id, p, as, g) == [id |-> id, p |-> p, as |-> as, g |-> g]
CatIds == <<"CChain", "CIndep", "CNest", "CVm", "CRep", "CSc", "CScI", "CSw", "CMsk", "CMix", "CDm", "D0", "SOne", "SChain", "SIndep", "SNest", "SLit", "S2", "SDup", "VmD", "VmS", "VmAx", "VmAx2", "VmNest", "VmMask", "Rep", "Rep3", "Sc1", "Sc2", "Sc3", "ScSw", "SwXY", "SwSame", "Sw3", "SSw", "SVm", "Msk", "MskD", "Dm", "Dm2", "DmMap", "DmCon", "DmSc", "OrE", "MixE", "Acc", "Red", "It", "ItF", "MIt", "MItF", "MItF1", "Clo1", "Clo2", "Clo0">>
\* one CASE arm per entry, so that looking one program up does not construct the others
Entry(id) ==
  CASE id = "CChain" -> E("CChain", CChain, <<A(0), A(1)>>, {"cat"})
    [] id = "CIndep" -> E("CIndep", CIndep, <<A(0), A(2)>>, {"cat"})
    [] id = "CNest"  -> E("CNest",  CNest,  <<A(1)>>, {"cat"})
    [] id = "CVm"    -> E("CVm",    Vmap(COne, 3, <<1>>), <<<<V3(0,0,1)>>>>, {"cat"})
    [] id = "CRep"   -> E("CRep",   Repeat(COne, 3), <<A(0)>>, {"cat"})
    [] id = "CSc"    -> E("CSc",    Scan(CK, 3), <<<<I(0), Nn>>>>, {"cat"})
    [] id = "CScI"   -> E("CScI",   Scan(CKI, 3), <<<<I(0), Nn>>>>, {"cat"})
    [] id = "CSw"    -> E("CSw",    Switch(<<COne, CYZ>>), <<SwArgs(0,1,2), SwArgs(1,1,2)>>, {"cat"})
    [] id = "CMsk"   -> E("CMsk",   Mask(CIndep), <<<<Bv(TRUE), I(0)>>, <<Bv(FALSE), I(0)>>>>, {"cat"})
    [] id = "CMix"   -> E("CMix",   Mix(<<COne, COneB, CYZ>>), <<<<Half, Tp(A(0)), Tp(A(0)), Tp(A(1))>>>>, {"cat"})
    [] id = "CDm"    -> E("CDm",    Dimap(CIndep, <<Add(Arg(1), Cst(1))>>, SiteR(1)), <<A(0)>>, {"cat"})
    [] id = "D0" -> E("D0",     Dist(0), <<A(0), A(2)>>, {"core", "dist"})
    [] id = "SOne" -> E("SOne",   SOne,    <<A(0), A(1)>>, {"core", "static"})
    [] id = "SChain" -> E("SChain", SChain,  <<A(0), A(1), A(2)>>, {"core", "static"})
    [] id = "SIndep" -> E("SIndep", SIndep,  <<A(1), A(2)>>, {"static"})
    [] id = "SNest" -> E("SNest",  SNest,   <<A(0), A(2)>>, {"core", "static", "tuple"})
    [] id = "SLit" -> E("SLit",   SLit,    <<A(0), A(1)>>, {"static", "lit"})
    [] id = "S2" -> E("S2",     S2,      <<<<I(0), I(1)>>, <<I(2), I(1)>>, <<I(2), I(0)>>>>, {"core", "static"})
    [] id = "SDup" -> E("SDup",   SDup,    <<A(0)>>, {"dup"})
    [] id = "VmD" -> E("VmD",    Vmap(Dist(0), 3, <<1>>), <<<<V3(0,1,2)>>, <<V3(2,2,0)>>>>, {"core", "vmap"})
    [] id = "VmS" -> E("VmS",    Vmap(SChain, 2, <<1>>), <<<<V2(0,1)>>, <<V2(2,1)>>>>, {"core", "vmap"})
    [] id = "VmAx" -> E("VmAx",   Vmap(S2, 2, <<1, 0>>), <<<<V2(0,1), I(1)>>, <<V2(0,1), I(2)>>>>, {"vmap"})
    [] id = "VmAx2" -> E("VmAx2",  Vmap(S2, 2, <<0, 1>>), <<<<I(1), V2(0,2)>>>>, {"vmap"})
    [] id = "VmNest" -> E("VmNest", Vmap(SNest, 2, <<1>>), <<<<V2(1,2)>>>>, {"vmap", "tuple"})
    [] id = "VmMask" -> E("VmMask", Vmap(Mask(SOne), 3, <<1, 1>>), <<<<Vc(<<Bv(TRUE), Bv(FALSE), Bv(TRUE)>>), V3(0,1,2)>>>>, {"vmap", "mask"})
    [] id = "Rep" -> E("Rep",    Repeat(SChain, 2), <<A(0), A(2)>>, {"core", "vmap", "repeat"})
    [] id = "Rep3" -> E("Rep3",   Repeat(Dist(1), 3), <<A(1)>>, {"vmap", "repeat"})
    [] id = "Sc1" -> E("Sc1",    Scan(K1, 3), <<<<I(0), Nn>>, <<I(2), Nn>>>>, {"core", "scan"})
    [] id = "Sc2" -> E("Sc2",    Scan(K2, 2), <<<<I(0), V2(1,2)>>, <<I(1), V2(0,0)>>>>, {"core", "scan"})
    [] id = "Sc3" -> E("Sc3",    Scan(K3, 3), <<<<I(1), V3(0,1,2)>>>>, {"scan"})
    [] id = "ScSw" -> E("ScSw",   Scan(KSw, 2), <<<<I(1), V2(0,1)>>>>, {"scan", "switch", "scansw"})
    [] id = "SwXY" -> E("SwXY",   SwXY,    <<SwArgs(0,1,2), SwArgs(1,1,2), SwArgs(0,2,2)>>, {"core", "switch"})
    [] id = "SwSame" -> E("SwSame", SwSame,  <<SwArgs(0,0,1), SwArgs(1,0,1)>>, {"core", "switch"})
    [] id = "Sw3" -> E("Sw3",    Sw3,     <<<<I(2), Tp(A(0)), Tp(A(1)), Tp(A(2))>>, <<I(1), Tp(A(0)), Tp(A(1)), Tp(A(2))>>>>, {"switch"})
    [] id = "SSw" -> E("SSw",    SSw,     <<A(0), A(1)>>, {"switch", "static"})
    [] id = "SVm" -> E("SVm",    SVm,     <<A(0), A(1)>>, {"static", "vmap"})
    [] id = "Msk" -> E("Msk",    Mask(SChain), <<<<Bv(TRUE), I(0)>>, <<Bv(FALSE), I(0)>>, <<Bv(TRUE), I(2)>>>>, {"core", "mask"})
    [] id = "MskD" -> E("MskD",   Mask(Dist(1)), <<<<Bv(TRUE), I(1)>>, <<Bv(FALSE), I(1)>>>>, {"mask"})
    [] id = "Dm" -> E("Dm",     Dimap(SChain, <<Add(Arg(1), Cst(1))>>, Add(SiteR(1), Arg(1))), <<A(0), A(1)>>, {"core", "dimap"})
    [] id = "Dm2" -> E("Dm2",    Dimap(S2, <<Arg(2), Arg(1)>>, Tup(<<SiteR(1), XArg(1), Arg(1)>>)), <<<<I(0), I(1)>>, <<I(2), I(1)>>>>, {"dimap"})
    [] id = "DmMap" -> E("DmMap",  Pg("dimap", 1, <<SChain>>, <<>>, Add(SiteR(1), Cst(2)), <<Arg(1)>>), <<A(0), A(2)>>, {"dimap"})
    [] id = "DmCon" -> E("DmCon",  Pg("dimap", 2, <<SChain>>, <<>>, SiteR(1), <<Add(Arg(1), Cst(2))>>), <<A(0), A(1)>>, {"dimap"})
    [] id = "DmSc" -> E("DmSc",   Dimap(Scan(K1, 2), <<Arg(1), NoE>>, Ix(SiteR(1), 1)), <<A(0), A(1)>>, {"dimap", "scan"})
    [] id = "OrE" -> E("OrE",    OrElse(SOne, SYZ), <<<<Bv(TRUE), Tp(A(0)), Tp(A(1))>>, <<Bv(FALSE), Tp(A(0)), Tp(A(1))>>>>, {"switch", "orelse"})
    [] id = "MixE" -> E("MixE",   Mix(<<SOne, SYZ, SOneB>>), <<<<Half, Tp(A(0)), Tp(A(1)), Tp(A(2))>>, <<Quart, Tp(A(2)), Tp(A(1)), Tp(A(0))>>>>, {"switch", "mix"})
    [] id = "Acc" -> E("Acc",    Accumulate(A1, 2), <<<<I(0), V2(1,2)>>, <<I(1), V2(0,1)>>>>, {"scan", "derived"})
    [] id = "Red" -> E("Red",    Reduce(A1, 2), <<<<I(0), V2(1,2)>>>>, {"scan", "derived"})
    [] id = "It" -> E("It",     Iterate(St1, 2), <<A(0), A(1)>>, {"scan", "derived"})
    [] id = "ItF" -> E("ItF",    IterateFinal(St1, 3), <<A(0)>>, {"scan", "derived"})
    [] id = "MIt" -> E("MIt",    MaskedIterate(St1, 3), <<<<I(0), Vc(<<Bv(TRUE), Bv(TRUE), Bv(FALSE)>>)>>, <<I(1), Vc(<<Bv(TRUE), Bv(TRUE), Bv(TRUE)>>)>>, <<I(2), Vc(<<Bv(TRUE), Bv(FALSE), Bv(FALSE)>>)>>>>, {"mit"})
    [] id = "MItF" -> E("MItF",   MaskedIterateFinal(StD, 3), <<<<I(0), Vc(<<Bv(TRUE), Bv(FALSE), Bv(TRUE)>>)>>, <<I(0), Vc(<<Bv(FALSE), Bv(FALSE), Bv(FALSE)>>)>>, <<I(1), Vc(<<Bv(TRUE), Bv(TRUE), Bv(TRUE)>>)>>>>, {"mit"})
    [] id = "MItF1" -> E("MItF1",  MaskedIterateFinal(St1, 2), <<<<I(0), Vc(<<Bv(FALSE), Bv(TRUE)>>)>>>>, {"mit"})
    [] id = "Clo1" -> E("Clo1",   Closure(S2, <<I(1)>>), <<A(0), A(1)>>, {"closure"})
    [] id = "Clo2" -> E("Clo2",   Closure(S2, <<I(2), I(1)>>), << <<>> >>, {"closure"})
    [] id = "Clo0" -> E("Clo0",   Closure(SChain, <<>>), <<A(0), A(2)>>, {"closure"})
Catalog == [j \in 1..Len(CatIds) |-> Entry(CatIds[j])]
=============================================================================
