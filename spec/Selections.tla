----------------------------- MODULE Selections -----------------------------
(***************************************************************************)
(* Selections of GenJAX (genjax/_src/core/generative/choice_map.py).       *)
(*                                                                         *)
(* A selection term is a record [t, p, k]: constructor tag, a path (for    *)
(* at/lf) and a sequence of children.  Two INDEPENDENT meanings are given: *)
(*   Den(s)   -- the set of static addresses selected, by set algebra;     *)
(*   Mem(s,a) -- the derivative-style definition the implementation has    *)
(*               (check / get_subselection, with the smart constructors    *)
(*               OrSel.build, AndSel.build, ComplementSel.build,           *)
(*               StaticSel.build transcribed below).                      *)
(* TLC checks that they agree on every term it enumerates (role A) and     *)
(* prints each term with Den as a bit string (role B) for replay on the    *)
(* real Selection classes.                                                 *)
(***************************************************************************)
EXTENDS Naturals, Sequences, FiniteSets, TLC, Json, Rand

CONSTANTS MaxDepth,      \* depth of terms enumerated by Next / built by the random generator
          Seed, NChains, NPerChain,   \* random generation (SpecRand): NChains streams of NPerChain terms
          Emit           \* TRUE: print every term (role B)

Alpha == <<"a", "b", "c">>
AlphaSet == {Alpha[i] : i \in 1..Len(Alpha)}

\* Addresses, in a FIXED order so that the bit string is meaningful to the driver.
A0 == << <<>> >>
A1 == [i \in 1..3 |-> <<Alpha[i]>>]
A2 == [i \in 1..9 |-> <<Alpha[((i-1) \div 3) + 1], Alpha[((i-1) % 3) + 1]>>]
A3 == [i \in 1..27 |-> <<Alpha[((i-1) \div 9) + 1], Alpha[(((i-1) \div 3) % 3) + 1], Alpha[((i-1) % 3) + 1]>>]
AddrSeq == A0 \o A1 \o A2 \o A3
Addr == {AddrSeq[i] : i \in 1..Len(AddrSeq)}

T(t, p, k) == [t |-> t, p |-> p, k |-> k]
All  == T("all", <<>>, <<>>)
None == T("none", <<>>, <<>>)
Leaf == T("leaf", <<>>, <<>>)
At(p) == T("at", p, <<>>)        \* Selection.at[p]          = all.extend(*p)
Lf(p) == T("lf", p, <<>>)        \* Selection.leaf().extend(*p)
Or(l, r)  == T("or", <<>>, <<l, r>>)
And(l, r) == T("and", <<>>, <<l, r>>)
Not(s)    == T("not", <<>>, <<s>>)

AtPaths == { <<"a">>, <<"b">>, <<"a","b">>, <<"*","b">>, <<"a","*">>, <<"c","a","b">> }
LfPaths == { <<"a">>, <<"a","b">>, <<"*">> }
Atoms == {All, None, Leaf} \cup {At(p) : p \in AtPaths} \cup {Lf(p) : p \in LfPaths}

---------------------------------------------------------------------------
\* Denotation by set algebra.  "*" is the ... wildcard: exactly one component.
PrefixMatch(p, a) == Len(a) >= Len(p) /\ \A i \in 1..Len(p) : p[i] = "*" \/ p[i] = a[i]
ExactMatch(p, a)  == Len(a) = Len(p) /\ \A i \in 1..Len(p) : p[i] = "*" \/ p[i] = a[i]

RECURSIVE Den(_)
Den(s) == CASE s.t = "all"  -> Addr
            [] s.t = "none" -> {}
            [] s.t = "leaf" -> {<<>>}
            [] s.t = "at"   -> {a \in Addr : PrefixMatch(s.p, a)}
            [] s.t = "lf"   -> {a \in Addr : ExactMatch(s.p, a)}
            [] s.t = "or"   -> Den(s.k[1]) \cup Den(s.k[2])
            [] s.t = "and"  -> Den(s.k[1]) \cap Den(s.k[2])
            [] s.t = "not"  -> Addr \ Den(s.k[1])

DenBits(s) == LET d == Den(s) IN [i \in 1..Len(AddrSeq) |-> IF AddrSeq[i] \in d THEN 1 ELSE 0]

---------------------------------------------------------------------------
\* Derivative-style semantics with the smart constructors (shape of the code).
\* Normal-form terms: all none leaf st(addr, s) or and not  (st = StaticSel).
St(a, s) == T("st", <<a>>, <<s>>)
BuildSt(s, a)  == IF s.t = "none" THEN s ELSE St(a, s)
BuildNot(s)    == CASE s.t = "all" -> None [] s.t = "none" -> All [] s.t = "not" -> s.k[1] [] OTHER -> Not(s)
BuildAnd(a, b) == CASE a.t = "all" -> b [] b.t = "all" -> a [] a.t = "none" -> a [] b.t = "none" -> b
                    [] a = b -> a [] OTHER -> And(a, b)
BuildOr(a, b)  == CASE a.t = "all" -> a [] b.t = "all" -> b [] a.t = "none" -> b [] b.t = "none" -> a
                    [] a = b -> a [] OTHER -> Or(a, b)

RECURSIVE ExtendPath(_, _)
ExtendPath(s, p) == IF p = <<>> THEN s ELSE BuildSt(ExtendPath(s, Tail(p)), Head(p))

\* Simp: what the public constructors build for a surface term.
RECURSIVE Simp(_)
Simp(s) == CASE s.t \in {"all", "none", "leaf"} -> s
             [] s.t = "at"  -> ExtendPath(All, s.p)
             [] s.t = "lf"  -> ExtendPath(Leaf, s.p)
             [] s.t = "or"  -> BuildOr(Simp(s.k[1]), Simp(s.k[2]))
             [] s.t = "and" -> BuildAnd(Simp(s.k[1]), Simp(s.k[2]))
             [] s.t = "not" -> BuildNot(Simp(s.k[1]))

\* Raw: the same surface term built with the raw dataclasses (no simplification).
RECURSIVE RawPath(_, _)
RawPath(s, p) == IF p = <<>> THEN s ELSE St(Head(p), RawPath(s, Tail(p)))
RECURSIVE Raw(_)
Raw(s) == CASE s.t \in {"all", "none", "leaf"} -> s
            [] s.t = "at"  -> RawPath(All, s.p)
            [] s.t = "lf"  -> RawPath(Leaf, s.p)
            [] s.t = "or"  -> Or(Raw(s.k[1]), Raw(s.k[2]))
            [] s.t = "and" -> And(Raw(s.k[1]), Raw(s.k[2]))
            [] s.t = "not" -> Not(Raw(s.k[1]))

RECURSIVE Chk(_), SubSel(_, _)
Chk(n) == CASE n.t = "all" -> TRUE [] n.t = "none" -> FALSE [] n.t = "leaf" -> TRUE
            [] n.t = "st"  -> FALSE
            [] n.t = "or"  -> Chk(n.k[1]) \/ Chk(n.k[2])
            [] n.t = "and" -> Chk(n.k[1]) /\ Chk(n.k[2])
            [] n.t = "not" -> ~Chk(n.k[1])
SubSel(n, c) == CASE n.t = "all" -> n [] n.t = "none" -> n [] n.t = "leaf" -> None
                  [] n.t = "st"  -> IF n.p[1] = "*" \/ n.p[1] = c THEN n.k[1] ELSE None
                  [] n.t = "or"  -> BuildOr(SubSel(n.k[1], c), SubSel(n.k[2], c))
                  [] n.t = "and" -> BuildAnd(SubSel(n.k[1], c), SubSel(n.k[2], c))
                  [] n.t = "not" -> BuildNot(SubSel(n.k[1], c))
RECURSIVE SubPath(_, _)
SubPath(n, a) == IF a = <<>> THEN n ELSE SubPath(SubSel(n, Head(a)), Tail(a))
Mem(n, a) == Chk(SubPath(n, a))

---------------------------------------------------------------------------
VARIABLES term, depth, r

AtomSeq == << All, None, Leaf, At(<<"a">>), At(<<"b">>), At(<<"a","b">>), At(<<"*","b">>), At(<<"a","*">>),
              At(<<"c","a","b">>), Lf(<<"a">>), Lf(<<"a","b">>), Lf(<<"*">>) >>

Init == term \in Atoms /\ depth = 0 /\ r = 0

Next == /\ depth < MaxDepth
        /\ depth' = depth + 1
        /\ r' = r
        /\ \/ term' = Not(term)
           \/ \E x \in Atoms : term' \in {Or(term, x), Or(x, term), And(term, x), And(x, term)}

Spec == Init /\ [][Next]_<<term, depth, r>>

\* Random terms of depth <= MaxDepth from the explicit stream r: returns [v, r].
RECURSIVE GenTerm(_, _)
GenTerm(rr, d) ==
  IF d = 0 \/ RPick(rr, 5) = 0
  THEN [v |-> AtomSeq[RPick(RNext(rr), Len(AtomSeq)) + 1], r |-> RNext(RNext(rr))]
  ELSE LET c == RPick(RNext(rr), 5) IN
       IF c = 0
       THEN LET x == GenTerm(RNext(RNext(rr)), d - 1) IN [v |-> Not(x.v), r |-> x.r]
       ELSE LET x == GenTerm(RNext(RNext(rr)), d - 1)
                y == GenTerm(x.r, d - 1)
            IN  [v |-> IF c \in {1, 2} THEN Or(x.v, y.v) ELSE And(x.v, y.v), r |-> y.r]

InitRand == \E i \in 1..NChains : LET g == GenTerm(RSeed(Seed, i), MaxDepth) IN term = g.v /\ r = g.r /\ depth = 0
NextRand == /\ depth < NPerChain
            /\ LET g == GenTerm(r, MaxDepth) IN term' = g.v /\ r' = g.r
            /\ depth' = depth + 1
SpecRand == InitRand /\ [][NextRand]_<<term, depth, r>>

\* Role A: the two semantics agree; sub-selection commutes; simplification is sound.
MemIsDen  == \A a \in Addr : Mem(Simp(term), a) <=> a \in Den(term)
RawIsDen  == \A a \in Addr : Mem(Raw(term), a) <=> a \in Den(term)
SubLaw    == \A a \in Addr : \A i \in 0..Len(a) :
                 Mem(SubPath(Simp(term), SubSeq(a, 1, i)), SubSeq(a, i+1, Len(a))) <=> a \in Den(term)
Boolean   == /\ term.t = "or"  => Den(term) = Den(term.k[1]) \cup Den(term.k[2])
             /\ term.t = "and" => Den(term) = Den(term.k[1]) \cap Den(term.k[2])
             /\ term.t = "not" => Den(term) = Addr \ Den(term.k[1])

\* Role B: print the case.
EmitCase == Emit => PrintT(<<"CASE", ToJson([term |-> term, den |-> DenBits(term), depth |-> depth])>>)
=============================================================================
