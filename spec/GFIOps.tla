-------------------------------- MODULE GFIOps --------------------------------
(***************************************************************************)
(* OPERATIONAL model of update, shaped like the implementation: one rule   *)
(* per edit method (Distribution.edit_update_with_constraint, the static   *)
(* UpdateHandler threading change tags, Vmap / Scan element loops,         *)
(* MaskCombinator.edit with its four                                       *)
(* flag transitions over a HIDDEN inner trace, Switch.edit with its        *)
(* same-index / changed-index paths, as repaired in this round).  Internal *)
(* traces are trees that also hold what the user cannot see (the inner     *)
(* trace of a masked-off call, the placeholder traces of the branches that *)
(* did not run).  TLC checks that the operational rules REFINE the laws of *)
(* GFILaws on every reachable trace and request (role A):                  *)
(*   Consistent   - the visible part of every internal trace is the        *)
(*                  execution its choices describe (Exec);                 *)
(*   RefinesLaws  - every update outcome satisfies LawUpdConstrained,      *)
(*                  LawUpdKept, LawUpdWeight, LawUpdDiscard;               *)
(*   RegenRefines - every regenerate outcome satisfies LawRegenUnselected, *)
(*                  LawRegenWeight, LawRegenEmpty; selected choices are   *)
(*                  redrawn; the discard holds their old values;           *)
(*   UndoRestores - applying the returned discard with the original        *)
(*                  arguments gives back the visible trace and -weight.    *)
(* (Masking the discard with the flag AFTER the edit, or returning branch  *)
(* 0's discard from Switch.edit -- the two defects repaired in /repo --    *)
(* make UndoRestores fail here: see MaskBwdAfter / SwitchBwdZero below.)   *)
(***************************************************************************)
EXTENDS GFILaws

CONSTANTS OpsProgs,        \* catalogue ids (programs over dist / static / mask / switch)
          PV,              \* values a sampler may pick
          MaskBwdAfter,    \* TRUE: (defect) mask discard masked with the flag after the edit
          SwitchBwdZero,   \* TRUE: (defect) switch returns branch 1's discard
          ScanRetagsAll    \* TRUE: (as implemented, finding KF-C05-2) Scan.edit_update tags every kernel argument UnknownChange;
                           \* FALSE: the carry's tag is the previous step's return tag, the scanned input keeps its own tag

\* internal trace
IT(k, args, val, score, ret, subs, flag) == [k |-> k, args |-> args, val |-> val, score |-> score, ret |-> ret, subs |-> subs, flag |-> flag]

RECURSIVE Vis(_, _)
\* visible choices of an internal trace of program p
Vis(p, it) ==
  CASE p.k = "dist"   -> (<<>> :> it.val)
    [] p.k = "static" -> LET f[j \in 0..Len(p.sites)] == IF j = 0 THEN EmptyF ELSE f[j - 1] @@ PrefixMap(p.sites[j].addr, Vis(p.sites[j].callee, it.subs[j]))
                         IN  f[Len(p.sites)]
    [] p.k = "mask"   -> IF it.flag = 1 THEN Vis(p.subs[1], it.subs[1]) ELSE EmptyF
    [] p.k = "switch" -> Vis(p.subs[it.flag], it.subs[it.flag])        \* flag holds the (1-based, clamped) selected branch
    [] p.k \in {"vmap", "repeat"} ->
                         LET f[i \in 0..p.n] == IF i = 0 THEN EmptyF ELSE f[i - 1] @@ PrefixMap(<<IdxStr(i - 1)>>, Vis(p.subs[1], it.subs[i]))
                         IN  f[p.n]
    [] p.k = "scan" ->
                         LET f[i \in 0..p.n] == IF i = 0 THEN EmptyF ELSE f[i - 1] @@ PrefixMap(<<IdxStr(i - 1)>>, Vis(p.subs[1], it.subs[i]))
                         IN  f[p.n]
AbsT(p, it) == [args |-> it.args, choices |-> Vis(p, it), score |-> it.score, ret |-> it.ret]

ElemArgs(p, args, i) == IF p.k = "repeat" THEN args
                        ELSE [j \in 1..Len(args) |-> CASE p.x[j] = 1 -> Unstack(args[j], i)
                                                         [] p.x[j] = 2 -> Vc([r \in 1..Len(args[j].k) |-> args[j].k[r].k[i]])
                                                         [] OTHER -> args[j]]

RECURSIVE OSim(_, _, _)
\* simulate with the sampler pick : Path -> value (total over the program's addresses, hidden ones included)
OSim(p, args, pick) ==
  CASE p.k = "dist" -> IT("dist", args, pick[<<>>], LP(p.n, args[1].i, pick[<<>>]), I(pick[<<>>]), <<>>, 0)
    [] p.k = "static" ->
         LET st[j \in 0..Len(p.sites)] ==
               IF j = 0 THEN [env |-> <<>>, subs |-> <<>>, score |-> 0]
               ELSE LET s == p.sites[j]
                        a == [i \in 1..Len(s.args) |-> EvalE(s.args[i], args, <<>>, st[j - 1].env)]
                        r == OSim(s.callee, a, SubMap(s.addr, pick))
                    IN  [env |-> Append(st[j - 1].env, r.ret), subs |-> Append(st[j - 1].subs, r), score |-> st[j - 1].score + r.score]
             fin == st[Len(p.sites)]
         IN  IT("static", args, 0, fin.score, EvalE(p.ret, args, <<>>, fin.env), fin.subs, 0)
    [] p.k = "mask" ->
         LET r == OSim(p.subs[1], Tail(args), pick) IN           \* the inner function runs even when masked off
         IT("mask", args, 0, IF IsT(args[1]) THEN r.score ELSE 0,
            IF IsT(args[1]) THEN Mk(Bv(TRUE), r.ret) ELSE Mk(Bv(FALSE), ZeroLike(r.ret)), <<r>>, args[1].i)
    [] p.k = "switch" ->
         LET j  == Clamp(args[1].i, Len(p.subs)) + 1
             rs == [b \in 1..Len(p.subs) |-> OSim(p.subs[b], args[b + 1].k, pick)]     \* placeholders for the others
         IN  IT("switch", args, 0, rs[j].score, rs[j].ret, rs, j)
    [] p.k \in {"vmap", "repeat"} ->                                                      \* n independent element calls
         LET rs == [i \in 1..p.n |-> OSim(p.subs[1], ElemArgs(p, args, i), SubMap(<<IdxStr(i - 1)>>, pick))]
             sc[i \in 0..p.n] == IF i = 0 THEN 0 ELSE sc[i - 1] + rs[i].score
         IN  IT(p.k, args, 0, sc[p.n], Stack([i \in 1..p.n |-> rs[i].ret]), rs, 0)
    [] p.k = "scan" ->                                                                    \* the documented loop, carry threaded
         LET st[i \in 0..p.n] ==
               IF i = 0 THEN [carry |-> args[1], subs |-> <<>>, score |-> 0, outs |-> <<>>]
               ELSE LET q == st[i - 1]
                        x == IF args[2].t = "n" THEN Nn ELSE Unstack(args[2], i)
                        r == OSim(p.subs[1], <<q.carry, x>>, SubMap(<<IdxStr(i - 1)>>, pick))
                    IN  [carry |-> r.ret.k[1], subs |-> Append(q.subs, r), score |-> q.score + r.score, outs |-> Append(q.outs, r.ret.k[2])]
             fin == st[p.n]
         IN  IT("scan", args, 0, fin.score, Tp(<<fin.carry, IF p.n = 0 THEN Vc(<<>>) ELSE Stack(fin.outs)>>), fin.subs, 0)

OR(it, w, disc, rt) == [it |-> it, w |-> w, disc |-> disc, rt |-> rt]

RECURSIVE OUpd(_, _, _, _, _, _)
\* update: targs[j] = argument j tagged UnknownChange; cons : effective constraint; pick : sampler for resampled choices
OUpd(p, it, args2, targs, cons, pick) ==
  CASE p.k = "dist" ->
         IF <<>> \in DOMAIN cons
         THEN LET v == cons[<<>>] fwd == LP(p.n, args2[1].i, v)
              IN  OR(IT("dist", args2, v, fwd, I(v), <<>>, 0), fwd - it.score, (<<>> :> it.val), TRUE)
         ELSE LET fwd == LP(p.n, args2[1].i, it.val)
              IN  OR(IT("dist", args2, it.val, fwd, it.ret, <<>>, 0), fwd - it.score, EmptyF, FALSE)
    [] p.k = "static" ->
         LET st[j \in 0..Len(p.sites)] ==
               IF j = 0 THEN [env |-> <<>>, tenv |-> <<>>, subs |-> <<>>, score |-> 0, w |-> 0, disc |-> EmptyF]
               ELSE LET s  == p.sites[j]
                        q  == st[j - 1]
                        a  == [i \in 1..Len(s.args) |-> EvalE(s.args[i], args2, <<>>, q.env)]
                        ta == [i \in 1..Len(s.args) |-> TaintE(s.args[i], targs, <<>>, q.tenv)]
                        r  == OUpd(s.callee, it.subs[j], a, ta, SubMap(s.addr, cons), SubMap(s.addr, pick))
                    IN  [env |-> Append(q.env, r.it.ret), tenv |-> Append(q.tenv, r.rt), subs |-> Append(q.subs, r.it),
                         score |-> q.score + r.it.score, w |-> q.w + r.w, disc |-> q.disc @@ PrefixMap(s.addr, r.disc)]
             fin == st[Len(p.sites)]
         IN  OR(IT("static", args2, 0, fin.score, EvalE(p.ret, args2, <<>>, fin.env), fin.subs, 0), fin.w, fin.disc,
                TaintE(p.ret, targs, <<>>, fin.tenv))
    [] p.k = "mask" ->
         LET pre  == it.flag = 1
             post == IsT(args2[1])
             r    == OUpd(p.subs[1], it.subs[1], Tail(args2), Tail(targs), cons, pick)      \* always edits the (possibly hidden) inner trace
             w    == CASE pre /\ post -> r.w
                       [] ~pre /\ post -> r.it.score
                       [] pre /\ ~post -> -(it.subs[1].score)
                       [] OTHER -> 0
             disc == IF (IF MaskBwdAfter THEN post ELSE pre) THEN r.disc ELSE EmptyF
         IN  OR(IT("mask", args2, 0, IF post THEN r.it.score ELSE 0,
                   IF post THEN Mk(Bv(TRUE), r.it.ret) ELSE Mk(Bv(FALSE), ZeroLike(r.it.ret)), <<r.it>>, args2[1].i),
                w, disc, TRUE)
    [] p.k = "switch" ->
         LET j == Clamp(args2[1].i, Len(p.subs)) + 1 IN
         IF ~targs[1]
         THEN LET r == OUpd(p.subs[j], it.subs[j], args2[j + 1].k, [i \in 1..Len(args2[j + 1].k) |-> targs[j + 1]], cons, pick)
                  r1 == OUpd(p.subs[1], it.subs[1], args2[2].k, [i \in 1..Len(args2[2].k) |-> targs[2]], cons, pick)
              IN  OR(IT("switch", args2, 0, r.it.score, r.it.ret, [it.subs EXCEPT ![j] = r.it], j), r.w,
                     IF SwitchBwdZero THEN r1.disc ELSE r.disc, TRUE)
         ELSE LET fresh == OSim(p.subs[j], args2[j + 1].k, pick)
                  r == OUpd(p.subs[j], fresh, args2[j + 1].k, [i \in 1..Len(args2[j + 1].k) |-> FALSE], cons, pick)
              IN  OR(IT("switch", args2, 0, r.it.score, r.it.ret, [it.subs EXCEPT ![j] = r.it], j), r.it.score - it.score,
                     Vis(p, it), TRUE)

    [] p.k \in {"vmap", "repeat"} ->       \* Vmap.edit_choice_map: the per-index sub-constraint to element i
         LET rs == [i \in 1..p.n |-> OUpd(p.subs[1], it.subs[i], ElemArgs(p, args2, i), targs,
                                           SubMap(<<IdxStr(i - 1)>>, cons), SubMap(<<IdxStr(i - 1)>>, pick))]
             acc[i \in 0..p.n] == IF i = 0 THEN [w |-> 0, sc |-> 0, disc |-> EmptyF]
                                  ELSE [w |-> acc[i - 1].w + rs[i].w, sc |-> acc[i - 1].sc + rs[i].it.score,
                                        disc |-> acc[i - 1].disc @@ PrefixMap(<<IdxStr(i - 1)>>, rs[i].disc)]
         IN  OR(IT(p.k, args2, 0, acc[p.n].sc, Stack([i \in 1..p.n |-> rs[i].it.ret]), [i \in 1..p.n |-> rs[i].it], 0),
                acc[p.n].w, acc[p.n].disc, TRUE)

    [] p.k = "scan" ->                      \* Scan.edit_update: step i edits sub-trace i with the new carry
         LET st[i \in 0..p.n] ==
               IF i = 0 THEN [carry |-> args2[1], tc |-> targs[1], subs |-> <<>>, score |-> 0, w |-> 0, disc |-> EmptyF, outs |-> <<>>]
               ELSE LET q  == st[i - 1]
                        ip == <<IdxStr(i - 1)>>
                        x  == IF args2[2].t = "n" THEN Nn ELSE Unstack(args2[2], i)
                        ta == IF ScanRetagsAll THEN <<TRUE, TRUE>> ELSE <<q.tc, targs[2]>>
                        r  == OUpd(p.subs[1], it.subs[i], <<q.carry, x>>, ta, SubMap(ip, cons), SubMap(ip, pick))
                    IN  [carry |-> r.it.ret.k[1], tc |-> r.rt, subs |-> Append(q.subs, r.it), score |-> q.score + r.it.score,
                         w |-> q.w + r.w, disc |-> q.disc @@ PrefixMap(ip, r.disc), outs |-> Append(q.outs, r.it.ret.k[2])]
             fin == st[p.n]
         IN  OR(IT("scan", args2, 0, fin.score, Tp(<<fin.carry, IF p.n = 0 THEN Vc(<<>>) ELSE Stack(fin.outs)>>), fin.subs, 0),
                fin.w, fin.disc, TRUE)

RECURSIVE ORegen(_, _, _, _, _, _)
\* regenerate (Distribution.edit_regenerate, RegenerateRequestHandler, Scan.edit_regenerate; mask / switch / vmap do
\* not accept the request): S = selected addresses relative to p; a selected choice takes the sampler's value, the
\* discard is the Update that writes the old value back
ORegen(p, it, args2, targs, S, pick) ==
  CASE p.k = "dist" ->
         IF <<>> \in S
         THEN LET v == pick[<<>>] fwd == LP(p.n, args2[1].i, v)
              IN  OR(IT("dist", args2, v, fwd, I(v), <<>>, 0), fwd - it.score, (<<>> :> it.val), TRUE)
         ELSE LET fwd == LP(p.n, args2[1].i, it.val)
              IN  OR(IT("dist", args2, it.val, fwd, it.ret, <<>>, 0), fwd - it.score, EmptyF, FALSE)
    [] p.k = "static" ->
         LET st[j \in 0..Len(p.sites)] ==
               IF j = 0 THEN [env |-> <<>>, tenv |-> <<>>, subs |-> <<>>, score |-> 0, w |-> 0, disc |-> EmptyF]
               ELSE LET s  == p.sites[j]
                        q  == st[j - 1]
                        a  == [i \in 1..Len(s.args) |-> EvalE(s.args[i], args2, <<>>, q.env)]
                        ta == [i \in 1..Len(s.args) |-> TaintE(s.args[i], targs, <<>>, q.tenv)]
                        r  == ORegen(s.callee, it.subs[j], a, ta, SubSet(s.addr, S), SubMap(s.addr, pick))
                    IN  [env |-> Append(q.env, r.it.ret), tenv |-> Append(q.tenv, r.rt), subs |-> Append(q.subs, r.it),
                         score |-> q.score + r.it.score, w |-> q.w + r.w, disc |-> q.disc @@ PrefixMap(s.addr, r.disc)]
             fin == st[Len(p.sites)]
         IN  OR(IT("static", args2, 0, fin.score, EvalE(p.ret, args2, <<>>, fin.env), fin.subs, 0), fin.w, fin.disc,
                TaintE(p.ret, targs, <<>>, fin.tenv))
    [] p.k = "scan" ->                      \* the selection is handed to every step unchanged (index levels are transparent)
         LET st[i \in 0..p.n] ==
               IF i = 0 THEN [carry |-> args2[1], tc |-> targs[1], subs |-> <<>>, score |-> 0, w |-> 0, disc |-> EmptyF, outs |-> <<>>]
               ELSE LET q  == st[i - 1]
                        ip == <<IdxStr(i - 1)>>
                        x  == IF args2[2].t = "n" THEN Nn ELSE Unstack(args2[2], i)
                        ta == IF ScanRetagsAll THEN <<TRUE, TRUE>> ELSE <<q.tc, targs[2]>>
                        r  == ORegen(p.subs[1], it.subs[i], <<q.carry, x>>, ta, S, SubMap(ip, pick))
                    IN  [carry |-> r.it.ret.k[1], tc |-> r.rt, subs |-> Append(q.subs, r.it), score |-> q.score + r.it.score,
                         w |-> q.w + r.w, disc |-> q.disc @@ PrefixMap(ip, r.disc), outs |-> Append(q.outs, r.it.ret.k[2])]
             fin == st[p.n]
         IN  OR(IT("scan", args2, 0, fin.score, Tp(<<fin.carry, IF p.n = 0 THEN Vc(<<>>) ELSE Stack(fin.outs)>>), fin.subs, 0),
                fin.w, fin.disc, TRUE)
RECURSIVE SupportsRegen(_)
SupportsRegen(p) == CASE p.k = "dist" -> TRUE
                      [] p.k = "static" -> \A j \in 1..Len(p.sites) : SupportsRegen(p.sites[j].callee)
                      [] p.k = "scan" -> SupportsRegen(p.subs[1])
                      [] OTHER -> FALSE
RECURSIVE SelTerm(_)
SelTerm(S) == IF S = {} THEN [t |-> "none"]
              ELSE LET a == CHOOSE a \in S : TRUE IN [t |-> "or", k |-> <<[t |-> "lf", p |-> a], SelTerm(S \ {a})>>]
---------------------------------------------------------------------------
VARIABLES pid, cur, old, last
vars == <<pid, cur, old, last>>
P == Entry(pid).p
Args == {Entry(pid).as[i] : i \in 1..Len(Entry(pid).as)}
Picks == [Addrs(P) -> PV]
NoIT == IT("none", <<>>, 0, 0, Nn, <<>>, 0)
HonestT(a1, a2) == [j \in 1..Len(a2) |-> a1[j] # a2[j]]
TagsOf(t) == [j \in 1..Len(t) |-> IF t[j] THEN "U" ELSE "N"]

Init == pid \in OpsProgs /\ cur = NoIT /\ old = NoIT /\ last = [op |-> "none", w |-> 0, disc |-> EmptyF, tags |-> <<>>, cons |-> EmptyF]
Sim == /\ cur = NoIT
       /\ \E a \in Args : \E pk \in Picks : cur' = OSim(P, a, pk)
       /\ UNCHANGED <<pid, old>> /\ last' = [last EXCEPT !.op = "sim"]
Upd == /\ cur # NoIT /\ last.op = "sim"
       /\ \E a2 \in Args : \E S \in SUBSET Addrs(P) : \E cons \in [S -> PV] : \E pk \in Picks :
            LET t == HonestT(cur.args, a2)
                r == OUpd(P, cur, a2, t, cons, pk)
            IN  /\ cur' = r.it /\ old' = cur
                /\ last' = [op |-> "upd", w |-> r.w, disc |-> r.disc, tags |-> TagsOf(t), cons |-> cons]
       /\ UNCHANGED pid
Undo == /\ last.op = "upd"
        /\ \E pk \in Picks :
             LET t == HonestT(cur.args, old.args)
                 r == OUpd(P, cur, old.args, t, last.disc, pk)
             IN  /\ cur' = r.it
                 /\ last' = [op |-> "undo", w |-> r.w, disc |-> r.disc, tags |-> TagsOf(t), cons |-> last.disc, fw |-> last.w]
        /\ UNCHANGED <<pid, old>>
StaticAddrs == {StaticPart(a) : a \in Addrs(P)}
Regen == /\ cur # NoIT /\ last.op = "sim" /\ SupportsRegen(P)
         /\ \E a2 \in Args : \E S \in SUBSET StaticAddrs : \E pk \in Picks :
              LET t == HonestT(cur.args, a2)
                  r == ORegen(P, cur, a2, t, S, pk)
              IN  /\ cur' = r.it /\ old' = cur
                  /\ last' = [op |-> "regen", w |-> r.w, disc |-> r.disc, tags |-> TagsOf(t), cons |-> EmptyF, sel |-> S, pk |-> pk]
         /\ UNCHANGED pid
UndoRegen == /\ last.op = "regen" /\ P.k # "scan"          \* Scan returns a VectorRequest it cannot apply itself (finding KF-C06-2)
             /\ \E pk \in Picks :
                  LET t == HonestT(cur.args, old.args)
                      r == OUpd(P, cur, old.args, t, last.disc, pk)
                  IN  /\ cur' = r.it
                      /\ last' = [op |-> "undo", w |-> r.w, disc |-> r.disc, tags |-> TagsOf(t), cons |-> last.disc, fw |-> last.w]
             /\ UNCHANGED <<pid, old>>
Next == Sim \/ Upd \/ Undo \/ Regen \/ UndoRegen
Spec == Init /\ [][Next]_vars

Consistent == cur # NoIT => LET T == AbsT(P, cur) IN LawVisited(P, T) /\ LawScore(P, T) /\ LawRet(P, T)
RefinesLaws == last.op = "upd" =>
   LET pre == AbsT(P, old)  post == AbsT(P, cur) IN
   /\ LawUpdConstrained(post, last.cons)
   /\ LawUpdKept(P, pre, post, last.tags, last.cons)
   /\ LawUpdWeight(P, pre, post, last.tags, last.cons, last.w)
   /\ LawUpdDiscard(P, pre, post, last.tags, last.cons, last.disc)
RegenRefines == last.op = "regen" =>
   LET pre == AbsT(P, old)  post == AbsT(P, cur)  sel == SelTerm(last.sel) IN
   /\ LawRegenUnselected(pre, post, sel)
   /\ LawRegenWeight(pre, post, last.w)
   /\ LawRegenEmpty(pre, post, sel, last.w, post.args = pre.args)
   /\ \A a \in DOMAIN post.choices : Selected(sel, a) => post.choices[a] = last.pk[a]          \* selected choices are redrawn
   /\ last.disc = [a \in {b \in DOMAIN pre.choices : Selected(sel, b)} |-> pre.choices[a]]      \* the discard writes the old values back
UndoRestores == last.op = "undo" =>
   LET a == AbsT(P, cur)  b == AbsT(P, old) IN
   a.choices = b.choices /\ a.score = b.score /\ a.ret = b.ret /\ a.args = b.args /\ last.w = -last.fw
=============================================================================
