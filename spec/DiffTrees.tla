----------------------------- MODULE DiffTrees -----------------------------
(***************************************************************************)
(* Diff trees and Pytree containers of GenJAX                              *)
(*   genjax/_src/core/compiler/interpreters/incremental.py :               *)
(*     Diff.tree_diff / tree_primal / tree_tangent / no_change /           *)
(*     unknown_change / static_check_no_change / static_check_tree_diff    *)
(*   genjax/_src/core/pytree.py : Pytree.dataclass with static and dynamic *)
(*     fields, Const, Closure; flatten / unflatten, jit(id), vmap(id).     *)
(*                                                                         *)
(* A pytree term is a uniform record [t, v, g, s, k]:                      *)
(*   int    raw dynamic leaf with value v                                  *)
(*   diff   Diff(v, g), g in {"NC","UC"} (NoChange / UnknownChange)        *)
(*   tag    a bare change tangent g (leaves of tangent trees)              *)
(*   const  Const(v): static, contributes no leaf                          *)
(*   tuple  tuple of the children k (1 or 2)                               *)
(*   dict   {"a": k[1], "b": k[2]}                                         *)
(*   dc     Box(s, x): a Pytree.dataclass with static field s and dynamic  *)
(*          field x = k[1]                                                 *)
(*   clo    Closure(dyn_args = k, fn = the s-th named function): fn static *)
(* RawTag is the tangent tree_tangent assigns to a NON-Diff leaf.  The     *)
(* property does not fix it (docstring: UnknownChange, code: NoChange);    *)
(* the driver measures the convention of the tree under test and passes it *)
(* in, and every expectation below is computed under that convention.      *)
(***************************************************************************)
EXTENDS Integers, Sequences, FiniteSets, TLC, Json, Rand

CONSTANTS MaxDepth, RawTag, Seed, NChains, NPerChain, RandDepth, Emit

N(t, v, g, s, k) == [t |-> t, v |-> v, g |-> g, s |-> s, k |-> k]
IntL(v)     == N("int", v, "", 0, <<>>)
DiffL(v, g) == N("diff", v, g, 0, <<>>)
TagL(g)     == N("tag", 0, g, 0, <<>>)
ConstL(v)   == N("const", v, "", 0, <<>>)
Tup(k)      == N("tuple", 0, "", 0, k)
Dict(a, b)  == N("dict", 0, "", 0, <<a, b>>)
Box(s, x)   == N("dc", 0, "", s, <<x>>)
Clo(s, k)   == N("clo", 0, "", s, k)

LeafSeq == << IntL(3), DiffL(1, "NC"), DiffL(2, "UC"), DiffL(4, "NC"), ConstL(7) >>
LeafSet == {LeafSeq[i] : i \in 1..Len(LeafSeq)}
IsNode(t) == t.t \in {"tuple", "dict", "dc", "clo"}

\* Rebuild a node with new children.
With(t, k) == [t EXCEPT !.k = k]

---------------------------------------------------------------------------
\* The operations (what the docstrings say).
RECURSIVE Primal(_), Tangent(_), TreeDiff(_, _), Retag(_, _), Skel(_), Leaves(_), Statics(_), Shift(_, _)
Primal(t)  == CASE t.t = "diff" -> IntL(t.v)
                [] IsNode(t)    -> With(t, [i \in 1..Len(t.k) |-> Primal(t.k[i])])
                [] OTHER        -> t
Tangent(t) == CASE t.t = "diff" -> TagL(t.g)
                [] t.t = "int"  -> TagL(RawTag)
                [] IsNode(t)    -> With(t, [i \in 1..Len(t.k) |-> Tangent(t.k[i])])
                [] OTHER        -> t
\* tree_diff(primal tree, tangent tree): leafwise Diff(p, g).
TreeDiff(p, tg) == CASE p.t = "int" -> DiffL(p.v, tg.g)
                     [] IsNode(p)   -> With(p, [i \in 1..Len(p.k) |-> TreeDiff(p.k[i], tg.k[i])])
                     [] OTHER       -> p
\* no_change / unknown_change: every leaf of the primal tree becomes Diff(leaf, g).
Retag(t, g) == CASE t.t \in {"int", "diff"} -> DiffL(t.v, g)
                 [] IsNode(t)               -> With(t, [i \in 1..Len(t.k) |-> Retag(t.k[i], g)])
                 [] OTHER                   -> t
\* ... equivalently (the code): tree_diff(primal, tree_map(lambda _: g, primal)).
RECURSIVE ConstTags(_, _)
ConstTags(p, g) == CASE p.t = "int" -> TagL(g)
                     [] IsNode(p)   -> With(p, [i \in 1..Len(p.k) |-> ConstTags(p.k[i], g)])
                     [] OTHER       -> p
NoChange(t)      == Retag(t, "NC")
UnknownChange(t) == Retag(t, "UC")

\* Structure: everything but leaf payloads (static data is part of the structure).
Skel(t) == CASE t.t \in {"int", "diff", "tag"} -> N("leaf", 0, "", 0, <<>>)
             [] IsNode(t) -> With(t, [i \in 1..Len(t.k) |-> Skel(t.k[i])])
             [] OTHER     -> t
RECURSIVE Flat(_)
Flat(ss) == IF ss = <<>> THEN <<>> ELSE Head(ss) \o Flat(Tail(ss))
\* Dynamic leaves in JAX flattening order (tuple order, dict keys sorted, dataclass field order); a Diff
\* contributes its primal, tangents and static fields contribute nothing.
Leaves(t) == CASE t.t \in {"int", "diff"} -> <<t.v>>
               [] IsNode(t) -> Flat([i \in 1..Len(t.k) |-> Leaves(t.k[i])])
               [] OTHER     -> <<>>
\* Static data in traversal order: Box.s, Closure fn id (as 100 + s), Const value (as 200 + v).
Statics(t) == CASE t.t = "const" -> <<200 + t.v>>
                [] t.t = "dc"    -> <<t.s>> \o Statics(t.k[1])
                [] t.t = "clo"   -> <<100 + t.s>> \o Flat([i \in 1..Len(t.k) |-> Statics(t.k[i])])
                [] IsNode(t)     -> Flat([i \in 1..Len(t.k) |-> Statics(t.k[i])])
                [] OTHER         -> <<>>
\* The same tree with d added to every dynamic leaf (the other elements of a vmap batch).
Shift(t, d) == CASE t.t \in {"int", "diff"} -> [t EXCEPT !.v = t.v + d]
                 [] IsNode(t) -> With(t, [i \in 1..Len(t.k) |-> Shift(t.k[i], d)])
                 [] OTHER     -> t

\* Tangents of a tree, in order (one per leaf, Diff or not).
RECURSIVE Tags(_)
Tags(t) == CASE t.t = "diff" -> <<t.g>>
             [] t.t = "tag"  -> <<t.g>>
             [] t.t = "int"  -> <<RawTag>>
             [] IsNode(t)    -> Flat([i \in 1..Len(t.k) |-> Tags(t.k[i])])
             [] OTHER        -> <<>>
\* static_check_no_change, definition 1: every tangent of the tangent tree is NoChange.
AllNC(t) == LET g == Tags(Tangent(t)) IN \A i \in 1..Len(g) : g[i] = "NC"
\* definition 2: direct recursion on the tree.
RECURSIVE AllNC2(_)
AllNC2(t) == CASE t.t = "diff" -> t.g = "NC"
               [] t.t = "int"  -> RawTag = "NC"
               [] IsNode(t)    -> \A i \in 1..Len(t.k) : AllNC2(t.k[i])
               [] OTHER        -> TRUE
\* static_check_tree_diff: every leaf is a Diff.
RECURSIVE AllDiff(_)
AllDiff(t) == CASE t.t = "diff" -> TRUE
                [] t.t = "int"  -> FALSE
                [] IsNode(t)    -> \A i \in 1..Len(t.k) : AllDiff(t.k[i])
                [] OTHER        -> TRUE

---------------------------------------------------------------------------
VARIABLES term, depth, r
vars == <<term, depth, r>>

RECURSIVE DepthOf(_)
DepthOf(t) == IF ~IsNode(t) THEN 0
              ELSE 1 + (IF Len(t.k) = 1 THEN DepthOf(t.k[1])
                        ELSE IF DepthOf(t.k[1]) >= DepthOf(t.k[2]) THEN DepthOf(t.k[1]) ELSE DepthOf(t.k[2]))
\* second operands of binary tuples at depth 2: leaves and a cross-section of the depth-1 trees
Depth1 == {Tup(<<a>>) : a \in LeafSet} \cup {Dict(a, a) : a \in LeafSet}
          \cup {Box(1, a) : a \in LeafSet} \cup {Clo(0, <<a>>) : a \in LeafSet}
          \cup {Tup(<<a, b>>) : a \in LeafSet, b \in {DiffL(1, "NC"), DiffL(2, "UC")}}
Sub(d) == IF d >= 1 THEN LeafSet \cup Depth1 ELSE LeafSet

Init == term \in LeafSet /\ depth = 0 /\ r = 0
Next == /\ depth < MaxDepth
        /\ depth' = depth + 1
        /\ r' = r
        /\ \/ term' = Tup(<<term>>)
           \/ \E s \in {0, 1} : term' = Box(s, term)
           \/ \E s \in {0, 1} : term' = Clo(s, <<term>>)
           \/ \E x \in Sub(depth) : term' = Tup(<<term, x>>)
           \/ \E x \in LeafSet : term' \in {Tup(<<x, term>>), Dict(term, x), Dict(x, term), Clo(1, <<term, x>>)}
Spec == Init /\ [][Next]_vars

\* Random trees of depth <= d from the explicit stream rr: returns [v, r].
RECURSIVE GenTree(_, _)
GenTree(rr, d) ==
  IF d = 0 \/ RPick(rr, 5) = 0
  THEN [v |-> LeafSeq[RPick(RNext(rr), Len(LeafSeq)) + 1], r |-> RNext(RNext(rr))]
  ELSE LET c == RPick(RNext(rr), 7)
           x == GenTree(RNext(RNext(rr)), d - 1)
       IN  IF c = 0 THEN [v |-> Tup(<<x.v>>), r |-> x.r]
           ELSE IF c = 1 THEN [v |-> Box(RPick(x.r, 2), x.v), r |-> RNext(x.r)]
           ELSE IF c = 2 THEN [v |-> Clo(RPick(x.r, 2), <<x.v>>), r |-> RNext(x.r)]
           ELSE LET y == GenTree(x.r, d - 1) IN
                IF c \in {3, 4} THEN [v |-> Tup(<<x.v, y.v>>), r |-> y.r]
                ELSE IF c = 5 THEN [v |-> Dict(x.v, y.v), r |-> y.r]
                ELSE [v |-> Clo(1, <<x.v, y.v>>), r |-> y.r]
InitRand == \E i \in 1..NChains : LET g == GenTree(RSeed(Seed, i), RandDepth) IN term = g.v /\ r = g.r /\ depth = 0
NextRand == /\ depth < NPerChain
            /\ LET g == GenTree(r, RandDepth) IN term' = g.v /\ r' = g.r
            /\ depth' = depth + 1
SpecRand == InitRand /\ [][NextRand]_vars

---------------------------------------------------------------------------
\* Role A: laws of the operations.
RoundTrip == TreeDiff(Primal(term), Tangent(term))
Laws ==
  LET t == term IN
  /\ Primal(Primal(t)) = Primal(t)                                            \* tree_primal is idempotent
  /\ Skel(Primal(t)) = Skel(t) /\ Skel(Tangent(t)) = Skel(t)                  \* structure is preserved
  /\ Skel(NoChange(t)) = Skel(t) /\ Skel(UnknownChange(t)) = Skel(t) /\ Skel(RoundTrip) = Skel(t)
  /\ Primal(NoChange(t)) = Primal(t) /\ Primal(UnknownChange(t)) = Primal(t)  \* primals are preserved
  /\ Primal(RoundTrip) = Primal(t)
  /\ AllDiff(t) => RoundTrip = t                                              \* tree_diff o (tree_primal, tree_tangent) = id on Diff trees
  /\ Tangent(RoundTrip) = Tangent(t)
  /\ AllNC(t) = AllNC2(t)                                                     \* the two definitions of static_check_no_change agree
  /\ AllNC(t) <=> (\A i \in 1..Len(Tags(t)) : Tags(t)[i] = "NC")
  /\ AllNC(NoChange(t))
  /\ Leaves(t) # <<>> => ~AllNC(UnknownChange(t))
  /\ AllDiff(NoChange(t)) /\ AllDiff(UnknownChange(t)) /\ AllDiff(RoundTrip)
  /\ NoChange(NoChange(t)) = NoChange(t) /\ NoChange(UnknownChange(t)) = NoChange(t)   \* no nested Diffs: retagging replaces the tangent
  /\ UnknownChange(NoChange(t)) = UnknownChange(t)
  /\ NoChange(t) = TreeDiff(Primal(t), ConstTags(Primal(t), "NC"))            \* the definition the code uses
  /\ UnknownChange(t) = TreeDiff(Primal(t), ConstTags(Primal(t), "UC"))
  /\ Leaves(Primal(t)) = Leaves(t) /\ Leaves(NoChange(t)) = Leaves(t)         \* the dynamic leaves are the primal values
  /\ Leaves(Tangent(t)) = <<>>                                                \* tangents carry no traced data
  /\ Len(Tags(t)) = Len(Leaves(t))
  /\ Statics(Primal(t)) = Statics(t) /\ Statics(NoChange(t)) = Statics(t)
  /\ \A d \in {10, 20} : /\ Skel(Shift(t, d)) = Skel(t) /\ Statics(Shift(t, d)) = Statics(t)
                         /\ Leaves(Shift(t, d)) = [i \in 1..Len(Leaves(t)) |-> Leaves(t)[i] + d]
                         /\ Tags(Shift(t, d)) = Tags(t)

\* Role B.
EmitCase == Emit => PrintT(<<"CASE", ToJson([term |-> term, depth |-> DepthOf(term),
                 primal |-> Primal(term), tangent |-> Tangent(term), treediff |-> RoundTrip,
                 nochange |-> NoChange(term), unknown |-> UnknownChange(term),
                 allnc |-> AllNC(term), alldiff |-> AllDiff(term),
                 leaves |-> Leaves(term), statics |-> Statics(term),
                 \* vmap needs at least one array leaf to define the batch axis
                 batch |-> IF Leaves(term) = <<>> THEN <<>> ELSE <<term, Shift(term, 10), Shift(term, 20)>>])>>)
=============================================================================
