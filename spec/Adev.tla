-------------------------------- MODULE Adev --------------------------------
(***************************************************************************)
(* ADEV (genjax/_src/adev/core.py, primitives.py): forward-mode derivative *)
(* estimators of expectations of probabilistic programs.                   *)
(*                                                                         *)
(* A program is a record [body, ret]: body is a sequence of statements     *)
(*   sample  [k="sample", strat, p=<<prob exprs>>, b=baseline expr, g]     *)
(*   cost    [k="cost", e]                          (add_cost(e))          *)
(* and ret an expression over the parameter th and the sampled values.     *)
(* A sample statement with guard g # 0 is executed only when the value of  *)
(* sample site g is 1 (a site inside a lax.cond branch), otherwise it      *)
(* yields 0 (g = 3: inside a branch of lax.cond(True, ..), always run).  Strategies: ENUM (flip_enum), ENUMPAR (flip_enum_parallel),  *)
(* CATPAR (categorical_enum_parallel, 3 outcomes), REINFORCE               *)
(* (flip_reinforce), BASELINE (baseline(flip_reinforce)(b, p)), MVD        *)
(* (flip_mvd).                                                             *)
(*                                                                         *)
(* Two INDEPENDENT semantics:                                              *)
(*  Est(prog, thD, om)  -- what the CPS/dual-number interpreter returns    *)
(*     as a function of the sampled outcomes om (dual numbers over exact   *)
(*     rationals), one rule per primitive's jvp_estimate;                  *)
(*  ExpectP(prog)       -- the expectation as an explicit POLYNOMIAL in th *)
(*     (coefficient sequences over rationals, symbolic derivative).        *)
(* Role A: TLC checks  Sum_om P(om) * Est(om) = (Expect, dExpect) for      *)
(* every program of the bounded grammar and th in {1/4,1/2,3/4}.           *)
(***************************************************************************)
EXTENDS Integers, Sequences, FiniteSets, TLC, Json, Rand, Rat

CONSTANTS Big,            \* TRUE: the larger program universe (thorough tier)
          Seed, NChains, NPerChain   \* random case generation

---------------------------------------------------------------------------
\* Expression terms (uniform records).
E(op, q, i, k) == [op |-> op, q |-> q, i |-> i, k |-> k]
C(n, d)  == E("c", <<n, d>>, 0, <<>>)
Th       == E("th", Q0, 0, <<>>)
V(i)     == E("v", Q0, i, <<>>)            \* sampled value of site i as a number
Add(a, b) == E("add", Q0, 0, <<a, b>>)
Sub(a, b) == E("sub", Q0, 0, <<a, b>>)
Mul(a, b) == E("mul", Q0, 0, <<a, b>>)
Cond(i, a, b) == E("cond", Q0, i, <<a, b>>)        \* lax.cond(v_i, a, b)
Sel(i, a, b, c) == E("sel", Q0, i, <<a, b, c>>)    \* stack([a,b,c])[v_i]

Sample(strat, p, b, g) == [k |-> "sample", strat |-> strat, p |-> p, b |-> b, g |-> g, e |-> C(0, 1)]
Cost(e) == [k |-> "cost", strat |-> "NONE", p |-> <<>>, b |-> C(0, 1), g |-> 0, e |-> e]
Prog(body, ret) == [body |-> body, ret |-> ret]

EnumStrats   == {"ENUM", "ENUMPAR", "CATPAR"}
SampledStrats == {"REINFORCE", "BASELINE", "MVD"}

\* Dual-number evaluation of an expression; env = values of the sites so far.
RECURSIVE EvalD(_, _, _)
EvalD(e, thD, env) ==
  CASE e.op = "c"    -> DC(e.q)
    [] e.op = "th"   -> thD
    [] e.op = "v"    -> DC(QI(env[e.i]))
    [] e.op = "add"  -> DAdd(EvalD(e.k[1], thD, env), EvalD(e.k[2], thD, env))
    [] e.op = "sub"  -> DSub(EvalD(e.k[1], thD, env), EvalD(e.k[2], thD, env))
    [] e.op = "mul"  -> DMul(EvalD(e.k[1], thD, env), EvalD(e.k[2], thD, env))
    [] e.op = "cond" -> IF env[e.i] = 1 THEN EvalD(e.k[1], thD, env) ELSE EvalD(e.k[2], thD, env)
    [] e.op = "sel"  -> EvalD(e.k[env[e.i] + 1], thD, env)

\* Outcome index of the sampled site reached with the values env of earlier
\* sites: site 1 -> 1, site 2 -> 2 + env[1] (each context has its own outcome:
\* after an enumerating site the continuations are run once per branch).
NCtx == 4
Ctx(env) == IF Len(env) = 0 THEN 1 ELSE 2 + env[1]
Omegas == [1..NCtx -> {0, 1}]

\* d/dth log Bernoulli(v; p) for the dual p
LpTangent(p, v) == IF v = 1 THEN QDiv(p[2], p[1]) ELSE QNeg(QDiv(p[2], QSub(Q1, p[1])))

\* The estimator: what jvp_estimate returns, by primitive.  (Helper operators
\* take already-evaluated duals so that recursive calls are evaluated once.)
EnumRule(p, t, f) == DAdd(DMul(p, t), DMul(DSub(D1, p), f))                 \* FlipEnum / FlipEnumParallel
CatRule(p0, p1, p2, k0, k1, k2) == DAdd(DMul(p0, k0), DAdd(DMul(p1, k1), DMul(p2, k2)))
ReinforceRule(p, v, out) == << out[1], QAdd(out[2], QMul(out[1], LpTangent(p, v))) >>   \* REINFORCE.jvp_estimate
BaselineRule(p, v, b, out) == DAdd(ReinforceRule(p, v, DSub(out, b)), b)    \* Baseline.jvp_estimate
MvdRule(p, v, out, other) ==                                                \* FlipMVD: (-1)^v (other - out)
  << out[1], QAdd(out[2], QMul(IF v = 1 THEN QSub(out[1], other[1]) ELSE QSub(other[1], out[1]), p[2])) >>

RECURSIVE Est(_, _, _, _, _)
Est(prog, thD, j, env, om) ==
  IF j > Len(prog.body) THEN EvalD(prog.ret, thD, env)
  ELSE LET st == prog.body[j] IN
    IF st.k = "cost" THEN DAdd(EvalD(st.e, thD, env), Est(prog, thD, j + 1, env, om))
    ELSE IF st.g \in {1, 2} /\ env[st.g] # 1 THEN Est(prog, thD, j + 1, Append(env, 0), om)
    ELSE
      CASE st.strat \in {"ENUM", "ENUMPAR"} ->
             EnumRule(EvalD(st.p[1], thD, env), Est(prog, thD, j + 1, Append(env, 1), om),
                      Est(prog, thD, j + 1, Append(env, 0), om))
        [] st.strat = "CATPAR" ->
             CatRule(EvalD(st.p[1], thD, env), EvalD(st.p[2], thD, env), EvalD(st.p[3], thD, env),
                     Est(prog, thD, j + 1, Append(env, 0), om), Est(prog, thD, j + 1, Append(env, 1), om),
                     Est(prog, thD, j + 1, Append(env, 2), om))
        [] st.strat = "REINFORCE" ->
             ReinforceRule(EvalD(st.p[1], thD, env), om[Ctx(env)],
                           Est(prog, thD, j + 1, Append(env, om[Ctx(env)]), om))
        [] st.strat = "BASELINE" ->
             BaselineRule(EvalD(st.p[1], thD, env), om[Ctx(env)], EvalD(st.b, thD, env),
                          Est(prog, thD, j + 1, Append(env, om[Ctx(env)]), om))
        [] st.strat = "MVD" ->
             MvdRule(EvalD(st.p[1], thD, env), om[Ctx(env)],
                     Est(prog, thD, j + 1, Append(env, om[Ctx(env)]), om),
                     Est(prog, thD, j + 1, Append(env, 1 - om[Ctx(env)]), om))

Estimate(prog, th, dth, om) == Est(prog, <<th, dth>>, 1, <<>>, om)

---------------------------------------------------------------------------
\* Independent semantics: the expectation as a polynomial in th.
\* A polynomial is a non-empty sequence of rationals, constant term first.
PLen(a, b) == IF Len(a) > Len(b) THEN Len(a) ELSE Len(b)
PCo(a, i) == IF i <= Len(a) THEN a[i] ELSE Q0
PAdd(a, b) == [i \in 1..PLen(a, b) |-> QAdd(PCo(a, i), PCo(b, i))]
PSub(a, b) == [i \in 1..PLen(a, b) |-> QSub(PCo(a, i), PCo(b, i))]
RECURSIVE QSum(_, _, _, _)
QSum(a, b, i, j) == \* sum_{l=j..i} a[l] * b[i+1-l]
  IF j > i THEN Q0 ELSE QAdd(QMul(PCo(a, j), PCo(b, i + 1 - j)), QSum(a, b, i, j + 1))
PMul(a, b) == [i \in 1..(Len(a) + Len(b) - 1) |-> QSum(a, b, i, 1)]
PDeriv(a) == IF Len(a) = 1 THEN <<Q0>> ELSE [i \in 1..(Len(a) - 1) |-> QMul(QI(i), a[i + 1])]
RECURSIVE PAtFrom(_, _, _)
PAtFrom(a, x, i) == IF i > Len(a) THEN Q0 ELSE QAdd(a[i], QMul(x, PAtFrom(a, x, i + 1)))   \* Horner
PAt(a, x) == PAtFrom(a, x, 1)
POne == <<Q1>>

RECURSIVE EvalP(_, _)
EvalP(e, env) ==
  CASE e.op = "c"    -> <<e.q>>
    [] e.op = "th"   -> <<Q0, Q1>>
    [] e.op = "v"    -> <<QI(env[e.i])>>
    [] e.op = "add"  -> PAdd(EvalP(e.k[1], env), EvalP(e.k[2], env))
    [] e.op = "sub"  -> PSub(EvalP(e.k[1], env), EvalP(e.k[2], env))
    [] e.op = "mul"  -> PMul(EvalP(e.k[1], env), EvalP(e.k[2], env))
    [] e.op = "cond" -> IF env[e.i] = 1 THEN EvalP(e.k[1], env) ELSE EvalP(e.k[2], env)
    [] e.op = "sel"  -> EvalP(e.k[env[e.i] + 1], env)

\* probability (polynomial) that the site takes value v
ProbP(st, v, env) ==
  IF st.strat = "CATPAR" THEN EvalP(st.p[v + 1], env)
  ELSE IF v = 1 THEN EvalP(st.p[1], env) ELSE PSub(POne, EvalP(st.p[1], env))
ValsOf(st) == IF st.strat = "CATPAR" THEN {0, 1, 2} ELSE {0, 1}

RECURSIVE ExpectP(_, _, _)
ExpectP(prog, j, env) ==
  IF j > Len(prog.body) THEN EvalP(prog.ret, env)
  ELSE LET st == prog.body[j] IN
    IF st.k = "cost" THEN PAdd(EvalP(st.e, env), ExpectP(prog, j + 1, env))
    ELSE IF st.g \in {1, 2} /\ env[st.g] # 1 THEN ExpectP(prog, j + 1, Append(env, 0))
    ELSE LET t0 == PMul(ProbP(st, 0, env), ExpectP(prog, j + 1, Append(env, 0)))
             t1 == PMul(ProbP(st, 1, env), ExpectP(prog, j + 1, Append(env, 1)))
         IN  IF st.strat = "CATPAR"
             THEN PAdd(t0, PAdd(t1, PMul(ProbP(st, 2, env), ExpectP(prog, j + 1, Append(env, 2)))))
             ELSE PAdd(t0, t1)

Expect(prog, th)  == PAt(ExpectP(prog, 1, <<>>), th)
dExpect(prog, th) == PAt(PDeriv(ExpectP(prog, 1, <<>>)), th)
\* << Expect, dExpect >> with the polynomial computed once
ExpPair(ep, th) == << PAt(ep, th), PAt(PDeriv(ep), th) >>
ExpDual(prog, th) == ExpPair(ExpectP(prog, 1, <<>>), th)

---------------------------------------------------------------------------
\* Probability of an outcome vector om: every context has an independent
\* Bernoulli outcome with the probability of the sampled site it belongs to
\* (contexts that do not exist, or belong to enumerated sites, get 1/2; they
\* marginalise out).
SampleIdx(prog) == SelectSeq([j \in 1..Len(prog.body) |-> j], LAMBDA j : prog.body[j].k = "sample")
NSites(prog) == Len(SampleIdx(prog))
SiteStmt(prog, s) == prog.body[SampleIdx(prog)[s]]
Half == <<1, 2>>
CtxProb(prog, th, c) ==
  IF c = 1 THEN
     IF NSites(prog) >= 1 /\ SiteStmt(prog, 1).strat \in SampledStrats
     THEN EvalD(SiteStmt(prog, 1).p[1], <<th, Q0>>, <<>>)[1] ELSE Half
  ELSE
     IF NSites(prog) >= 2 /\ SiteStmt(prog, 2).strat \in SampledStrats
     THEN EvalD(SiteStmt(prog, 2).p[1], <<th, Q0>>, <<c - 2>>)[1] ELSE Half
OmSeq == [n \in 1..16 |-> [c \in 1..NCtx |-> ((n - 1) \div (IF c = 1 THEN 1 ELSE IF c = 2 THEN 2 ELSE IF c = 3 THEN 4 ELSE 8)) % 2]]
\* contexts whose outcome can be read by the estimator; all others are fixed to 0 in
\* the enumeration (their probability factor sums to one)
RelCtx(prog) ==
  (IF NSites(prog) >= 1 /\ SiteStmt(prog, 1).strat \in SampledStrats THEN {1} ELSE {})
  \cup (IF NSites(prog) >= 2 /\ SiteStmt(prog, 2).strat \in SampledStrats
        THEN (IF SiteStmt(prog, 1).strat = "CATPAR" THEN {2, 3, 4} ELSE {2, 3}) ELSE {})
RelOm(prog, n) == \A c \in 1..NCtx : OmSeq[n][c] = 1 => c \in RelCtx(prog)
RECURSIVE POmFrom(_, _, _, _, _)
POmFrom(prog, th, om, rel, c) ==
  IF c > NCtx THEN Q1
  ELSE IF c \notin rel THEN POmFrom(prog, th, om, rel, c + 1)
  ELSE QMul(IF om[c] = 1 THEN CtxProb(prog, th, c) ELSE QSub(Q1, CtxProb(prog, th, c)),
            POmFrom(prog, th, om, rel, c + 1))
POm(prog, th, om) == POmFrom(prog, th, om, RelCtx(prog), 1)
RECURSIVE MeanFrom(_, _, _, _)
MeanFrom(prog, th, dth, n) ==
  IF n > 16 THEN D0
  ELSE IF ~RelOm(prog, n) THEN MeanFrom(prog, th, dth, n + 1)
  ELSE DAdd(DScale(POm(prog, th, OmSeq[n]), Estimate(prog, th, dth, OmSeq[n])), MeanFrom(prog, th, dth, n + 1))
MeanEstimate(prog, th, dth) == MeanFrom(prog, th, dth, 1)

HasSampled(prog) == \E s \in 1..NSites(prog) : SiteStmt(prog, s).strat \in SampledStrats

---------------------------------------------------------------------------
\* The bounded grammar.
SeqSet(s) == {s[i] : i \in 1..Len(s)}
Thetas == {<<1, 4>>, <<1, 2>>, <<3, 4>>}
ThSq == Mul(Th, Th)
OneMinusTh == Sub(C(1, 1), Th)
HalfThQ == Add(Mul(C(1, 2), Th), C(1, 4))
\* 2 th - 1/2 is exactly 0, 1/2, 1 on the grid: boundary probabilities, for enumerating sites only
\* (the score function of a sampled site is undefined there)
Bnd == Sub(Mul(C(2, 1), Th), C(1, 2))
PE1Seq == IF Big THEN <<Th, OneMinusTh, ThSq, HalfThQ, C(1, 2)>> ELSE <<Th, ThSq>>
\* probabilities of the second site may depend on the first value
PE2Seq == IF Big THEN PE1Seq \o <<Cond(1, Th, C(1, 4)), Cond(1, ThSq, OneMinusTh), Add(Mul(C(1, 4), V(1)), Mul(C(1, 2), Th))>>
                 ELSE <<Cond(1, ThSq, C(1, 4)), Add(Mul(C(1, 4), V(1)), Mul(C(1, 2), Th))>>
PE2CatSeq == <<OneMinusTh, Sel(1, Th, C(1, 4), ThSq)>>     \* after a categorical first site
Cat1Seq == IF Big THEN << <<Mul(C(1, 2), Th), Mul(C(1, 2), Th), OneMinusTh>>, <<Mul(C(1, 2), Th), C(1, 4), Sub(C(3, 4), Mul(C(1, 2), Th))>> >>
                  ELSE << <<Mul(C(1, 2), Th), C(1, 4), Sub(C(3, 4), Mul(C(1, 2), Th))>> >>
BaseSeq == IF Big THEN <<C(3, 1), Mul(C(2, 1), Th), C(-1, 2)>> ELSE <<Mul(C(2, 1), Th)>>
GuardPESeq == IF Big THEN PE1Seq ELSE <<Th>>
FlipStratSeq == <<"ENUM", "ENUMPAR", "REINFORCE", "MVD", "BASELINE">>
Strat1Seq == FlipStratSeq \o <<"CATPAR">>

\* (flip_mvd is not generated inside a cond branch)
FlipSites(pes, g) ==
     {Sample(s, <<p>>, C(0, 1), g) : s \in (IF g = 0 THEN {"ENUM", "ENUMPAR", "REINFORCE", "MVD"} ELSE {"ENUM", "ENUMPAR", "REINFORCE"}),
                                     p \in SeqSet(pes)}
     \cup {Sample("BASELINE", <<p>>, b, g) : p \in SeqSet(pes), b \in SeqSet(BaseSeq)}
BndSites == {Sample(s, <<Bnd>>, C(0, 1), 0) : s \in {"ENUM", "ENUMPAR"}}
Sites1 == FlipSites(PE1Seq, 0) \cup BndSites \cup {Sample("CATPAR", p, C(0, 1), 0) : p \in SeqSet(Cat1Seq)}
\* second site: unguarded, or guarded by a first flip site (a site inside a cond branch)
Sites2(first) == IF first.strat = "CATPAR" THEN FlipSites(PE2CatSeq, 0)
                 ELSE FlipSites(PE2Seq, 0) \cup FlipSites(GuardPESeq, 1) \cup (IF Big THEN BndSites ELSE {})

\* returns: the constants are injective in the sampled values
Ret1Seq == << Cond(1, Mul(C(3, 1), Th), Add(C(1, 1), ThSq)),
              Add(Mul(V(1), Sub(C(2, 1), Th)), Mul(C(1, 2), ThSq)) >>
Ret1CatSeq == << Sel(1, Mul(C(3, 1), Th), Add(C(1, 1), ThSq), Sub(C(5, 1), Th)) >>
Ret2Seq == << Cond(1, Cond(2, Mul(C(3, 1), Th), Add(C(1, 1), ThSq)), Cond(2, Sub(C(5, 1), Th), Add(C(7, 1), Mul(C(2, 1), ThSq)))),
              Add(Mul(V(1), Mul(C(3, 1), Th)), Add(Mul(V(2), Sub(C(5, 1), ThSq)), Mul(V(1), Mul(V(2), C(7, 2))))) >>
Ret2CatSeq == << Sel(1, Cond(2, Mul(C(3, 1), Th), Add(C(1, 1), ThSq)), Cond(2, Sub(C(5, 1), Th), C(7, 1)), Cond(2, Mul(C(9, 1), ThSq), Add(C(11, 1), Th))),
                 Add(Mul(V(1), Mul(C(3, 1), Th)), Mul(V(2), Sub(C(5, 1), ThSq))) >>
Costs0Seq == <<ThSq>>                                  \* before the first site
Costs1Seq == <<Mul(C(2, 1), Th), Mul(V(1), ThSq)>>     \* after the first site (may use its value)
PostCost == Cost(Mul(C(2, 1), Th))

SamplesOf(bd) == SelectSeq(bd, LAMBDA st : st.k = "sample")
RetSeq(bd) ==
  LET ss == SamplesOf(bd) IN
  IF Len(ss) = 1 THEN (IF ss[1].strat = "CATPAR" THEN Ret1CatSeq ELSE Ret1Seq)
  ELSE (IF ss[1].strat = "CATPAR" THEN Ret2CatSeq ELSE Ret2Seq)

\* (flip_mvd: the other outcome's value is the primal of the rest of the program, MvdRule)
VARIABLES body, stage, prog, th, r
vars == <<body, stage, prog, th, r>>
NoProg == Prog(<<>>, C(0, 1))

Init == body = <<>> /\ stage = 0 /\ prog = NoProg /\ th = Q0 /\ r = 0

Pick1 == /\ stage = 0
         /\ \E s \in Sites1 : \E pre \in {<<>>} \cup {<<Cost(c)>> : c \in SeqSet(Costs0Seq)} :
               body' = pre \o <<s>>
         /\ stage' = 1 /\ UNCHANGED <<prog, th, r>>
HasCost(bd) == \E i \in 1..Len(bd) : bd[i].k = "cost"
\* The small universe (Big = FALSE, quick tier) drops some combinations of cost statements.
Pick2 == /\ stage = 1
         /\ Big \/ body[Len(body)].strat # "MVD"        \* (small universe: only a cost after flip_mvd)
         /\ Big \/ ~HasCost(body)
         /\ \E s \in Sites2(body[Len(body)]) :
            \E mid \in {<<>>} \cup {<<Cost(c)>> : c \in (IF Big THEN SeqSet(Costs1Seq) ELSE {Costs1Seq[2]})} :
               body' = body \o mid \o <<s>>
         /\ stage' = 2 /\ UNCHANGED <<prog, th, r>>
Finish == /\ stage \in {1, 2}
          /\ \E ret \in (IF Big \/ ~HasCost(body) THEN SeqSet(RetSeq(body)) ELSE {RetSeq(body)[1]}) :
             \E post \in {<<>>} \cup (IF ~Big /\ stage = 2 THEN {} ELSE {<<PostCost>>}) :
                prog' = Prog(body \o post, ret)
          /\ \E t \in Thetas : th' = t
          /\ stage' = 3 /\ UNCHANGED <<body, r>>
Next == Pick1 \/ Pick2 \/ Finish
Spec == Init /\ [][Next]_vars

\* Role A invariants (on finished programs).
Done == stage = 3
Unbiased == Done => MeanEstimate(prog, th, Q1) = ExpDual(prog, th)
AllEq(ed, a, b) == a = ed /\ b = ed
EnumExact == (Done /\ ~HasSampled(prog)) =>
                AllEq(ExpDual(prog, th), Estimate(prog, th, Q1, OmSeq[1]), Estimate(prog, th, Q1, OmSeq[16]))
TangentLinear == Done => \A n \in {11} :
                   LET e1 == Estimate(prog, th, Q1, OmSeq[n])
                       e2 == Estimate(prog, th, <<2, 1>>, OmSeq[n])
                       e0 == Estimate(prog, th, Q0, OmSeq[n])
                   IN  e2[1] = e1[1] /\ e2[2] = QMul(<<2, 1>>, e1[2]) /\ e0[2] = Q0 /\ e0[1] = e1[1]
ProbsValid == Done => \A c \in 1..NCtx : LET p == CtxProb(prog, th, c) IN QLt(Q0, p) /\ QLt(p, Q1)

---------------------------------------------------------------------------
\* Role B: conformance cases (program terms): a fixed core list plus random
\* programs of the grammar drawn with the explicit LCG stream.
RECURSIVE RN(_, _)
RN(rr, k) == IF k = 0 THEN rr ELSE RN(RNext(rr), k - 1)
PickSeq(s, rr) == s[RPick(rr, Len(s)) + 1]

GenSite(strats, pes, cats, g, rr) ==
  LET s == PickSeq(strats, rr) IN
  IF s = "CATPAR" THEN Sample(s, PickSeq(cats, RN(rr, 1)), C(0, 1), 0)
  ELSE Sample(s, <<PickSeq(IF s \in {"ENUM", "ENUMPAR"} /\ g = 0 THEN pes \o <<Bnd>> ELSE pes, RN(rr, 1))>>,
              IF s = "BASELINE" THEN PickSeq(BaseSeq, RN(rr, 2)) ELSE C(0, 1), g)

GenProg(rr) ==
  LET pre   == IF RPick(RN(rr, 1), 3) = 0 THEN <<Cost(PickSeq(Costs0Seq, RN(rr, 1)))>> ELSE <<>>
      s1strat == PickSeq(Strat1Seq, RN(rr, 2))
      \* the first site inside a branch of lax.cond(True, ..) (g = 3), the second one after the cond
      g1    == IF s1strat \in {"ENUM", "REINFORCE", "BASELINE"} /\ RPick(RN(rr, 9), 6) = 0 THEN 3 ELSE 0
      s1    == GenSite(Strat1Seq, PE1Seq, Cat1Seq, g1, RN(rr, 2))
      two   == RPick(rr, 4) # 0
      mid   == IF RPick(RN(rr, 5), 3) = 0 THEN <<Cost(PickSeq(Costs1Seq, RN(rr, 6)))>> ELSE <<>>
      guard == IF s1.strat # "CATPAR" /\ PickSeq(FlipStratSeq, RN(rr, 8)) # "MVD" /\ RPick(RN(rr, 7), 3) = 0 THEN 1 ELSE 0
      s2    == GenSite(FlipStratSeq,
                       IF s1.strat = "CATPAR" THEN PE2CatSeq ELSE IF guard = 1 THEN GuardPESeq ELSE PE2Seq,
                       <<>>, guard, RN(rr, 8))
      bd    == IF two THEN pre \o <<s1>> \o mid \o <<s2>> ELSE pre \o <<s1>>
      post  == IF RPick(RN(rr, 11), 3) = 0 THEN <<PostCost>> ELSE <<>>
      \* (the last return shape of each list is the cheap one to trace: taken 3 times out of 4)
      rets  == RetSeq(bd)
  IN  [v |-> Prog(bd \o post, IF RPick(RN(rr, 12), 4) = 0 THEN rets[1] ELSE rets[Len(rets)]), r |-> RN(rr, 13)]

R1 == Ret1Seq[1]
R2 == Ret2Seq[1]
Smp(s, p) == Sample(s, <<p>>, C(0, 1), 0)
Core == <<
  Prog(<<Smp("ENUM", Th)>>, R1),
  Prog(<<Smp("ENUMPAR", Th)>>, R1),
  Prog(<<Sample("CATPAR", Cat1Seq[1], C(0, 1), 0)>>, Ret1CatSeq[1]),
  Prog(<<Smp("REINFORCE", Th)>>, R1),
  Prog(<<Smp("MVD", Th)>>, R1),
  Prog(<<Sample("BASELINE", <<Th>>, C(3, 1), 0)>>, R1),
  Prog(<<Sample("BASELINE", <<ThSq>>, Mul(C(2, 1), Th), 0)>>, Ret1Seq[2]),
  Prog(<<Cost(ThSq), Smp("REINFORCE", ThSq), PostCost>>, R1),
  Prog(<<Smp("ENUM", Th), Smp("REINFORCE", Cond(1, ThSq, C(1, 4)))>>, R2),
  Prog(<<Smp("REINFORCE", Th), Cost(Mul(V(1), ThSq)), Smp("ENUM", OneMinusTh)>>, R2),
  Prog(<<Smp("REINFORCE", Th), Smp("REINFORCE", Cond(1, ThSq, C(1, 4)))>>, Ret2Seq[2]),
  Prog(<<Smp("ENUM", ThSq), Sample("REINFORCE", <<Th>>, C(0, 1), 1)>>, R2),
  Prog(<<Smp("REINFORCE", C(1, 2)), Sample("ENUM", <<Th>>, C(0, 1), 1), PostCost>>, Ret2Seq[2]),
  Prog(<<Sample("BASELINE", <<Th>>, C(3, 1), 0), Smp("MVD", OneMinusTh)>>, R2),
  Prog(<<Sample("CATPAR", Cat1Seq[1], C(0, 1), 0), Smp("REINFORCE", PE2CatSeq[2])>>, Ret2CatSeq[1]),
  Prog(<<Smp("ENUMPAR", Th), Sample("BASELINE", <<OneMinusTh>>, Mul(C(2, 1), Th), 0)>>, Ret2Seq[2]),
  Prog(<<Smp("ENUM", Bnd)>>, R1),                                       \* p = 0, 1/2, 1
  Prog(<<Smp("ENUMPAR", Bnd), PostCost>>, Ret1Seq[2]),
  Prog(<<Smp("ENUM", Bnd), Smp("REINFORCE", Cond(1, ThSq, C(1, 4)))>>, Ret2Seq[2]),
  Prog(<<Smp("MVD", Th), PostCost>>, R1),                               \* statements after flip_mvd
  Prog(<<Smp("MVD", ThSq), Smp("REINFORCE", Cond(1, Th, C(1, 4)))>>, Ret2Seq[2]),
  Prog(<<Sample("REINFORCE", <<Th>>, C(0, 1), 3), Smp("REINFORCE", ThSq)>>, Ret2Seq[2])   \* site in a branch, site after the cond
>>

InitGen == \E i \in 0..NChains :
             /\ th = <<i, 1>> /\ body = <<>> /\ stage = 1
             /\ IF i = 0 THEN prog = Core[1] /\ r = 0
                ELSE LET g == GenProg(RSeed(Seed, i)) IN prog = g.v /\ r = g.r
NextGen == /\ UNCHANGED <<body, th>>
           /\ stage' = stage + 1
           /\ IF th[1] = 0 THEN stage < Len(Core) /\ prog' = Core[stage + 1] /\ r' = r
              ELSE stage < NPerChain /\ LET g == GenProg(r) IN prog' = g.v /\ r' = g.r
SpecGen == InitGen /\ [][NextGen]_vars

\* Continuous primitives: x = mu + L eps with mu = m0 + m1 th, L = l0 + l1 th (lower
\* triangular, integers), continuation y_i = a_i x_i + c_i th; beta_implicit uses
\* m0/m1 for (alpha, beta); geometric_reinforce has probs (pi0 + pi1 (4 th))/pid.
CC(fam, d, a, c, m0, m1, l0, l1, pi0, pi1, pid) ==
  [fam |-> fam, d |-> d, a |-> a, c |-> c, m0 |-> m0, m1 |-> m1, l0 |-> l0, l1 |-> l1, pi0 |-> pi0, pi1 |-> pi1, pid |-> pid]
M1(x) == << <<x>> >>
ContCases == <<
  CC("normal_reparam", 1, <<2>>, <<1>>, <<1>>, <<2>>, M1(1), M1(1), 0, 0, 1),
  CC("normal_reparam", 1, <<1>>, <<-2>>, <<0>>, <<-1>>, M1(2), M1(-1), 0, 0, 1),
  CC("normal_reinforce", 1, <<1>>, <<1>>, <<0>>, <<1>>, M1(1), M1(1), 0, 0, 1),
  CC("normal_reinforce", 1, <<2>>, <<-1>>, <<1>>, <<-1>>, M1(2), M1(0), 0, 0, 1),
  CC("mv_normal_diag_reparam", 2, <<1, 2>>, <<1, 0>>, <<0, 1>>, <<1, 2>>, << <<1, 0>>, <<0, 2>> >>, << <<1, 0>>, <<0, -1>> >>, 0, 0, 1),
  CC("mv_normal_reparam", 2, <<1, 1>>, <<0, 1>>, <<0, 1>>, <<1, -1>>, << <<1, 0>>, <<0, 1>> >>, << <<1, 0>>, <<1, 1>> >>, 0, 0, 1),
  CC("mv_normal_reparam", 2, <<2, 1>>, <<1, 0>>, <<1, 0>>, <<0, 2>>, << <<2, 0>>, <<1, 1>> >>, << <<-1, 0>>, <<0, 1>> >>, 0, 0, 1),
  CC("uniform", 1, <<2>>, <<3>>, <<0>>, <<0>>, M1(1), M1(0), 0, 0, 1),
  CC("beta_implicit", 1, <<2>>, <<1>>, <<1, 2>>, <<1, 0>>, M1(1), M1(0), 0, 0, 1),
  CC("beta_implicit", 1, <<1>>, <<0>>, <<2, 1>>, <<-1, 2>>, M1(1), M1(0), 0, 0, 1),
  CC("geometric_reinforce", 1, <<2>>, <<1>>, <<0>>, <<0>>, M1(1), M1(0), 0, 1, 4),
  CC("geometric_reinforce", 1, <<1>>, <<-1>>, <<0>>, <<0>>, M1(1), M1(0), 2, 1, 8),
  \* two consecutive tail-call sites, one component each: the inferred noises must be independent
  CC("two_normal_reparam", 2, <<2, 1>>, <<1, -2>>, <<1, 0>>, <<2, -1>>, << <<1, 0>>, <<0, 2>> >>, << <<1, 0>>, <<0, -1>> >>, 0, 0, 1),
  \* batched mv_normal_diag_reparam: loc and scale_diag of shape (2, 2), both rows with these parameters;
  \* outputs flattened row-major; each row obeys the pathwise law and the rows have independent noise
  CC("mv_diag_batched", 2, <<1, 2>>, <<1, 0>>, <<0, 1>>, <<1, 2>>, << <<1, 0>>, <<0, 2>> >>, << <<1, 0>>, <<0, -1>> >>, 0, 0, 1),
  CC("uniform_normal_reparam", 2, <<2, 1>>, <<1, -2>>, <<0, 0>>, <<0, -1>>, << <<1, 0>>, <<0, 2>> >>, << <<0, 0>>, <<0, -1>> >>, 0, 0, 1)
>>

EmitCase == /\ PrintT(<<"CASE", ToJson([prog |-> prog, core |-> IF th[1] = 0 THEN stage ELSE 0])>>)
            /\ (th[1] = 0 /\ stage = 1) => \A i \in 1..Len(ContCases) : PrintT(<<"CCASE", ToJson(ContCases[i])>>)
\* the generated conformance programs satisfy the role-A theorems too
GenUnbiased == \A t \in Thetas : MeanEstimate(prog, t, Q1) = ExpDual(prog, t)
=============================================================================
